#!/bin/sh
# Build everything the checks need, offline, from files on disk only.
set -e
cd "$(dirname "$0")"
export CARGO_NET_OFFLINE=true
mkdir -p .work/mir .work/nightly-target .work/tmp evidence replays
exec python3-vt -m mirsym.setup
