//! Small functions over three integers, each exercising standard-library helpers that the MIR executor
//! models by hand.  `tools/selftest.py` explores every path of each function symbolically and re-runs the
//! path's witness natively: model and std must agree on every path.
#![allow(clippy::all)]
use std::collections::{BTreeMap, HashMap, HashSet};

fn small(x: u64) -> u64 {
    x & 7
}

fn opt(x: u64) -> Option<u64> {
    if x & 1 == 1 {
        Some((x >> 1) & 0xFF)
    } else {
        None
    }
}

fn res(x: u64) -> Result<u64, u64> {
    if x & 1 == 1 {
        Ok((x >> 1) & 0xFF)
    } else {
        Err((x >> 1) & 0xFF)
    }
}

fn vec3(a: u64, b: u64, c: u64) -> Vec<u64> {
    vec![small(a), small(b), small(c)]
}

pub fn t_option_filter(a: u64, b: u64, _c: u64) -> u64 {
    opt(a).filter(|x| *x > small(b)).unwrap_or(99)
}

pub fn t_option_or_xor_and(a: u64, b: u64, c: u64) -> u64 {
    let x = opt(a).or(opt(b)).unwrap_or(50);
    let y = opt(a).xor(opt(b)).unwrap_or(60);
    let z = opt(a).and(opt(c)).unwrap_or(70);
    x * 10000 + y * 100 + z
}

pub fn t_option_or_else_map_or_else(a: u64, b: u64, _c: u64) -> u64 {
    let x = opt(a).or_else(|| opt(b)).unwrap_or(41);
    let y = opt(b).map_or_else(|| 7, |v| v + 1);
    x * 1000 + y
}

pub fn t_option_zip_flatten(a: u64, b: u64, _c: u64) -> u64 {
    let z = opt(a).zip(opt(b)).map(|(x, y)| x + y).unwrap_or(1000);
    let f = Some(opt(b)).flatten().unwrap_or(2000);
    z + f
}

pub fn t_option_get_or_insert(a: u64, b: u64, _c: u64) -> u64 {
    let mut o = opt(a);
    let r = *o.get_or_insert_with(|| small(b) + 100);
    let mut p = opt(b);
    let s = *p.get_or_insert(5);
    r * 1000 + s + o.unwrap()
}

pub fn t_option_is_none_or(a: u64, b: u64, _c: u64) -> u64 {
    let x = opt(a).is_none_or(|v| v > small(b));
    let y = opt(b).is_some_and(|v| v == 3);
    (x as u64) * 2 + y as u64
}

pub fn t_result_combinators(a: u64, b: u64, c: u64) -> u64 {
    let x = res(a).and_then(|v| res(v + small(b)));
    let y = res(b).or_else(|e| if e > 2 { Ok(e) } else { Err(e + 1) });
    let z: Result<u64, u64> = res(c);
    let p = match x {
        Ok(v) => v,
        Err(e) => 100 + e,
    };
    let q = y.unwrap_or(77);
    let r = z.unwrap_or_else(|e| e + 200);
    p * 1_000_000 + q * 1000 + r
}

pub fn t_result_err_map_or(a: u64, b: u64, _c: u64) -> u64 {
    let e = res(a).err().unwrap_or(9);
    let m = res(b).map_or(3, |v| v * 2);
    let i = res(a).is_ok_and(|v| v > 1);
    let j = res(b).is_err_and(|v| v == 0);
    e * 10000 + m * 100 + (i as u64) * 2 + j as u64
}

pub fn t_result_unwrap_err(a: u64, _b: u64, _c: u64) -> u64 {
    res(small(a)).unwrap_err()
}

pub fn t_bool_then(a: u64, b: u64, _c: u64) -> u64 {
    let x = (small(a) > 3).then(|| small(b) + 1).unwrap_or(0);
    let y = (small(b) > 3).then_some(small(a)).unwrap_or(9);
    x * 10 + y
}

pub fn t_mem_swap(a: u64, b: u64, _c: u64) -> u64 {
    let mut x = small(a);
    let mut y = small(b) + 10;
    if x > 2 {
        std::mem::swap(&mut x, &mut y);
    }
    x * 100 + y
}

pub fn t_ordering(a: u64, b: u64, _c: u64) -> u64 {
    let o = small(a).cmp(&small(b));
    (o.is_lt() as u64) + 2 * (o.is_le() as u64) + 4 * (o.is_eq() as u64) + 8 * (o.is_gt() as u64) + 16 * (o.is_ge() as u64) + 32 * (o.is_ne() as u64)
}

pub fn t_abs_diff_clamp(a: u64, b: u64, c: u64) -> u64 {
    let d = small(a).abs_diff(small(b));
    let lo = small(b).min(small(c));
    let hi = small(b).max(small(c));
    let k = small(a).clamp(lo, hi);
    d * 10 + k
}

pub fn t_checked_div_rem(a: u64, b: u64, _c: u64) -> u64 {
    let d = a.checked_div(small(b)).unwrap_or(12345);
    let r = a.checked_rem(small(b)).unwrap_or(54321);
    d.wrapping_add(r)
}

pub fn t_pow(a: u64, b: u64, _c: u64) -> u64 {
    (a & 0xFFFF).pow((b & 3) as u32)
}

pub fn t_pow_overflow(a: u64, b: u64, _c: u64) -> u64 {
    a.pow((b & 3) as u32)
}

pub fn t_signed(a: u64, _b: u64, _c: u64) -> u64 {
    let x = (a as i64) >> 60;
    let s = x.signum();
    let ab = x.abs();
    let u = x.unsigned_abs();
    ((s + 1) as u64) * 10000 + (ab as u64) * 100 + u + (x.is_negative() as u64) * 1000000
}

pub fn t_ref_ops(a: u64, b: u64, c: u64) -> u64 {
    let x = &small(a);
    let y = small(b);
    let mut z = x + y;
    z += &small(c);
    let w = x * &y;
    let n = !small(c) & 0xF;
    z * 10000 + w * 100 + n
}

pub fn t_ref_add_overflow(a: u64, b: u64, _c: u64) -> u64 {
    let x = &a;
    x + b
}

pub fn t_iter_sum_product(a: u64, b: u64, c: u64) -> u64 {
    let v = vec3(a, b, c);
    let s: u64 = v.iter().sum();
    let p: u64 = v.iter().map(|x| x + 1).product();
    s * 1000 + p
}

pub fn t_iter_max_min(a: u64, b: u64, c: u64) -> u64 {
    let v = vec3(a, b, c);
    let mx = *v.iter().max().unwrap();
    let mn = *v.iter().min().unwrap();
    let pmax = v.iter().enumerate().max_by_key(|(_, x)| **x).unwrap().0 as u64;
    let pmin = v.iter().enumerate().min_by_key(|(_, x)| **x).unwrap().0 as u64;
    mx * 1000 + mn * 100 + pmax * 10 + pmin
}

pub fn t_iter_nth_findmap(a: u64, b: u64, c: u64) -> u64 {
    let v = vec3(a, b, c);
    let n = v.iter().nth((small(a) & 3) as usize).copied().unwrap_or(9);
    let f = v.iter().find_map(|x| if *x > 4 { Some(*x * 2) } else { None }).unwrap_or(99);
    let r = v.iter().rposition(|x| *x == small(b)).unwrap_or(7) as u64;
    n * 10000 + f * 10 + r
}

pub fn t_iter_take_skip_while(a: u64, b: u64, c: u64) -> u64 {
    let v = vec3(a, b, c);
    let t: Vec<u64> = v.iter().copied().take_while(|x| *x < 5).collect();
    let s: Vec<u64> = v.iter().copied().skip_while(|x| *x < 5).collect();
    (t.len() as u64) * 100 + (s.len() as u64) * 10 + s.first().copied().unwrap_or(0)
}

pub fn t_iter_flat_map(a: u64, b: u64, c: u64) -> u64 {
    let v = vec3(a, b, c);
    let f: Vec<u64> = v.iter().flat_map(|x| opt(*x)).collect();
    let g: Vec<u64> = v.iter().map(|x| opt(*x)).flatten().collect();
    (f.len() as u64) * 100 + (g.len() as u64) * 10 + f.first().copied().unwrap_or(9)
}

pub fn t_iter_any_all_position(a: u64, b: u64, c: u64) -> u64 {
    let v = vec3(a, b, c);
    let any = v.iter().any(|x| *x == 3);
    let all = v.iter().all(|x| *x < 6);
    let pos = v.iter().position(|x| *x > 4).unwrap_or(9) as u64;
    let cnt = v.iter().filter(|x| **x & 1 == 1).count() as u64;
    let last = v.iter().rev().skip(1).last().copied().unwrap_or(0);
    (any as u64) * 10000 + (all as u64) * 1000 + pos * 100 + cnt * 10 + last
}

pub fn t_iter_zip_chain_fold(a: u64, b: u64, c: u64) -> u64 {
    let v = vec3(a, b, c);
    let w = vec![small(c), small(a)];
    let z: u64 = v.iter().zip(w.iter()).map(|(x, y)| x * y).fold(0, |acc, x| acc + x);
    let ch: Vec<u64> = v.iter().chain(w.iter()).copied().take(4).collect();
    z * 100 + ch[3]
}

pub fn t_slice_starts_ends(a: u64, b: u64, c: u64) -> u64 {
    let v = vec3(a, b, c);
    let p = [small(a), small(c)];
    (v.starts_with(&p[..1]) as u64) + 2 * (v.ends_with(&p[1..]) as u64) + 4 * (v.starts_with(&p) as u64) + 8 * (v.contains(&3) as u64)
}

pub fn t_vec_swap_retain_dedup(a: u64, b: u64, c: u64) -> u64 {
    let mut v = vec3(a, b, c);
    v.swap(0, 2);
    let r = v.swap_remove((small(a) % 3) as usize);
    v.retain(|x| *x != 2);
    let mut w = vec3(a, a, b);
    w.dedup();
    r * 1000 + (v.len() as u64) * 100 + (w.len() as u64) * 10 + v.first().copied().unwrap_or(9)
}

pub fn t_slice_sort_split(a: u64, b: u64, c: u64) -> u64 {
    let mut v = vec3(a, b, c);
    v.sort();
    let (h, rest) = v.split_first().unwrap();
    let (l, _) = v.split_last().unwrap();
    h * 1000 + l * 100 + rest[0] * 10 + (v.iter().is_sorted() as u64)
}

pub fn t_vec_ops(a: u64, b: u64, c: u64) -> u64 {
    let mut v = vec3(a, b, c);
    v.insert(1, 7);
    let x = v.remove((small(b) % 4) as usize);
    v.truncate(2);
    let t = v.split_off(1);
    v.extend_from_slice(&t);
    v.push(x);
    let p = v.pop().unwrap();
    v.reverse();
    v[0] * 1000 + v[1] * 100 + p * 10 + v.len() as u64
}

pub fn t_vec_index_panic(a: u64, b: u64, c: u64) -> u64 {
    let v = vec3(a, b, c);
    v[(small(a)) as usize]
}

pub fn t_hashset_ops(a: u64, b: u64, c: u64) -> u64 {
    let s: HashSet<u64> = [small(a), small(b)].into_iter().collect();
    let t: HashSet<u64> = [small(b), small(c)].into_iter().collect();
    let d = s.difference(&t).count() as u64;
    let i = s.intersection(&t).count() as u64;
    let u = s.union(&t).count() as u64;
    let sd = s.symmetric_difference(&t).count() as u64;
    let sup = s.is_superset(&t) as u64;
    let sub = s.is_subset(&t) as u64;
    let dis = s.is_disjoint(&t) as u64;
    d * 1000000 + i * 100000 + u * 10000 + sd * 1000 + sup * 100 + sub * 10 + dis
}

pub fn t_hashset_retain_extend(a: u64, b: u64, c: u64) -> u64 {
    let mut s: HashSet<u64> = HashSet::new();
    s.insert(small(a));
    s.insert(small(b));
    s.extend([small(c), 1]);
    s.retain(|x| *x != 1);
    let g = s.get(&small(c)).copied().unwrap_or(9);
    let t = s.take(&small(a)).unwrap_or(8);
    let r = s.remove(&small(b));
    (s.len() as u64) * 1000 + g * 100 + t * 10 + r as u64
}

pub fn t_hashmap_ops(a: u64, b: u64, c: u64) -> u64 {
    let mut m: HashMap<u64, u64> = HashMap::new();
    m.insert(small(a), 1);
    let old = m.insert(small(b), 2).unwrap_or(0);
    *m.entry(small(c)).or_insert(10) += 5;
    m.entry(small(a)).and_modify(|v| *v += 100).or_insert(3);
    m.retain(|k, _| *k != 0);
    let g = m.get(&small(c)).copied().unwrap_or(0);
    let ck = m.contains_key(&small(b)) as u64;
    let rm = m.remove(&small(a)).unwrap_or(0);
    let kv = m.get_key_value(&small(b)).map(|(k, v)| k + v).unwrap_or(0);
    let total: u64 = m.values().sum();
    old * 100000000 + g * 1000000 + ck * 100000 + rm * 1000 + kv * 100 + total + (m.len() as u64) * 10000000000
}

pub fn t_btreemap_order(a: u64, b: u64, c: u64) -> u64 {
    let mut m: BTreeMap<u64, u64> = BTreeMap::new();
    m.insert(small(a), 1);
    m.insert(small(b), 2);
    m.insert(small(c), 3);
    let ks: Vec<u64> = m.keys().copied().collect();
    let vs: Vec<u64> = m.values().copied().collect();
    ks[0] * 1000 + *ks.last().unwrap() * 100 + vs[0] * 10 + m.len() as u64
}

pub fn t_checked_ops(a: u64, b: u64, _c: u64) -> u64 {
    let x = a.checked_add(b).unwrap_or(1);
    let y = a.checked_sub(b).unwrap_or(2);
    let z = (a & 0xFFFF_FFFF).checked_mul(b & 0xFFFF_FFFF).unwrap_or(3);
    let s = a.saturating_sub(b);
    let w = a.wrapping_mul(b);
    let (o, f) = a.overflowing_add(b);
    x ^ y ^ z ^ s ^ w ^ o ^ (f as u64)
}

pub fn t_try_from(a: u64, _b: u64, _c: u64) -> u64 {
    let x = u8::try_from(a >> 56).map(|v| v as u64).unwrap_or(999);
    let y = u32::try_from(a).map(|v| v as u64).unwrap_or(7);
    let z = i64::try_from(a).map(|v| v as u64).unwrap_or(8);
    x.wrapping_add(y).wrapping_add(z)
}

pub fn t_bytes_roundtrip(a: u64, b: u64, _c: u64) -> u64 {
    let le = a.to_le_bytes();
    let be = (b as u32).to_be_bytes();
    let x = u64::from_be_bytes(le);
    let y = u32::from_le_bytes(be) as u64;
    x ^ y
}

pub fn t_string_ops(a: u64, b: u64, _c: u64) -> u64 {
    let mut s = String::new();
    if small(a) > 3 {
        s.push_str("ab");
    }
    if small(b) > 3 {
        s.push('c');
    }
    (s.len() as u64) * 10 + (s.is_empty() as u64) + 100 * (s == "abc") as u64 + 1000 * (s.starts_with("ab") as u64)
}

pub fn t_vec_drain_iter_adaptors(a: u64, b: u64, c: u64) -> u64 {
    let mut v = vec3(a, b, c);
    v.push(small(a) + 1);
    let d: Vec<u64> = v.drain(1..3).collect();
    let e: u64 = v.iter().enumerate().map(|(i, x)| (i as u64 + 1) * x).fold(0, |s, x| s + x);
    let r: Vec<u64> = d.iter().rev().copied().collect();
    let t: Vec<u64> = r.iter().skip(1).take(1).cloned().collect();
    e * 1000 + r[0] * 100 + t.first().copied().unwrap_or(9) * 10 + v.len() as u64
}

pub fn t_sort_by_key(a: u64, b: u64, c: u64) -> u64 {
    let mut v = vec![(small(a), 0u64), (small(b), 1), (small(c), 2)];
    v.sort_by(|x, y| x.0.cmp(&y.0));
    let first = v[0].1;
    v.sort_by_key(|x| std::cmp::Reverse(x.0));
    let mut w = vec3(a, b, c);
    w.sort_unstable();
    first * 1000 + v[0].1 * 100 + w[1] * 10 + w[2]
}

pub fn t_peekable(a: u64, b: u64, c: u64) -> u64 {
    let v = vec3(a, b, c);
    let mut it = v.iter().peekable();
    let mut out = 0u64;
    while let Some(x) = it.next() {
        if let Some(nx) = it.peek() {
            if **nx > *x {
                out += 10;
            }
        }
        if it.next_if(|y| **y == 3).is_some() {
            out += 1;
        }
    }
    out
}

pub fn t_cmp_min_max(a: u64, b: u64, c: u64) -> u64 {
    let x = std::cmp::min(small(a), small(b));
    let y = std::cmp::max(small(b), small(c));
    let z = small(a).max(small(c));
    x * 100 + y * 10 + z
}

pub fn t_option_take_replace(a: u64, b: u64, _c: u64) -> u64 {
    let mut o = opt(a);
    let t = o.take().unwrap_or(7);
    let mut p = opt(b);
    let r = p.replace(4).unwrap_or(8);
    let i = *p.insert(small(a));
    let m = std::mem::take(&mut p).unwrap_or(1);
    let rr = std::mem::replace(&mut o, Some(5)).unwrap_or(2);
    t * 10000 + r * 1000 + i * 100 + m * 10 + rr
}

pub fn t_slice_get_first_last(a: u64, b: u64, c: u64) -> u64 {
    let v = vec3(a, b, c);
    let s = &v[..(small(a) % 4) as usize];
    let g = s.get(1).copied().unwrap_or(9);
    let f = s.first().copied().unwrap_or(8);
    let l = s.last().copied().unwrap_or(7);
    g * 100 + f * 10 + l + 1000 * s.len() as u64
}

pub fn t_slice_range_panic(a: u64, b: u64, c: u64) -> u64 {
    let v = vec3(a, b, c);
    let s = &v[(small(a) % 5) as usize..];
    s.len() as u64
}

pub fn t_string_cmp_lower(a: u64, b: u64, _c: u64) -> u64 {
    let x = if small(a) > 3 { "Abc" } else { "abD" };
    let y = if small(b) > 3 { String::from("abc") } else { String::from("ABD") };
    let lx = x.to_lowercase();
    let o = lx.cmp(&y.to_lowercase());
    let p = x.cmp(y.as_str());
    (o as i8 + 1) as u64 * 100 + (p as i8 + 1) as u64 * 10 + (x.contains('D') as u64) + 2 * (lx == y) as u64
}

pub fn t_array_eq(a: u64, b: u64, c: u64) -> u64 {
    let x = [small(a) as u8, small(b) as u8];
    let y = [small(b) as u8, small(c) as u8];
    let v: Vec<u8> = y.to_vec();
    (x == y) as u64 + 2 * (v.as_slice() == x) as u64 + 4 * (x.contains(&3)) as u64
}

pub fn t_indexing_arith(a: u64, b: u64, c: u64) -> u64 {
    let v = vec3(a, b, c);
    let i = (small(a) as usize) % v.len();
    let j = v.len() - 1 - i;
    v[i] * 10 + v[j]
}

pub fn t_sub_overflow(a: u64, b: u64, _c: u64) -> u64 {
    small(a) - small(b)
}

pub fn t_mul_shift(a: u64, b: u64, c: u64) -> u64 {
    let x = (a & 0xFFFF) * (b & 0xFFFF);
    let y = x << (c & 7);
    let z = y >> (b & 3);
    z ^ (a as u32 as u64) ^ ((b as i32) as i64 as u64) ^ ((c as u8) as u64)
}

pub fn t_div_rem(a: u64, b: u64, _c: u64) -> u64 {
    let d = small(b);
    (a & 0xFFFF) / d + (a & 0xFF) % d
}

pub fn t_hashset_from_vec_contains(a: u64, b: u64, c: u64) -> u64 {
    let v = vec3(a, b, c);
    let s: HashSet<&u64> = v.iter().collect();
    let n = s.len() as u64;
    let h = s.contains(&3) as u64;
    let keys: HashSet<u64> = v.iter().map(|x| x & 1).collect();
    n * 100 + h * 10 + keys.len() as u64
}

pub fn t_dedup_by_then_with(a: u64, b: u64, c: u64) -> u64 {
    let mut v = vec![(small(a), 1u64), (small(b), 2), (small(c), 3)];
    v.sort_by(|x, y| (x.0 & 1).cmp(&(y.0 & 1)).then_with(|| y.0.cmp(&x.0)));
    let first = v[0].1;
    v.dedup_by(|later, earlier| later.0 == earlier.0);
    let mut w = vec3(a, b, c);
    w.dedup_by_key(|x| *x & 6);
    let o = small(a).cmp(&small(b)).then(small(b).cmp(&small(c))).reverse();
    first * 1000 + (v.len() as u64) * 100 + (w.len() as u64) * 10 + (o as i8 + 1) as u64
}

pub fn t_chunks_copy(a: u64, b: u64, c: u64) -> u64 {
    let bytes = [a.to_le_bytes(), b.to_le_bytes()].concat();
    let n = (small(c) % 5 + 1) as usize;
    let data = &bytes[..(small(a) as usize + 6)];
    let mut acc = 0u64;
    for ch in data.chunks(n) {
        acc = acc * 7 + ch.len() as u64 + ch[0] as u64;
    }
    let ex = data.chunks_exact(n).count() as u64;
    let mut four = [0u8; 4];
    four.copy_from_slice(&data[..(small(b) as usize % 6)]);
    acc * 1000 + ex * 10 + four[3] as u64
}

pub fn t_hashset_eq(a: u64, b: u64, c: u64) -> u64 {
    let x: HashSet<u64> = [small(a), small(b)].into_iter().collect();
    let y: HashSet<u64> = [small(b), small(c)].into_iter().collect();
    let z: HashSet<u64> = [small(c), small(a), small(b)].into_iter().collect();
    (x == y) as u64 * 100 + (x != z) as u64 * 10 + (y == z) as u64
}
