use std::io::BufRead;

fn call(name: &str, a: u64, b: u64, c: u64) -> u64 {
    match name {
        "t_option_filter" => modeltest::t_option_filter(a, b, c),
        "t_option_or_xor_and" => modeltest::t_option_or_xor_and(a, b, c),
        "t_option_or_else_map_or_else" => modeltest::t_option_or_else_map_or_else(a, b, c),
        "t_option_zip_flatten" => modeltest::t_option_zip_flatten(a, b, c),
        "t_option_get_or_insert" => modeltest::t_option_get_or_insert(a, b, c),
        "t_option_is_none_or" => modeltest::t_option_is_none_or(a, b, c),
        "t_result_combinators" => modeltest::t_result_combinators(a, b, c),
        "t_result_err_map_or" => modeltest::t_result_err_map_or(a, b, c),
        "t_result_unwrap_err" => modeltest::t_result_unwrap_err(a, b, c),
        "t_bool_then" => modeltest::t_bool_then(a, b, c),
        "t_mem_swap" => modeltest::t_mem_swap(a, b, c),
        "t_ordering" => modeltest::t_ordering(a, b, c),
        "t_abs_diff_clamp" => modeltest::t_abs_diff_clamp(a, b, c),
        "t_checked_div_rem" => modeltest::t_checked_div_rem(a, b, c),
        "t_pow" => modeltest::t_pow(a, b, c),
        "t_pow_overflow" => modeltest::t_pow_overflow(a, b, c),
        "t_signed" => modeltest::t_signed(a, b, c),
        "t_ref_ops" => modeltest::t_ref_ops(a, b, c),
        "t_ref_add_overflow" => modeltest::t_ref_add_overflow(a, b, c),
        "t_iter_sum_product" => modeltest::t_iter_sum_product(a, b, c),
        "t_iter_max_min" => modeltest::t_iter_max_min(a, b, c),
        "t_iter_nth_findmap" => modeltest::t_iter_nth_findmap(a, b, c),
        "t_iter_take_skip_while" => modeltest::t_iter_take_skip_while(a, b, c),
        "t_iter_flat_map" => modeltest::t_iter_flat_map(a, b, c),
        "t_iter_any_all_position" => modeltest::t_iter_any_all_position(a, b, c),
        "t_iter_zip_chain_fold" => modeltest::t_iter_zip_chain_fold(a, b, c),
        "t_slice_starts_ends" => modeltest::t_slice_starts_ends(a, b, c),
        "t_vec_swap_retain_dedup" => modeltest::t_vec_swap_retain_dedup(a, b, c),
        "t_slice_sort_split" => modeltest::t_slice_sort_split(a, b, c),
        "t_vec_ops" => modeltest::t_vec_ops(a, b, c),
        "t_vec_index_panic" => modeltest::t_vec_index_panic(a, b, c),
        "t_hashset_ops" => modeltest::t_hashset_ops(a, b, c),
        "t_hashset_retain_extend" => modeltest::t_hashset_retain_extend(a, b, c),
        "t_hashmap_ops" => modeltest::t_hashmap_ops(a, b, c),
        "t_btreemap_order" => modeltest::t_btreemap_order(a, b, c),
        "t_checked_ops" => modeltest::t_checked_ops(a, b, c),
        "t_try_from" => modeltest::t_try_from(a, b, c),
        "t_bytes_roundtrip" => modeltest::t_bytes_roundtrip(a, b, c),
        "t_string_ops" => modeltest::t_string_ops(a, b, c),
        "t_vec_drain_iter_adaptors" => modeltest::t_vec_drain_iter_adaptors(a, b, c),
        "t_sort_by_key" => modeltest::t_sort_by_key(a, b, c),
        "t_peekable" => modeltest::t_peekable(a, b, c),
        "t_cmp_min_max" => modeltest::t_cmp_min_max(a, b, c),
        "t_option_take_replace" => modeltest::t_option_take_replace(a, b, c),
        "t_slice_get_first_last" => modeltest::t_slice_get_first_last(a, b, c),
        "t_slice_range_panic" => modeltest::t_slice_range_panic(a, b, c),
        "t_string_cmp_lower" => modeltest::t_string_cmp_lower(a, b, c),
        "t_array_eq" => modeltest::t_array_eq(a, b, c),
        "t_indexing_arith" => modeltest::t_indexing_arith(a, b, c),
        "t_sub_overflow" => modeltest::t_sub_overflow(a, b, c),
        "t_mul_shift" => modeltest::t_mul_shift(a, b, c),
        "t_div_rem" => modeltest::t_div_rem(a, b, c),
        "t_hashset_from_vec_contains" => modeltest::t_hashset_from_vec_contains(a, b, c),
        "t_dedup_by_then_with" => modeltest::t_dedup_by_then_with(a, b, c),
        "t_chunks_copy" => modeltest::t_chunks_copy(a, b, c),
        "t_hashset_eq" => modeltest::t_hashset_eq(a, b, c),
        _ => panic!("unknown function"),
    }
}

fn main() {
    std::panic::set_hook(Box::new(|_| {}));
    let stdin = std::io::stdin();
    for line in stdin.lock().lines() {
        let line = line.unwrap();
        let p: Vec<&str> = line.split_whitespace().collect();
        if p.len() != 4 {
            continue;
        }
        let (a, b, c) = (p[1].parse::<u64>().unwrap(), p[2].parse::<u64>().unwrap(), p[3].parse::<u64>().unwrap());
        let name = p[0].to_string();
        let r = std::panic::catch_unwind(move || call(&name, a, b, c));
        match r {
            Ok(v) => println!("ok {}", v),
            Err(_) => println!("panic"),
        }
    }
}
