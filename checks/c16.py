"""C16 — integrity reports flag every corruption and nothing else (comparison kernels).

The real `vault_integrity` / `vault_stream` (both backends) and `event_integrity` of sos-integrity are
executed from MIR.  Storage is the symbolic part:
  * database backend: the rusqlite statement is a nondeterministic stub that yields k rows with symbolic
    identifier, 32 symbolic commit bytes and symbolic meta / secret blobs;
  * file-system backend: a vault file on the vfs model with k rows whose id, commit and value bytes are symbolic;
  * event log: k records with symbolic payload bytes and 32 symbolic commit bytes.
SHA-256 is an ideal hash (Ackermann-encoded: well defined and injective), so "intact" is
`stored commit == sha(content)` and "any byte of content or checksum changed" is its negation.
Oracle per row/record i, decided by z3 on every path:  the report's i-th item is a failure  <=>
sha(content_i) != commit_i, one item per row, in order.
"""
import hashlib
import json
import os
import re as _re
import time
import z3

from .common import Check, Replayer
from . import par
from mirsym import harness as H
from mirsym import models as M
from mirsym import merkle as MK
from mirsym import vfs as VF
from mirsym.models import ok, err, some, none, deref, future, pin_box, run_future
from mirsym.engine import (Cell, Ref, Int, EnumV, Agg, VecV, Opaque, Closure, Inconclusive, Untranslatable, bz3,
                           bytes_from_ints, deep_copy, to_bool, b_and, b_not, unit)

PROP = "C16"
CRATES = ["sos_core", "sos_vault", "sos_filesystem", "sos_database", "sos_integrity"]
VAULT_PATH = "vault.file"


def model(pattern):
    def deco(f):
        M.MODELS.insert(0, (_re.compile(pattern), f))
        return f
    return deco


from mirsym import plumbing as PL      # noqa: F401,E402  (tokio channel / spawn / stream stubs)


# ------------------------------------------------------------------ storage stubs

@model(r"BackendTarget::with_account_id$")
def m_with_account(engine, ctx, args, callee, frame):
    return args[0]


@model(r"Client::conn_and_then::<")
def m_conn_and_then(engine, ctx, args, callee, frame):
    clo = args[1]
    return future(callee, lambda: engine.call_closure(clo, [Ref(Cell(Opaque("Connection")))]))


@model(r"^FolderEntity::<.*>::new$")
def m_folder_entity_new(engine, ctx, args, callee, frame):
    return Opaque("FolderEntity")


@model(r"^FolderEntity::<.*>::find_one$")
def m_find_one(engine, ctx, args, callee, frame):
    row = Agg("struct", "FolderRow", [Cell(Int(1, 64, True))] + [Cell(Opaque("col%d" % i)) for i in range(16)])
    return ok(row)


@model(r"^FolderEntity::<.*>::find_all_secrets_query$")
def m_query(engine, ctx, args, callee, frame):
    return Opaque("Select")


@model(r"Select>::as_string$")
def m_as_string(engine, ctx, args, callee, frame):
    return M.bytes_from_concrete(b"SELECT")


@model(r"Connection>::prepare_cached$")
def m_prepare(engine, ctx, args, callee, frame):
    return ok(Opaque("CachedStatement"))


@model(r"^<CachedStatement<.*> as DerefMut>::deref_mut$")
def m_stmt_deref(engine, ctx, args, callee, frame):
    return args[0]


class RowsV:
    def __init__(self, items):
        self.items = items
        self.idx = 0

    def clone(self):
        return self


@model(r"^Statement::<.*>::query_and_then::<")
def m_query_and_then(engine, ctx, args, callee, frame):
    """nondeterministic stub for the database: the rows are whatever the harness chose"""
    return ok(RowsV([ok(deep_copy(r)) for r in ctx.h16["rows"]]))


@model(r"^<AndThenRows<.*> as IntoIterator>::into_iter$")
def m_rows_iter(engine, ctx, args, callee, frame):
    return args[0]


@model(r"^<AndThenRows<.*> as (std::iter::)?Iterator>::next$")
def m_rows_next(engine, ctx, args, callee, frame):
    rows = deref(args[0])
    if rows.idx >= len(rows.items):
        return none()
    rows.idx += 1
    return some(rows.items[rows.idx - 1])


@model(r"^core::str::<impl str>::parse::<uuid::Uuid>$")
def m_parse_uuid(engine, ctx, args, callee, frame):
    """identifiers in the table are valid UUIDs (assumption); the value is the row's id bytes"""
    b = M.as_bytes(engine, args[0])
    k = getattr(b, "row_index", None)
    ids = ctx.h16["ids"]
    n = ctx.h16.setdefault("parsed", 0)
    ctx.h16["parsed"] = n + 1
    return ok(uuid_value(ids[n % len(ids)]))


@model(r"^BackendEventLog::<.*>::new_folder$")
def m_new_folder_log(engine, ctx, args, callee, frame):
    return future(callee, lambda: ok(M.EventLogV([(r, None) for r in ctx.h16["records"]])))


@model(r"^Paths::vault_path$")
def m_vault_path(engine, ctx, args, callee, frame):
    return VF.PathV(VAULT_PATH)


# ------------------------------------------------------------------ symbolic storage

def uuid_value(bs):
    return Agg("struct", "Uuid", [Cell(Agg("array", None, [Cell(b) for b in bs]))])


def sym_bytes(tag, n):
    return [Int(z3.BitVec("%s%d" % (tag, j), 8), 8) for j in range(n)]


def sym_rows(ctx, shape):
    """shape: list of (meta_len, secret_len)"""
    rows, metas, ids = [], [], []
    for i, (ml, sl) in enumerate(shape):
        commit = sym_bytes("r%d_c" % i, 32)
        meta = sym_bytes("r%d_m" % i, ml)
        secret = sym_bytes("r%d_s" % i, sl)
        idb = sym_bytes("r%d_id" % i, 16)
        ids.append(idb)
        ident = M.bytes_from_concrete(b"00000000-0000-0000-0000-%012d" % i)
        rows.append(Agg("struct", "SecretRow", [
            Cell(Int(i + 1, 64, True)), Cell(M.bytes_from_concrete(b"")), Cell(M.bytes_from_concrete(b"")),
            Cell(ident), Cell(bytes_from_ints(commit)), Cell(bytes_from_ints(meta)), Cell(bytes_from_ints(secret))]))
        metas.append({"commit": commit, "meta": meta, "secret": secret, "id": idb, "content": meta + secret})
    return rows, metas, ids


def concrete_bytes(m, ints):
    return [m.eval(b.z3(), model_completion=True).as_long() for b in ints]


def item_is_err(it):
    return it.variant == "Err"


def run_shape(prog, kind, shape):
    name = "%s %s" % (kind, shape)
    out = {"entry": name, "states": 0, "queries": 0, "solver_s": 0.0, "obligations": 0, "discharged": 0,
           "inconclusive": [], "gaps": {}, "reports": [], "samples": [], "stubs": [], "kinds": {}}
    eng = H.new_engine(prog, loop_bound=64)
    _c0 = H.cross_begin()

    def thunk(ctx):
        ctx.sha_bytes = True
        ctx.h16 = {}
        aid = Agg("struct", "AccountId", [Cell(Agg("array", None, [Cell(Int(1, 8)) for _ in range(20)]))])
        fid = uuid_value([Int(9, 8) for _ in range(16)])
        if kind == "vault-db":
            rows, metas, ids = sym_rows(ctx, shape)
            ctx.h16.update(rows=rows, ids=ids)
            d = eng.program.enum_variant("BackendTarget", "Database")
            target = EnumV("BackendTarget", "Database", d, [Cell(Opaque("Paths")), Cell(Opaque("Client"))])
            st = eng.call_named("vault_integrity", [Ref(Cell(target)), Ref(Cell(aid)), Ref(Cell(fid))], None)
        elif kind == "vault-fs":
            metas = build_vault_file(eng, ctx, shape)
            d = eng.program.enum_variant("BackendTarget", "FileSystem")
            target = EnumV("BackendTarget", "FileSystem", d, [Cell(Opaque("Paths"))])
            st = eng.call_named("vault_integrity", [Ref(Cell(target)), Ref(Cell(aid)), Ref(Cell(fid))], None)
        else:
            recs, metas = sym_records(ctx, shape)
            ctx.h16.update(records=recs)
            target = Opaque("BackendTarget")
            st = eng.call_named("event_integrity", [Ref(Cell(target)), Ref(Cell(aid)), Ref(Cell(fid))], None)
        ctx.metas = metas
        for x in metas:
            # ideal-hash value of the content as stored, related by the Ackermann constraints to every
            # sha application the code made on this path
            x["h"] = MK.sha_bv(ctx, x["content"])
        items = M.find_stream(st).items
        return (items, list(ctx.__dict__.get("spawned_tasks", [])))

    def decide(res, cond, what, key):
        out["obligations"] += 1
        if cond is True or (z3.is_expr(cond) and z3.is_true(z3.simplify(cond))):
            out["discharged"] += 1
            return
        s = z3.SolverFor("QF_ABV")
        for c in res.pc:
            s.add(bz3(c))
        s.add(z3.Not(bz3(cond)))
        t = time.time()
        r = s.check()
        out["solver_s"] += time.time() - t
        out["queries"] += 1
        if not H.cross_check(s, r, what):
            out["inconclusive"].append("second solver disagrees: %s" % H.CROSS["disagree"][-1])
        if r == z3.unsat:
            out["discharged"] += 1
            return
        if r != z3.sat:
            out["inconclusive"].append("%s: solver unknown (%s)" % (name, what))
            return
        m = s.model()
        # ideal-hash witness -> real SHA-256 witness: every stored checksum that equals, in the model, the hash of
        # some data the path hashed is replaced by the real digest of that data
        digests = {}
        for (n, xx, hh) in getattr(res.ctx, "sha_apps", []):
            data = b"" if n == 0 else m.eval(xx, model_completion=True).as_long().to_bytes(n, "big")
            digests[m.eval(hh, model_completion=True).as_long()] = list(hashlib.sha256(data).digest())
        rows = []
        for x in res.ctx.metas:
            content = concrete_bytes(m, x["content"])
            commit = concrete_bytes(m, x["commit"])
            cv = int.from_bytes(bytes(commit), "big")
            intact = z3.is_true(m.eval(x["h"] == z3.Concat(*[b.z3() for b in x["commit"]]), model_completion=True))
            if cv in digests:
                commit = digests[cv]
            elif commit == list(hashlib.sha256(bytes(content)).digest()):
                commit[0] ^= 1
            rows.append({"id": concrete_bytes(m, x["id"]) if "id" in x else None, "commit": commit,
                         "meta": concrete_bytes(m, x.get("meta", [])), "secret": concrete_bytes(m, x.get("secret", [])),
                         "content": content, "intact_in_model": intact})
        case = {"op": "integrity", "kind": kind, "what": what, "rows": rows}
        out["reports"].append(("%s|%s" % (kind, key), "%s: %s" % (name, what), case))

    def on_result(res):
        out["states"] += 1
        out["kinds"][res.kind] = out["kinds"].get(res.kind, 0) + 1
        if res.kind == "untranslatable":
            k = "%s @ %s" % (res.err[0], str(res.err[1])[:200])
            out["gaps"][k] = out["gaps"].get(k, 0) + 1
            return
        if res.kind != "ret":
            out["inconclusive"].append("%s: path ended with %s %r" % (name, res.kind, res.err))
            return
        items, tasks = res.value
        metas = res.ctx.metas
        for t in tasks:
            if getattr(t, "variant", "Ok") != "Ok":
                decide(res, False, "the reader task ended with an error on well-formed storage: %s" % repr(getattr(t.fields[0].v, "payload", t.fields[0].v))[:200], "task error")
        if len(items) != len(metas):
            decide(res, False, "report has %d items for %d rows" % (len(items), len(metas)), "item count")
            return
        for i, (it, x) in enumerate(zip(items, metas)):
            intact = x["h"] == z3.Concat(*[b.z3() for b in x["commit"]])
            res2 = res
            if item_is_err(it):
                decide(res2, z3.Not(intact), "an intact row/record (commit == sha(content)) is reported as a failure", "false failure")
            else:
                decide(res2, intact, "a row/record whose content or checksum was changed is reported as intact", "missed corruption")
        if not out["samples"]:
            mm = H.witness_for(res)
            if mm is not None:
                out["samples"].append({"kind": kind, "shape": list(shape), "items": ["Err" if item_is_err(i) else "Ok" for i in items]})

    try:
        eng.explore(thunk, on_result=on_result)
    except Inconclusive as e:
        out["inconclusive"].append("%s: %s" % (name, e))
    st = eng.stats
    out["queries"] += st.queries
    out["solver_s"] += st.solver_s
    out["blocks"] = {prog.pretty(kk[1]): len(vv) for kk, vv in st.blocks_hit.items()}
    out["stubs"] = sorted(set(c.split("::<")[0][:80] for c in st.calls_modelled))
    out["cross"] = H.cross_end(_c0)
    return out


def sym_records(ctx, shape):
    recs, metas = [], []
    for i, n in enumerate(shape):
        commit = sym_bytes("e%d_c" % i, 32)
        payload = sym_bytes("e%d_p" % i, n)
        t = Agg("struct", "UtcDateTime", [Cell(M.odt(Int(1700000000 + i, 64, True), Int(0, 32)))])
        last = Agg("struct", "CommitHash", [Cell(Agg("array", None, [Cell(Int(0, 8)) for _ in range(32)]))])
        c = Agg("struct", "CommitHash", [Cell(Agg("array", None, [Cell(b) for b in commit]))])
        recs.append(Agg("struct", "EventRecord", [Cell(t), Cell(last), Cell(c), Cell(bytes_from_ints(payload))]))
        metas.append({"commit": commit, "content": payload})
    return recs, metas


def build_vault_file(eng, ctx, shape):
    """identity | u32 header_len = 0 | rows;  row = u32 len | id[16] | commit[32] | u32 n | value[n] | u32 len
    (little endian, as sos_core::encoding_options(); the layout is read back by the real FormatStream)"""
    vfs = VF.Vfs()
    data = VF.FileData()
    ident = eng.eval_const(None, "sos_core::constants::VAULT_IDENTITY")
    bs = [c.v for c in ident.fields] + [Int(0, 8)] * 4
    metas = []
    for i, n in enumerate(shape):
        idb = sym_bytes("v%d_id" % i, 16)
        commit = sym_bytes("v%d_c" % i, 32)
        value = sym_bytes("v%d_v" % i, n)
        rl = 16 + 32 + 4 + n
        lenb = [Int((rl >> sh) & 0xFF, 8) for sh in (0, 8, 16, 24)]
        vlen = [Int((n >> sh) & 0xFF, 8) for sh in (0, 8, 16, 24)]
        bs += lenb + idb + commit + vlen + value + lenb
        metas.append({"id": idb, "commit": commit, "content": value})
    for i, b in enumerate(bs):
        data.arr = z3.Store(data.arr, z3.BitVecVal(i, 64), b.z3())
    data.length = Int(len(bs), 64)
    vfs.files[VAULT_PATH] = data
    ctx.vfs = vfs
    return metas


SHAPES_QUICK = {
    "vault-db": [[(1, 1)], [(2, 1)], [(1, 1), (1, 1)]],
    "vault-fs": [[2], [1, 2]],
    "events": [[1], [2, 1]],
}
SHAPES_THOROUGH = {
    "vault-db": [[(1, 1)], [(2, 1)], [(1, 2)], [(2, 2)], [(0, 1)], [(1, 0)], [(1, 1), (1, 1)], [(1, 1), (2, 1), (1, 2)]],
    "vault-fs": [[0], [1], [2], [4], [1, 2], [2, 2, 1]],
    "events": [[0], [1], [2], [4], [2, 1], [1, 1, 2]],
}


def native_violates(case, nat):
    """does the real build misreport the concrete storage? (truth recomputed with real SHA-256 by the driver)"""
    if nat.get("outcome") != "ok":
        return False
    for row in nat.get("rows", []):
        if row["reported_failure"] != (not row["intact"]):
            return True
    return len(nat.get("rows", [])) != len(case["rows"])


def run(tier, regenerate=True):
    chk = Check(PROP, tier)
    shapes = SHAPES_QUICK if tier == "quick" else SHAPES_THOROUGH
    chk.bounds = {"rows_or_records": "1..%d" % max(len(s) for v in shapes.values() for s in v),
                  "content_bytes_per_row": "<= 4, all symbolic", "commit": "32 symbolic bytes",
                  "shapes": {k: [list(map(list, s)) if s and isinstance(s[0], tuple) else s for s in v] for k, v in shapes.items()}}
    prog = H.load_program(CRATES, regenerate=regenerate)
    chk.extra["mir_regeneration_s"] = prog.timings
    only = os.environ.get("VERIF_ONLY")
    jobs = [(k, s) for k, v in shapes.items() for s in v if not only or k in only.split(",")]
    results = par.map_entries(lambda j: run_shape(prog, j[0], j[1]), jobs)
    rep = None
    blocks = {}
    for out in results:
        if isinstance(out, Exception) or out is None:
            chk.inconclusive.append("worker failed: %r" % (out,))
            continue
        chk.add_cross(out)
        chk.states += out["states"]
        chk.transitions += out["queries"]
        chk.solver_s += out["solver_s"]
        chk.obligations += out["obligations"]
        chk.discharged += out["discharged"]
        chk.inconclusive.extend(out["inconclusive"])
        chk.stubs.update(out["stubs"])
        if len(chk.samples) < 8:
            chk.samples.extend(out["samples"])
        for kk, n in out["gaps"].items():
            chk.gaps[kk] = chk.gaps.get(kk, 0) + n
        for kk, n in out.get("blocks", {}).items():
            blocks[kk] = max(blocks.get(kk, 0), n)
        for key, desc, case in out["reports"]:
            if rep is None:
                rep = Replayer("dev")
                rep.build()
            nat = rep.run(case)
            if native_violates(case, nat):
                chk.replays_ok += 1
                chk.report(key, desc + "; storage=%s native=%s" % (json.dumps(case["rows"])[:300], json.dumps(nat)[:300]), case)
            else:
                chk.replays_bad += 1
                chk.inconclusive.append("not reproduced natively: %s :: %s" % (desc, json.dumps(nat)[:300]))
    if rep is not None:
        rep.close()
    chk.functions = {kk: {"mir_blocks_executed": v} for kk, v in sorted(blocks.items())}
    chk.assumptions = [
        "kernel only: vault_integrity/vault_stream (both backends) and event_integrity; account_integrity's folder loop, "
        "file_integrity (streaming SHA-256 of blobs under tokio::select!), missing-file detection and real storage are outside",
        "SHA-256 is an ideal hash (well defined, injective); rusqlite is a nondeterministic stub that yields the harness's rows; "
        "row identifiers are valid UUIDs",
        "the spawned reader task runs to completion before the stream is consumed (no concurrency modelled); "
        "try_filter_map is evaluated eagerly",
        "the event log is given as its record sequence (reading records from files is C06's subject)",
    ]
    return chk.finish(rule="one state = one path of vault_integrity / event_integrity over one storage shape with symbolic content and checksums")


def replay(path):
    case = json.load(open(path))
    rep = Replayer("dev")
    nat = rep.run(case)
    rep.close()
    print(json.dumps(nat))
    if native_violates(case, nat):
        print("VIOLATION property=%s replay=%s" % (PROP, path))
        return 1
    return 0
