"""C11 part C — the server's set of trusted devices follows its device log.

`Backend::verify_device` checks a signature against `ServerAccountStorage::list_device_keys()`, an in-memory set
that the server refreshes when the device event log changes.  Here `<SyncImpl<T> as Merge>::merge_device` and
`<SyncImpl<T> as ForceMerge>::force_merge_device` (or the trait's provided method when the impl does not
override it) run from the MIR of sos-server-storage / sos-sync with `DeviceReducer::reduce` from sos-reducers,
over a device log of k events and a patch of j events whose kinds (trust / revoke) are enumerated and whose
device keys are symbolic (pool of two, so re-trust, revoke of an unknown key and revoke-after-trust occur).
The event log is the harness's record list: `patch_checked` succeeds or conflicts nondeterministically,
`replace_all_events` succeeds or fails nondeterministically.  Obligation, decided per path: whenever the call
changed the device log, the last set handed to `set_devices` happened after the change and holds exactly the
keys trusted by replaying the new log (trust adds, revoke removes) — so a revoked device stops verifying.
"""
import re as _re
import time
import z3

from mirsym import harness as H
from mirsym import models as M
from mirsym.models import ok, err, some, none, deref, future, pin_box, LockV
from mirsym.engine import (Cell, Ref, Int, EnumV, Agg, VecV, Opaque, Inconclusive, Untranslatable, bz3, to_bool,
                           b_and, b_or, b_not, deep_copy, unit)

CRATES = ["sos_core", "sos_reducers", "sos_sync", "sos_server_storage"]


def model(pattern):
    def deco(f):
        M.MODELS.insert(0, (_re.compile(pattern), f))
        return f
    return deco


class World:
    cur = None


def key_value(kb):
    return Agg("struct", "DevicePublicKey", [Cell(Agg("array", None, [Cell(Int(kb if i == 0 else 0x22, 8)) for i in range(32)]))])


def key_byte(v):
    v = deref(v)
    while isinstance(v, Agg) and v.kind == "struct":
        v = v.fields[0].v
    return v.fields[0].v.z3()


def device_event(prog, kind, kb, tag):
    if kind == "trust":
        dev = Agg("struct", "TrustedDevice", [Cell(key_value(kb)), Cell(Opaque("DeviceMetaData", tag)), Cell(Opaque("OffsetDateTime", tag))])
        return EnumV("DeviceEvent", "Trust", prog.enum_variant("DeviceEvent", "Trust"), [Cell(dev)])
    return EnumV("DeviceEvent", "Revoke", prog.enum_variant("DeviceEvent", "Revoke"), [Cell(key_value(kb))])


def record(i):
    t = Agg("struct", "UtcDateTime", [Cell(M.odt(Int(1700000000 + i, 64, True), Int(0, 32)))])
    h = Agg("struct", "CommitHash", [Cell(Agg("array", None, [Cell(Int(i if j == 0 else 0x33, 8)) for j in range(32)]))])
    z = Agg("struct", "CommitHash", [Cell(Agg("array", None, [Cell(Int(0, 8)) for _ in range(32)]))])
    return Agg("struct", "EventRecord", [Cell(t), Cell(z), Cell(h), Cell(M.bytes_from_concrete(b""))])


def record_index(r):
    return deref(r).fields[2].v.fields[0].v.fields[0].v.v


# ------------------------------------------------------------------ harness stubs

@model(r"^<T as (sos_sync::)?StorageEventLogs>::device_log(::<.*>)?$")
def m_device_log(engine, ctx, args, callee, frame):
    w = World.cur
    return pin_box(future(callee, lambda: ok(Ref(Cell(w["lock"])))))


@model(r"^<T as (crate::|sos_server_storage::)?(traits::)?ServerAccountStorage>::set_devices$")
def m_set_devices(engine, ctx, args, callee, frame):
    w = World.cur
    st = deref(args[1])
    w["set_calls"].append(([deep_copy(x) for x in st.items], len(w["log"].entries), w["mutations"]))
    return unit()


@model(r"TrackedChanges::new_device_records$")
def m_tracked(engine, ctx, args, callee, frame):
    return future(callee, lambda: ok(M.SetV("IndexSet")))


def patch_entries(w, patch):
    p = deref(patch)
    recs = p.fields[0].v            # Patch(Vec<EventRecord>, PhantomData)
    out = []
    for c in recs.items:
        out.append((c.v, w["events"][record_index(c.v)]))
    return out


@model(r"as (sos_core::events::)?EventLog<.*>>::patch_checked(::<.*>)?$")
def m_patch_checked(engine, ctx, args, callee, frame):
    w = World.cur
    log = deref(args[0])
    prog = engine.program

    def run():
        accept = ctx.fresh_bool("patch_accepted")
        if ctx.branch(accept):
            log.entries = list(log.entries) + patch_entries(w, args[2])
            w["mutations"] += 1
            w["outcome"] = "patched"
            return ok(EnumV("CheckedPatch", "Success", prog.enum_variant("CheckedPatch", "Success"), [Cell(Opaque("CommitProof"))]))
        w["outcome"] = "conflict"
        return ok(EnumV("CheckedPatch", "Conflict", prog.enum_variant("CheckedPatch", "Conflict"),
                        [Cell(Opaque("CommitProof")), Cell(none())]))
    return pin_box(future(callee, run))


@model(r"as (sos_core::events::)?EventLog<.*>>::replace_all_events(::<.*>)?$")
def m_replace_all(engine, ctx, args, callee, frame):
    w = World.cur
    log = deref(args[0])

    def run():
        fine = ctx.fresh_bool("replace_ok")
        if ctx.branch(fine):
            diff = deref(args[1])
            log.entries = patch_entries(w, diff.fields[0].v)
            w["mutations"] += 1
            w["outcome"] = "replaced"
            return ok(unit())
        w["outcome"] = "replace failed"
        return err(Opaque("sos_backend::Error", "replace_all_events failed"))
    return pin_box(future(callee, run))


# ------------------------------------------------------------------ one shape

def find_impl(prog, trait, method):
    """the impl's own method if SyncImpl<T> overrides it, else the trait's provided method"""
    for key, fn in prog.fns.items():
        nm = prog.pretty(fn.name) if hasattr(prog, "pretty") else fn.name
        if nm == "<SyncImpl as %s>::%s" % (trait, method) and "{closure" not in fn.name:
            return fn.name, fn
    return "%s::%s" % (trait, method), None


def run_devices(prog, shape):
    op, log_kinds, patch_kinds = shape
    name = "%s log=%s patch=%s" % (op, "".join(k[0] for k in log_kinds) or "-", "".join(k[0] for k in patch_kinds))
    out = {"entry": name, "states": 0, "queries": 0, "solver_s": 0.0, "obligations": 0, "discharged": 0,
           "inconclusive": [], "gaps": {}, "reports": [], "samples": [], "stubs": [], "kinds": {}}
    eng = H.new_engine(prog, loop_bound=64)
    eng.user_eq_types = {"TrustedDevice"}
    trait, method = ("Merge", "merge_device") if op == "merge" else ("ForceMerge", "force_merge_device")

    def thunk(ctx):
        events = {}
        keys = []
        entries = []
        patch = []
        for i, k in enumerate(list(log_kinds) + list(patch_kinds)):
            kb = z3.BitVec("key%d" % i, 8)
            ctx.add(z3.ULT(kb, 2))
            keys.append(kb)
            ev = device_event(prog, k, kb, i)
            events[i] = ev
            r = record(i)
            if i < len(log_kinds):
                entries.append((r, ev))
            else:
                patch.append(r)
        log = M.EventLogV(entries)
        w = {"log": log, "lock": LockV(log), "events": events, "old_entries": list(entries), "set_calls": [], "mutations": 0, "outcome": None}
        World.cur = w
        ctx.wdev = w
        ctx.keys = keys
        pv = Agg("struct", "Patch", [Cell(VecV("EventRecord", [Cell(r) for r in patch])), Cell(Agg("struct", "PhantomData", []))])
        zero = Agg("struct", "CommitHash", [Cell(Agg("array", None, [Cell(Int(0, 8)) for _ in range(32)]))])
        diff = Agg("struct", "Diff", [Cell(pv), Cell(Opaque("CommitProof")), Cell(zero)])
        outcome = Cell(M.default_value(eng, ctx, "MergeOutcome", None))
        me = Cell(Agg("struct", "SyncImpl", [Cell(Opaque("T"))]))
        callee, fn = find_impl(prog, trait, method)
        w["callee"] = callee
        if fn is not None:
            fut = eng.run_fn(fn, [Ref(me), diff, Ref(outcome)], {"T": "T"})
        else:
            # the trait's provided method, with Self = SyncImpl<T>
            pf = prog.resolve(callee, None)
            if pf is None:
                raise Untranslatable("no MIR for %s" % callee)
            fut = eng.run_fn(pf, [Ref(me), diff, Ref(outcome)], {"Self": "SyncImpl<T>"})
        r = H.poll_to_result(eng, ctx, fut)
        return (r, w)

    def decide(res, cond, what, key):
        out["obligations"] += 1
        if cond is True or (z3.is_expr(cond) and z3.is_true(z3.simplify(cond))):
            out["discharged"] += 1
            return
        s = z3.SolverFor("QF_ABV")
        for c in res.pc:
            s.add(bz3(c))
        s.add(z3.Not(bz3(cond)))
        t = time.time()
        r = s.check()
        out["solver_s"] += time.time() - t
        out["queries"] += 1
        if r == z3.unsat:
            out["discharged"] += 1
            return
        if r != z3.sat:
            out["inconclusive"].append("%s: solver unknown (%s)" % (name, what))
            return
        m = s.model()
        ks = [m.eval(k, model_completion=True).as_long() for k in res.ctx.keys]
        w = res.ctx.wdev
        case = {"op": "server_devices", "call": op, "log": [[k, ks[i]] for i, k in enumerate(log_kinds)],
                "patch": [[k, ks[len(log_kinds) + i]] for i, k in enumerate(patch_kinds)], "what": what,
                "entered": w.get("callee")}
        out["reports"].append(("devices|%s|%s" % (op, key), "%s: %s (keys %s, via %s)" % (name, what, ks, w.get("callee")), case))

    def on_result(res):
        out["states"] += 1
        out["kinds"][res.kind] = out["kinds"].get(res.kind, 0) + 1
        if res.kind == "untranslatable":
            k = "%s @ %s" % (res.err[0], str(res.err[1])[:200])
            out["gaps"][k] = out["gaps"].get(k, 0) + 1
            return
        if res.kind != "ret":
            out["inconclusive"].append("%s: path ended with %s %r" % (name, res.kind, res.err))
            return
        r, w = res.value
        log = w["log"]
        changed = w["mutations"] > 0
        if not changed:
            # refused / failed request: the trusted set must not have been replaced by something else
            for items, _, _ in w["set_calls"]:
                pass
            if not out["samples"]:
                out["samples"].append({"shape": name, "outcome": w["outcome"], "set_devices_calls": len(w["set_calls"])})
            return
        def trusted_in(entries, kval):
            t = z3.BoolVal(False)
            for _, ev in entries:
                kb = key_byte(ev.fields[0].v.fields[0].v if ev.variant == "Trust" else ev.fields[0].v)
                t = z3.If(kb == kval, z3.BoolVal(ev.variant == "Trust"), t)
            return t

        if not w["set_calls"] or w["set_calls"][-1][2] != w["mutations"]:
            # no refresh after the change: the server keeps verifying against the set of the old log
            for kval in (0, 1):
                decide(res, trusted_in(w["old_entries"], kval) == trusted_in(log.entries, kval),
                       "the device log changed but the trusted-device set was not refreshed afterwards (a key's trust differs)", "stale trusted set")
            return
        items = w["set_calls"][-1][0]
        # expected membership of each pool key after replaying the new log
        for kval in (0, 1):
            present = z3.Or(*[key_byte(d.fields[0].v) == kval for d in items]) if items else z3.BoolVal(False)
            decide(res, present == trusted_in(log.entries, kval), "trusted-device set differs from the replay of the device log for a key", "set differs from log replay")
        # no key twice
        for i in range(len(items)):
            for j in range(i + 1, len(items)):
                decide(res, key_byte(items[i].fields[0].v) != key_byte(items[j].fields[0].v), "a device key occurs twice in the trusted set", "duplicate key")
        if not out["samples"]:
            out["samples"].append({"shape": name, "outcome": w["outcome"], "trusted_after": len(items)})

    try:
        eng.explore(thunk, on_result=on_result)
    except Inconclusive as e:
        out["inconclusive"].append("%s: %s" % (name, e))
    st = eng.stats
    out["queries"] += st.queries
    out["solver_s"] += st.solver_s
    out["blocks"] = {prog.pretty(kk[1]): len(vv) for kk, vv in st.blocks_hit.items()}
    out["stubs"] = sorted(set(c.split("::<")[0][:80] for c in st.calls_modelled))
    return out


def shapes(tier):
    import itertools
    mx_log = 2
    mx_patch = 2 if tier == "quick" else 3
    kinds = ("trust", "revoke")
    out = []
    for op in ("merge", "force"):
        for nl in range(1, mx_log + 1):
            for lk in itertools.product(kinds, repeat=nl):
                for npatch in range(1, mx_patch + 1):
                    for pk in itertools.product(kinds, repeat=npatch):
                        out.append((op, lk, pk))
    return out
