"""Shared plumbing for the per-property checks: evidence, known findings, native replay."""
import hashlib
import json
import os
import re
import subprocess
import sys
import time

VERIF = os.path.dirname(os.path.dirname(os.path.abspath(__file__)))
WORK = os.path.join(VERIF, ".work")
REPO = os.environ.get("VERIF_REPO", "/repo")
sys.path.insert(0, VERIF)


def seed():
    try:
        return int(os.environ.get("VERIF_SEED", "0"))
    except ValueError:
        return 0


# ------------------------------------------------------------------ known findings

class Findings:
    """/verif/known_findings.txt:
         known: property=C15 key=<key> :: <what fails>
         fixed: property=C15 <commit> key=<key> :: <what failed>
       `fixed:` lines suppress nothing."""

    def __init__(self, path=None):
        self.path = path or os.path.join(VERIF, "known_findings.txt")
        self.known = {}
        if os.path.exists(self.path):
            for line in open(self.path):
                line = line.strip()
                m = re.match(r"^known: property=(\S+) key=(.*?) :: (.*)$", line)
                if m:
                    self.known[(m.group(1), m.group(2))] = m.group(3)

    def lookup(self, prop, key):
        return self.known.get((prop, key))


# ------------------------------------------------------------------ native replay driver

class Replayer:
    def __init__(self, profile="dev"):
        self.profile = profile
        self.built = False
        self.build_s = 0.0
        self.proc = None
        self.n = 0

    def binary(self):
        sub = "debug" if self.profile == "dev" else "release"
        return os.path.join(WORK, "replay-target", sub, "verif-replay")

    def build(self):
        if self.built:
            return
        t = time.time()
        src = os.path.join(VERIF, "replay")
        lock_src = os.path.join(REPO, "Cargo.lock")
        lock_dst = os.path.join(src, "Cargo.lock")
        try:
            if open(lock_src).read() != (open(lock_dst).read() if os.path.exists(lock_dst) else ""):
                open(lock_dst, "w").write(open(lock_src).read())
        except OSError:
            pass
        env = dict(os.environ)
        env["CARGO_NET_OFFLINE"] = "true"
        env["CARGO_TARGET_DIR"] = os.path.join(WORK, "replay-target")
        env.pop("RUSTFLAGS", None)
        cmd = ["cargo", "build", "--offline"]
        if self.profile != "dev":
            cmd.append("--release")
        r = subprocess.run(cmd, cwd=src, env=env, stdout=subprocess.PIPE, stderr=subprocess.STDOUT, text=True)
        self.build_s = time.time() - t
        if r.returncode != 0:
            raise RuntimeError("replay driver does not build against the current tree:\n" + r.stdout[-4000:])
        self.built = True

    def start(self):
        self.build()
        if self.proc is None:
            os.makedirs(os.path.join(WORK, "tmp"), exist_ok=True)
            env = dict(os.environ)
            env["VERIF_TMP"] = os.path.join(WORK, "tmp")
            self.proc = subprocess.Popen([self.binary()], stdin=subprocess.PIPE, stdout=subprocess.PIPE,
                                         stderr=subprocess.DEVNULL, text=True, env=env)

    def run(self, case):
        """case: dict -> result dict"""
        self.start()
        self.n += 1
        case = dict(case)
        case["id"] = self.n
        try:
            self.proc.stdin.write(json.dumps(case) + "\n")
            self.proc.stdin.flush()
            line = self.proc.stdout.readline()
        except BrokenPipeError:
            line = ""
        if not line:
            # the process died (abort / stack overflow / OOM kill): that is an outcome too
            rc = self.proc.wait()
            self.proc = None
            return {"outcome": "abort", "detail": "replay process exited with status %s" % rc}
        return json.loads(line)

    def close(self):
        if self.proc is not None:
            try:
                self.proc.stdin.close()
                self.proc.wait(timeout=10)
            except Exception:
                self.proc.kill()
            self.proc = None


# ------------------------------------------------------------------ result bookkeeping

class Check:
    def __init__(self, prop, tier):
        self.prop = prop
        self.tier = tier
        self.t0 = time.time()
        self.findings = Findings()
        self.violations = []       # (key, description, replay_path)
        self.known_hits = {}       # key -> description
        self.inconclusive = []
        self.samples = []
        self.functions = {}
        self.obligations = 0
        self.discharged = 0
        self.replays_ok = 0
        self.replays_bad = 0
        self.states = 0
        self.transitions = 0
        self.solver_s = 0.0
        self.gaps = {}
        self.bounds = {}
        self.stubs = set()
        self.assumptions = []
        self.extra = {}
        self.cross = {}
        self.seed = seed()

    def add_cross(self, out):
        c = out.get("cross") if isinstance(out, dict) else None
        if c:
            for k, v in c.items():
                self.cross[k] = self.cross.get(k, 0) + v

    def log(self, *a):
        print(*a, flush=True)

    def replay_file(self, case):
        os.makedirs(os.path.join(VERIF, "replays"), exist_ok=True)
        blob = json.dumps(case, sort_keys=True)
        d = hashlib.sha256(blob.encode()).hexdigest()[:12]
        p = os.path.join(VERIF, "replays", "%s-%s.json" % (self.prop, d))
        with open(p, "w") as f:
            f.write(blob + "\n")
        return p

    def report(self, key, description, case):
        """a natively confirmed counterexample"""
        known = self.findings.lookup(self.prop, key)
        if known is not None:
            if key not in self.known_hits:
                self.known_hits[key] = known
            return False
        if any(k == key for k, _, _ in self.violations):
            return True
        path = self.replay_file(case)
        self.violations.append((key, description, path))
        return True

    def gap(self, what, site=None):
        k = what if site is None else "%s @ %s" % (what, site)
        self.gaps[k] = self.gaps.get(k, 0) + 1

    def finish(self, level="model_checking", rule=None):
        wall = time.time() - self.t0
        cov = {
            "states": max(self.states, 0),
            "transitions": max(self.transitions, 0),
            "traces_validated_against_impl": self.replays_ok,
            "samples": self.samples[:12] if self.samples else ["(none)"],
            "obligations": self.obligations,
            "discharged": self.discharged,
            "functions_encoded": self.functions,
            "bounds": self.bounds,
            "solver_seconds": round(self.solver_s, 3),
            "untranslatable_sites": self.gaps,
            "stubs": sorted(self.stubs),
            "known_findings_hit": self.known_hits,
            "native_replay_mismatches": self.replays_bad,
            "explanation": rule or "",
        }
        if getattr(self, "cross", None):
            cov["second_solver_cvc5"] = self.cross
        cov.update(self.extra)
        ev = {
            "property_id": self.prop,
            "tier": self.tier,
            "seed": self.seed,
            "level": level,
            "coverage": cov,
            "assumptions": self.assumptions,
            "wall_s": round(wall, 2),
            "violations": len(self.violations),
        }
        os.makedirs(os.path.join(VERIF, "evidence"), exist_ok=True)
        with open(os.path.join(VERIF, "evidence", "%s.json" % self.prop), "w") as f:
            json.dump(ev, f, indent=1, default=str)
        for key, desc in sorted(self.known_hits.items()):
            print("KNOWN-FINDING: property=%s %s [%s]" % (self.prop, desc, key))
        for g, n in sorted(self.gaps.items()):
            print("UNCOVERED: %s (%d paths)" % (g[:300], n))
        for key, desc, path in self.violations:
            print("violation: %s :: %s" % (key, desc))
            print("VIOLATION property=%s replay=%s" % (self.prop, path))
        print("%s %s: states=%d queries=%d obligations=%d/%d native_replays=%d wall=%.1fs" % (
            self.prop, self.tier, self.states, self.transitions, self.discharged, self.obligations,
            self.replays_ok, wall))
        for i in self.inconclusive[:40]:
            print("INCONCLUSIVE: %s" % (str(i)[:1500],))
        if len(self.inconclusive) > 40:
            print("INCONCLUSIVE: ... %d more" % (len(self.inconclusive) - 40))
        if self.violations:
            return 1
        if self.inconclusive:
            return 2
        return 0
