"""C14 (wire part) — the protobuf bindings of sos-protocol: T -> WireT -> T is the identity.

For every `impl ProtoBinding for T { type Inner = WireT; }` the real conversions (`TryFrom<WireT> for T`,
`From<T> for WireT`, from the MIR of sos-protocol) run as  w -> try_from -> v1 -> from -> w1 -> try_from -> v2
over a *symbolic wire message* w built from the prost-generated struct definitions (every optional field
present or absent, every oneof variant, repeated fields of 0..2 elements, symbolic integers, byte strings of
symbolic length and content).  So v1 ranges over every domain value the receiver can obtain within the bounds.
Obligations, decided per path: the second conversion succeeds and v2 == v1.  prost's own byte encoding is an
external library and is assumed to be the inverse of its decoder.  Counterexamples are encoded to protobuf
bytes (by a small encoder driven by the same generated definitions) and replayed through the public
`WireEncodeDecode::{decode, encode}`.
"""
import json
import os
import re
import time
import z3

from mirsym import harness as H
from mirsym import models as M
from mirsym.models import ok, err, some, none, deref
from mirsym.engine import (Cell, Ref, Int, EnumV, Agg, VecV, Opaque, Bytes, Inconclusive, Untranslatable, bz3, to_bool,
                           int_binop)

CRATES = ["sos_core", "sos_sync", "sos_protocol"]
BYTES_MAX = 33
STR_MAX = 3
REPEAT_MAX = 2
MAX_PATHS = 6000
BUDGET = 2
BIG_MESSAGE = 60


# ------------------------------------------------------------------ prost-generated definitions

class Defs:
    def __init__(self):
        self.structs = {}     # name -> [(field, kind, type, tag, label)]
        self.oneofs = {}      # "mod::Inner" -> [(variant, kind, type, tag)]
        self.enums = {}       # name -> [(variant, value)]


def outdir_of(mir_path):
    m = re.search(r"impl at (/[^ >]*?/out)/common\.rs:", open(mir_path).read(400000))
    if not m:
        txt = open(mir_path).read()
        m = re.search(r"impl at (/[^ >]*?/out)/common\.rs:", txt)
    if not m:
        raise Inconclusive("prost output directory not found in the MIR of sos-protocol")
    return m.group(1)


_attr = re.compile(r"#\[prost\(([^\]]*)\)\]")


def parse_prost(outdir):
    d = Defs()
    for fn in sorted(os.listdir(outdir)):
        if not fn.endswith(".rs"):
            continue
        txt = open(os.path.join(outdir, fn)).read()
        mod_stack = []
        lines = txt.split("\n")
        i = 0
        cur = None
        pending = None
        while i < len(lines):
            ln = lines[i].strip()
            m = re.match(r"pub mod (\w+) \{", ln)
            if m:
                mod_stack.append(m.group(1))
            elif re.match(r"pub struct (\w+) \{", ln):
                cur = ("struct", re.match(r"pub struct (\w+) \{", ln).group(1))
                d.structs[cur[1]] = []
            elif re.match(r"pub enum (\w+) \{", ln):
                nm = re.match(r"pub enum (\w+) \{", ln).group(1)
                if mod_stack and nm == "Inner":
                    cur = ("oneof", mod_stack[-1] + "::Inner")
                    d.oneofs[cur[1]] = []
                else:
                    cur = ("enum", nm)
                    d.enums[nm] = []
            elif _attr.search(ln):
                pending = _attr.search(ln).group(1)
            elif cur and cur[0] == "struct" and re.match(r"pub (\w+): (.*),$", ln):
                m = re.match(r"pub (\w+): (.*),$", ln)
                d.structs[cur[1]].append((m.group(1), pending, m.group(2)))
                pending = None
            elif cur and cur[0] == "oneof" and re.match(r"(\w+)\((.*)\),$", ln):
                m = re.match(r"(\w+)\((.*)\),$", ln)
                d.oneofs[cur[1]].append((m.group(1), pending, m.group(2)))
                pending = None
            elif cur and cur[0] == "enum" and re.match(r"(\w+) = (-?\d+),$", ln):
                m = re.match(r"(\w+) = (-?\d+),$", ln)
                d.enums[cur[1]].append((m.group(1), int(m.group(2))))
            elif ln == "}":
                if cur is not None:
                    cur = None
                elif mod_stack:
                    mod_stack.pop()
            i += 1
    return d


def parse_bindings(repo):
    out = []
    bd = os.path.join(repo, "crates/protocol/src/bindings")
    for fn in sorted(os.listdir(bd)):
        txt = open(os.path.join(bd, fn)).read()
        for m in re.finditer(r"impl ProtoBinding for (\w+) \{\s*type Inner = (\w+);", txt):
            out.append((m.group(1), m.group(2), fn))
    return out


def parse_required(repo):
    """WireX -> set of fields that the receiver `unwrap()`s: messages without them end in a (contained) panic"""
    req = {}
    bd = os.path.join(repo, "crates/protocol/src/bindings")
    for fn in sorted(os.listdir(bd)):
        txt = open(os.path.join(bd, fn)).read()
        for m in re.finditer(r"impl(?:<[^>]*>)? TryFrom<(\w+)> for [^{]*\{", txt):
            wire = m.group(1)
            # body up to the matching brace
            i = m.end()
            depth = 1
            while i < len(txt) and depth:
                depth += {"{": 1, "}": -1}.get(txt[i], 0)
                i += 1
            body = txt[m.end():i]
            for f in re.finditer(r"value\s*\.\s*(\w+)\s*\.\s*unwrap\(\)", body):
                req.setdefault(wire, set()).add(f.group(1))
    return req


def tag_of(attr):
    m = re.search(r'tag = "(\d+)"', attr or "")
    return int(m.group(1)) if m else None


def last_type(t):
    t = t.strip()
    t = re.sub(r"^::prost::alloc::boxed::Box<(.*)>$", r"\1", t)
    return t.split("::")[-1]


# ------------------------------------------------------------------ symbolic wire messages

class Builder:
    """builds a symbolic value of a prost struct plus a `plan` from which protobuf bytes are produced for a model.

    Shape decisions (optional present/absent, oneof variant, number of repeated elements, free or canonical
    length of a byte field) are made against a *variation budget*: the canonical message has every optional
    field present, the first oneof variant, one element per repeated field and byte strings of the lengths
    found in phase 1; every message that differs from it in at most `budget` such decisions is explored."""

    def __init__(self, defs, ctx, eng, required=None, budget=0, canon=None):
        self.required = required or {}
        self.d = defs
        self.ctx = ctx
        self.eng = eng
        self.n = 0
        self.budget = budget
        self.canon = canon          # None: phase 1 (learn lengths)
        self.lens = {}              # path -> z3 length variable
        self.path = []

    def fresh(self, what, bits):
        self.n += 1
        return z3.BitVec("w%d_%s" % (self.n, what), bits)

    def deviate(self, what):
        """True: take the non-canonical alternative (costs one unit of budget); no fork once the budget is spent"""
        self.n += 1
        if self.canon is None or self.budget <= 0:
            return False
        d = self.ctx.branch(z3.Bool("w%d_%s" % (self.n, what)))
        if d:
            self.budget -= 1
        return d

    def message(self, name, depth=0):
        fields = self.d.structs[name]
        cells, plan = [], []
        if name == "WireUtcDateTime" and depth >= 2:
            # timestamps nested two levels down are concrete: their conversion is decided with fully symbolic
            # values by the UtcDateTime and EventRecord entries, and the 64-bit time arithmetic is what makes
            # queries slow
            self.n += 1
            secs, nanos = 1700000000 + self.n, 5
            return (Agg("struct", name, [Cell(Int(secs, 64, True)), Cell(Int(nanos, 32, False))]),
                    ("msg", [("field", 1, ("varint", z3.BitVecVal(secs, 64), 64, True)), ("field", 2, ("varint", z3.BitVecVal(nanos, 32), 32, False))]))
        for fname, attr, ty in fields:
            self.must_have = fname in self.required.get(name, ())
            self.path.append(fname)
            v, p = self.field(fname, attr, ty, depth)
            self.path.pop()
            cells.append(Cell(v))
            plan.append(p)
        return Agg("struct", name, cells), ("msg", plan)

    def scalar(self, kind, fname):
        if kind in ("uint64", "int64"):
            z = self.fresh(fname, 64)
            return Int(z, 64, kind == "int64"), ("varint", z, 64, kind == "int64")
        if kind in ("uint32", "int32"):
            z = self.fresh(fname, 32)
            return Int(z, 32, kind == "int32"), ("varint", z, 32, kind == "int32")
        if kind == "bool":
            self.n += 1
            zb = z3.Bool("w%d_%s" % (self.n, fname))
            return to_bool(zb), ("bool", zb)
        raise Untranslatable("prost scalar %s" % kind)

    def bytes_value(self, fname, is_string):
        self.n += 1
        arr = z3.Array("w%d_%s" % (self.n, fname), z3.BitVecSort(64), z3.BitVecSort(8))
        ln = self.fresh(fname + "_len", 64)
        mx = STR_MAX if is_string else BYTES_MAX
        self.ctx.add(z3.ULE(ln, mx))
        key = "/".join(self.path)
        self.lens[key] = ln
        if is_string:
            for i in range(mx):
                self.ctx.add(z3.ULT(z3.Select(arr, z3.BitVecVal(i, 64)), 0x80))
        elif self.canon is not None and key in self.canon and not self.deviate(fname + "_free_len"):
            return Bytes(arr, Int(0, 64), Int(self.canon[key], 64)), ("bytes", arr, z3.BitVecVal(self.canon[key], 64))
        return Bytes(arr, Int(0, 64), Int(ln, 64), utf8=is_string), ("bytes", arr, ln)

    def repeated_count(self, fname):
        if self.deviate(fname + "_empty"):
            return 0
        if REPEAT_MAX >= 2 and self.deviate(fname + "_two"):
            return 2
        return 1

    def field(self, fname, attr, ty, depth):
        attr = attr or ""
        tag = tag_of(attr)
        parts = [p.strip() for p in attr.split(",")]
        kind = parts[0]
        optional = "optional" in parts
        repeated = "repeated" in parts
        must = self.must_have
        if kind.startswith("oneof"):
            key = re.search(r'oneof = "([\w:]+)"', attr).group(1)
            variants = self.d.oneofs[key]
            if not must and self.deviate(fname + "_unset"):
                return none(), ("absent",)
            pick = 0
            for idx in range(1, len(variants)):
                if self.deviate("%s_is_%s" % (fname, variants[idx][0])):
                    pick = idx
                    break
            vn, vattr, vty = variants[pick]
            self.path.append(vn)
            # inside a non-canonical arm one further deviation is free (arms are small; "other arm + its optional
            # payload absent" is one of the commonest shapes of real traffic)
            saved = self.budget
            if pick != 0 and self.canon is not None:
                self.budget += 1
            v, p = self.field(vn, vattr, vty, depth)
            if pick != 0 and self.canon is not None:
                self.budget = min(saved, self.budget)
            self.path.pop()
            if p[0] == "field" and len(p) < 4:
                p = p + ("explicit",)       # a oneof member is written even when it holds the default
            return some(EnumV(key, vn, pick, [Cell(v)])), p
        if kind.startswith("enumeration"):
            z = self.fresh(fname, 32)
            return Int(z, 32, True), ("field", tag, ("varint", z, 32, True))
        if kind == "message":
            tname = last_type(re.sub(r"^::core::option::Option<(.*)>$", r"\1", ty) if optional else
                              re.sub(r"^::prost::alloc::vec::Vec<(.*)>$", r"\1", ty) if repeated else ty)
            if repeated:
                items, plans = [], []
                for k in range(self.repeated_count(fname)):
                    self.path.append(str(k))
                    v, p = self.message(tname, depth + 1)
                    self.path.pop()
                    items.append(Cell(v))
                    plans.append(("field", tag, p))
                return VecV(tname, items), ("seq", plans)
            if optional:
                if not must and self.deviate(fname + "_absent"):
                    return none(), ("absent",)
                v, p = self.message(tname, depth + 1)
                return some(v), ("field", tag, p)
            v, p = self.message(tname, depth + 1)
            return v, ("field", tag, p)
        if kind.startswith("bytes") or kind == "string":
            v, p = self.bytes_value(fname, kind == "string")
            return v, ("field", tag, p)
        if repeated:
            items, plans = [], []
            for k in range(self.repeated_count(fname)):
                v, p = self.scalar(kind, fname)
                items.append(Cell(v))
                plans.append(p)
            return VecV(kind, items), ("packed", tag, plans)
        v, p = self.scalar(kind, fname)
        if optional:
            if not must and self.deviate(fname + "_absent"):
                return none(), ("absent",)
            return some(v), ("field", tag, p, "explicit")
        return v, ("field", tag, p)


# ------------------------------------------------------------------ protobuf encoding of a plan under a model

def _varint(n):
    out = bytearray()
    n &= (1 << 64) - 1
    while True:
        b = n & 0x7F
        n >>= 7
        if n:
            out.append(b | 0x80)
        else:
            out.append(b)
            return bytes(out)


def encode_plan(plan, m):
    """-> (bytes of the payload, wire type) for a value plan; message plans give their field bytes"""
    k = plan[0]
    if k == "msg":
        out = b""
        for p in plan[1]:
            out += encode_field(p, m)
        return out
    raise ValueError(k)


def _scalar_bytes(p, m):
    if p[0] == "varint":
        v = m.eval(p[1], model_completion=True).as_long()
        if p[3] and v >= (1 << (p[2] - 1)):       # negative: sign-extend to 64 bits
            v -= (1 << p[2])
        return _varint(v), 0, v == 0
    if p[0] == "bool":
        v = z3.is_true(m.eval(p[1], model_completion=True))
        return _varint(1 if v else 0), 0, not v
    if p[0] == "bytes":
        n = m.eval(p[2], model_completion=True).as_long()
        data = bytes(m.eval(z3.Select(p[1], z3.BitVecVal(i, 64)), model_completion=True).as_long() for i in range(n))
        return _varint(n) + data, 2, n == 0
    if p[0] == "msg":
        body = encode_plan(p, m)
        return _varint(len(body)) + body, 2, False
    raise ValueError(p[0])


def encode_field(p, m):
    k = p[0]
    if k == "absent":
        return b""
    if k == "seq":
        return b"".join(encode_field(x, m) for x in p[1])
    if k == "packed":
        if not p[2]:
            return b""
        body = b"".join(_scalar_bytes(x, m)[0] for x in p[2])
        return _varint((p[1] << 3) | 2) + _varint(len(body)) + body
    if k == "field":
        data, wt, is_default = _scalar_bytes(p[2], m)
        if is_default and len(p) < 4 and p[2][0] != "msg":
            return b""          # proto3: default scalars are not written
        return _varint((p[1] << 3) | wt) + data
    raise ValueError(k)


def oneof_skeleton(v):
    """the oneof arms of a wire message, in structure order (repeated fields: per element)"""
    v = deref(v)
    if isinstance(v, EnumV):
        if "::Inner" in (v.ty or "") or v.ty == "Inner":
            return (v.variant,) + tuple(x for c in v.fields for x in oneof_skeleton(c.v))
        return tuple(x for c in v.fields for x in oneof_skeleton(c.v))
    if isinstance(v, Agg):
        return tuple(x for c in v.fields for x in oneof_skeleton(c.v))
    if isinstance(v, VecV):
        return tuple(x for c in v.items for x in oneof_skeleton(c.v))
    return ()


# ------------------------------------------------------------------ one type

def run_type(prog, defs, ty, wire, repo_file):
    name = "wire:%s" % ty
    out = {"entry": name, "states": 0, "queries": 0, "solver_s": 0.0, "obligations": 0, "discharged": 0,
           "inconclusive": [], "gaps": {}, "reports": [], "samples": [], "stubs": [], "kinds": {}, "values": 0,
           "rejected": 0, "contained_panics": 0}
    eng = H.new_engine(prog, loop_bound=64, max_paths=MAX_PATHS)
    try_from = "<%s as TryFrom<%s>>::try_from" % (ty, wire)
    from_ = "<%s as From<%s>>::from" % (wire, ty)

    state = {"canon": None}

    def thunk(ctx):
        b = Builder(defs, ctx, eng, REQUIRED, budget=state.get("budget", BUDGET), canon=state["canon"])
        w, plan = b.message(wire)
        ctx.size = b.n
        ctx.plan = plan
        ctx.wire_in = M.deep_copy(w)
        ctx.lens = b.lens
        ctx.stage = "decode1"
        r1 = eng.call_named(try_from, [w], None)
        if r1.variant != "Ok":
            return ("rejected",)
        v1 = r1.fields[0].v
        if state["canon"] is None:
            return ("accepted",)
        ctx.stage = "encode"
        w1 = eng.call_named(from_, [M.deep_copy(v1)], None)
        ctx.wire_out = w1
        ctx.stage = "decode2"
        r2 = eng.call_named(try_from, [w1], None)
        if r2.variant != "Ok":
            return ("decode2-err", v1)
        return ("ok", v1, r2.fields[0].v)

    # phase 1: find one accepted, fully populated message; its byte-string lengths become the canonical ones
    class Found(Exception):
        pass
    found = {}

    def phase1(res):
        if res.kind == "ret" and res.value[0] == "accepted":
            m = H.witness_for(res)
            if m is not None:
                found["canon"] = {k: m.eval(v, model_completion=True).as_long() for k, v in res.ctx.lens.items()}
                found["size"] = res.ctx.size
                raise Found()

    eng1 = H.new_engine(prog, loop_bound=64, max_paths=400)
    eng_saved = eng
    try:
        eng = eng1
        eng1.explore(thunk, on_result=phase1)
    except Found:
        pass
    except Inconclusive as e:
        out["inconclusive"].append("%s: %s" % (name, e))
    eng = eng_saved
    if "canon" not in found:
        out["gaps"]["no accepted message found in phase 1 (400 paths)"] = 1
        out["info"] = {"paths": 0}
        return out
    state["canon"] = found["canon"]
    # large messages (many decision points) get one unit less of variation budget
    state["budget"] = budget_for(found["size"])
    out["budget"] = state["budget"]
    out["decision_points"] = found["size"]

    def report(res, what, cond=None, values=None):
        out["obligations"] += 1
        m = H.witness_for(res, cond)
        out["queries"] += 1
        if m is None:
            out["discharged"] += 1
            return
        data = encode_plan(res.ctx.plan, m)
        detail = {}
        if values is not None:
            try:
                detail = {"v1": json.dumps(M.describe(values[0], m))[:1500], "v2": json.dumps(M.describe(values[1], m))[:1500]}
            except Exception:
                detail = {}
        out["reports"].append(("wire|%s|%s" % (ty, what), "%s: %s (message %s)" % (name, what, data.hex()[:120]),
                               dict({"op": "wire_roundtrip", "ty": ty, "bytes": data.hex(), "what": what}, **detail)))

    def on_result(res):
        out["states"] += 1
        out["kinds"][res.kind] = out["kinds"].get(res.kind, 0) + 1
        if res.kind == "infeasible":
            return
        if res.kind == "untranslatable":
            k = "%s @ %s" % (res.err[0], str(res.err[1])[:200])
            out["gaps"][k] = out["gaps"].get(k, 0) + 1
            return
        if res.kind == "bound":
            out["gaps"]["bound: %s" % (res.err[0],)] = out["gaps"].get("bound: %s" % (res.err[0],), 0) + 1
            return
        if res.kind == "panic":
            stage = getattr(res.ctx, "stage", "decode1")
            if stage == "decode1":
                out["contained_panics"] += 1     # e.g. unwrap() of a missing message field: C15's subject
                return
            report(res, "panic during %s: %s" % (stage, res.err[0]))
            return
        tag = res.value[0]
        if tag == "rejected":
            out["rejected"] += 1
            return
        out["values"] += 1
        if tag == "decode2-err":
            report(res, "the receiver rejects what the sender produced from a value it accepted")
            return
        _, v1, v2 = res.value
        # the sender's encoder puts the decoded value back into the oneof arms the message had (a decoder arm
        # that builds the wrong variant yields a consistent but different value: v1 == v2 would not see it)
        out["obligations"] += 1
        a, b = oneof_skeleton(res.ctx.wire_in), oneof_skeleton(res.ctx.wire_out)
        # only a change of the *multiset* of arms with the count unchanged is a finding: set-valued repeated fields
        # legitimately drop duplicate elements and map-valued ones may reorder
        if len(a) != len(b) or sorted(a) == sorted(b):
            out["discharged"] += 1
        else:
            out["obligations"] -= 1
            report(res, "a oneof arm changes in a wire round trip (%s -> %s)" % (a, b))
        out["obligations"] += 1
        try:
            eq = M.eq_formula(eng, v1, v2, 64)
        except Untranslatable as u:
            out["gaps"]["equality: %s" % u.what] = out["gaps"].get("equality: %s" % u.what, 0) + 1
            return
        held = True
        if eq is True:
            out["discharged"] += 1
        else:
            out["obligations"] -= 1
            before = len(out["reports"])
            report(res, "value changes in a wire round trip", z3.Not(bz3(eq)), (v1, v2))
            held = len(out["reports"]) == before
        if held and len(out["samples"]) < 1:
            mm = H.witness_for(res)
            if mm is not None:
                full = encode_plan(res.ctx.plan, mm).hex()
                out["samples"].append({"entry": name, "message": full[:200], "message_full": full,
                                       "assumed_parser": any(k == "nondet_model" for k, _ in res.events)})

    try:
        eng.explore(thunk, on_result=on_result)
    except Inconclusive as e:
        out["inconclusive"].append("%s: %s" % (name, e))
    st = eng.stats
    out["queries"] += st.queries
    out["solver_s"] += st.solver_s
    out["info"] = {"paths": out["states"], "outcomes": out["kinds"], "values_round_tripped": out["values"],
                   "rejected_messages": out["rejected"], "panics_on_malformed_messages_(contained_by_spawn_blocking)": out["contained_panics"]}
    out["stubs"] = sorted(set(c.split("::<")[0][:80] for c in st.calls_modelled))
    return out


REQUIRED = {}
DEFS = None


def install_models():
    def deco(pattern):
        def d2(f):
            M.MODELS.insert(0, (re.compile(pattern), f))
            return f
        return d2

    @deco(r"^<i32 as TryInto<(\w+)>>::try_into$|^<(\w+) as TryFrom<i32>>::try_from$")
    def m_enumeration_from_i32(engine, ctx, args, callee, frame):
        """prost's derived `TryFrom<i32>` for an enumeration: Ok(variant) for a declared number, Err otherwise"""
        m = re.search(r"TryInto<(\w+)>|^<(\w+) as TryFrom", callee)
        name = m.group(1) or m.group(2)
        variants = DEFS.enums.get(name)
        if variants is None:
            raise Untranslatable("TryInto: " + callee)
        v = args[0]
        for vn, num in variants:
            if ctx.branch(int_binop("Eq", v, Int(num, 32, True))):
                return ok(EnumV(name, vn, num, []))
        return err(Opaque("UnknownEnumValue"))

    @deco(r"^<(\w+) as Into<i32>>::into$|^<i32 as From<(\w+)>>::from$")
    def m_enumeration_to_i32(engine, ctx, args, callee, frame):
        m = re.search(r"^<(\w+) as Into<i32>>|From<(\w+)>>", callee)
        name = m.group(1) or m.group(2)
        if name not in DEFS.enums:
            raise Untranslatable("From: " + callee)
        e = deref(args[0])
        return Int(dict(DEFS.enums[name])[e.variant], 32, True)


def load(regenerate=True):
    prog = H.load_program(CRATES, regenerate=regenerate)
    outdir = outdir_of(H.mir_path("sos_protocol"))
    prog.load_enums([os.path.join(H.REPO, "crates"), outdir])
    defs = parse_prost(outdir)
    global DEFS
    DEFS = defs
    REQUIRED.clear()
    REQUIRED.update(parse_required(H.REPO))
    install_models()
    return prog, defs, parse_bindings(H.REPO)


TIER = "quick"


def budget_for(size):
    """variation budget by message size (number of decision points of the canonical message)"""
    if TIER == "quick":
        return 2 if size <= BIG_MESSAGE else 1
    if size <= 25:
        return 3
    return 2 if size <= 120 else 1


def set_tier(tier):
    global TIER
    TIER = tier
    global REPEAT_MAX, BUDGET
    global MAX_PATHS
    REPEAT_MAX = 1 if tier == "quick" else 2
    BUDGET = 2 if tier == "quick" else 3
    MAX_PATHS = 6000 if tier == "quick" else 20000


def compiled(prog, ty, wire):
    """both conversions have MIR in this feature set"""
    return prog.resolve("<%s as TryFrom<%s>>::try_from" % (ty, wire), None) is not None and \
        prog.resolve("<%s as From<%s>>::from" % (wire, ty), None) is not None


def jobs(prog, binds):
    out, skipped = [], []
    for ty, wire, fn in binds:
        if compiled(prog, ty, wire):
            out.append((ty, wire, fn))
        else:
            skipped.append(ty)
    return out, skipped
