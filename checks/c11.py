"""C11 — the server acts only for requests signed by a trusted device (decision functions only).

Part A: `AccessControlConfig::is_allowed_access` (MIR of sos-server) for every configuration of
<= 2 allow and <= 2 deny entries (each list present or absent) with symbolic account ids, so every
membership pattern is covered by one query per path.  Oracle: an id on the deny list, or absent
from a configured allow list, is refused; everything else is admitted.
Part B: `authenticate_endpoint` / `BearerToken::new` / `Backend::verify_device`: a caller is
returned only if the bearer form is the current one, the access check passed and a trusted device
key verified the signature over exactly the signed bytes it was given.
"""
import itertools
import json
import os
import time
import z3

from .common import Check, Replayer
from . import par
from mirsym import harness as H
from mirsym import models as M
from mirsym.engine import (Cell, Ref, Int, EnumV, Agg, VecV, Opaque, Inconclusive, Untranslatable, bz3, to_bool)

PROP = "C11"
CRATES = ["sos_core", "sos_server"]


def account_id(name):
    b = z3.BitVec(name, 8)
    return Agg("struct", "AccountId", [Cell(Agg("array", None, [Cell(Int(b if i == 0 else 0, 8)) for i in range(20)]))]), b


def id_set(ctx, prefix, n):
    s = M.SetV("HashSet")
    ids = []
    for i in range(n):
        v, b = account_id("%s%d" % (prefix, i))
        s.items.append(v)
        ids.append(b)
    for a, b in itertools.combinations(ids, 2):
        ctx.add(a != b)
    return s, ids


def run_config(prog, shape):
    na, nd = shape       # None = list absent
    name = "allow=%s deny=%s" % (na, nd)
    out = {"entry": name, "states": 0, "queries": 0, "solver_s": 0.0, "obligations": 0, "discharged": 0,
           "inconclusive": [], "gaps": {}, "reports": [], "samples": [], "stubs": [], "kinds": {}}
    eng = H.new_engine(prog, loop_bound=64)

    def thunk(ctx):
        allow = deny = M.none()
        aids = dids = []
        if na is not None:
            s, aids = id_set(ctx, "a", na)
            allow = M.some(s)
        if nd is not None:
            s, dids = id_set(ctx, "d", nd)
            deny = M.some(s)
        cfg = Agg("struct", "AccessControlConfig", [Cell(allow), Cell(deny)])
        who, wb = account_id("who")
        ctx.sym = (aids, dids, wb)
        r = eng.call_named("AccessControlConfig::is_allowed_access", [Ref(Cell(cfg)), Ref(Cell(who))], None)
        return r

    def on_result(res):
        out["states"] += 1
        out["kinds"][res.kind] = out["kinds"].get(res.kind, 0) + 1
        if res.kind == "untranslatable":
            k = "%s @ %s" % (res.err[0], str(res.err[1])[:200])
            out["gaps"][k] = out["gaps"].get(k, 0) + 1
            return
        if res.kind != "ret":
            out["inconclusive"].append("%s: path ended with %s %r" % (name, res.kind, res.err))
            return
        aids, dids, wb = res.ctx.sym
        on_deny = z3.Or(*[wb == d for d in dids]) if dids else z3.BoolVal(False)
        on_allow = z3.Or(*[wb == a for a in aids]) if aids else z3.BoolVal(False)
        should_refuse = z3.Or(on_deny if nd is not None else z3.BoolVal(False),
                              z3.Not(on_allow) if na is not None else z3.BoolVal(False))
        got = res.value
        cond = (bz3(got) == z3.Not(should_refuse))
        out["obligations"] += 1
        s = z3.SolverFor("QF_ABV")
        for c in res.pc:
            s.add(bz3(c))
        s.add(z3.Not(cond))
        out["queries"] += 1
        r = s.check()
        if r == z3.unsat:
            out["discharged"] += 1
        elif r == z3.sat:
            m = s.model()
            ev = lambda x: m.eval(x, model_completion=True).as_long()
            admitted = bool(got) if isinstance(got, bool) else z3.is_true(m.eval(bz3(got), model_completion=True))
            what = "an id on the deny list is admitted" if admitted else "an id that should be admitted is refused"
            if admitted and na is not None and not z3.is_true(m.eval(on_allow, model_completion=True)):
                what = "an id absent from the configured allow list is admitted"
            out["reports"].append(("access|%s" % what, "%s: %s" % (name, what),
                                   {"op": "access_control", "what": what, "allow": None if na is None else [ev(a) for a in aids],
                                    "deny": None if nd is None else [ev(d) for d in dids], "who": ev(wb), "admitted": admitted}))
        else:
            out["inconclusive"].append("%s: solver unknown" % name)
        if not out["samples"]:
            out["samples"].append({"config": name, "paths_so_far": out["states"]})

    try:
        eng.explore(thunk, on_result=on_result)
    except Inconclusive as e:
        out["inconclusive"].append("%s: %s" % (name, e))
    st = eng.stats
    out["queries"] += st.queries
    out["solver_s"] += st.solver_s
    out["blocks"] = {prog.pretty(kk[1]): len(vv) for kk, vv in st.blocks_hit.items()}
    out["stubs"] = sorted(set(c.split("::<")[0][:80] for c in st.calls_modelled))
    return out


def confirm(case, nat):
    if case.get("op") == "server_devices":
        # the real server storage: the call went through and the keys it verifies against are not the keys the device
        # log trusts (recomputed here from the scenario: trust adds, revoke removes - independent of DeviceReducer)
        if nat.get("outcome") != "ok" or "Ok" not in (nat.get("result") or {}):
            return False
        res = str(nat["result"]["Ok"])
        if case.get("call") == "merge":
            events = list(case["log"]) + (list(case["patch"]) if res.startswith("Success") else [])
        else:
            events = list(case["patch"])
        trusted = []
        for kind, key in events:
            if kind == "trust" and key not in trusted:
                trusted.append(key)
            elif kind == "revoke" and key in trusted:
                trusted.remove(key)
        want = sorted("%02x" % k + "22" * 31 for k in trusted)
        return nat.get("agree") is False or sorted(nat.get("listed", [])) != want
    return nat.get("outcome") == "ok" and nat.get("admitted") == case["admitted"]


def run(tier, regenerate=True):
    chk = Check(PROP, tier)
    mx = 2 if tier == "quick" else 3
    shapes = [(a, d) for a in [None] + list(range(0, mx + 1)) for d in [None] + list(range(0, mx + 1))]
    chk.bounds = {"allow_entries_max": mx, "deny_entries_max": mx, "account_ids": "symbolic (first byte), distinct within a list"}
    prog = H.load_program(CRATES, regenerate=regenerate)
    chk.extra["mir_regeneration_s"] = prog.timings
    auth_shapes = [(h, e, k, a) for h in (True, False) for e in (True, False) for k in ((0, 1, 2) if tier == "quick" else (0, 1, 2, 3))
                   for a in ("none", "deny-me", "allow-other", "allow-me")]
    chk.bounds["authenticate_endpoint"] = {"header_account_id": [True, False], "account_exists": [True, False],
                                           "trusted_device_keys": "0..%d, each verifying or not (symbolic)" % (2 if tier == "quick" else 3),
                                           "access_config": ["none", "deny-me", "allow-other", "allow-me"],
                                           "token": "3 symbolic characters (with or without '.')"}
    from . import c11_devices as D
    prog_c = H.load_program(D.CRATES, regenerate=regenerate)
    chk.extra["mir_regeneration_s"].update(prog_c.timings)
    dev_shapes = D.shapes(tier)
    chk.bounds["trusted_device_cache"] = {"calls": ["Merge::merge_device", "ForceMerge::force_merge_device"], "device_log_events": "1..2",
                                          "patch_events": "1..%d" % (2 if tier == "quick" else 3), "event_kinds": "every trust/revoke sequence",
                                          "device_keys": "symbolic, pool of two"}

    def dispatch(s):
        if len(s) == 2:
            return run_config(prog, s)
        if len(s) == 3:
            return D.run_devices(prog_c, s)
        return run_auth(prog, s)
    results = par.map_entries(dispatch, shapes + auth_shapes + dev_shapes)
    rep = None
    blocks = {}
    for out in results:
        if isinstance(out, Exception) or out is None:
            chk.inconclusive.append("worker failed: %r" % (out,))
            continue
        chk.states += out["states"]
        chk.transitions += out["queries"]
        chk.solver_s += out["solver_s"]
        chk.obligations += out["obligations"]
        chk.discharged += out["discharged"]
        chk.inconclusive.extend(out["inconclusive"])
        chk.stubs.update(out["stubs"])
        if len(chk.samples) < 6:
            chk.samples.extend(out["samples"])
        for kk, n in out["gaps"].items():
            chk.gaps[kk] = chk.gaps.get(kk, 0) + n
        for kk, n in out.get("blocks", {}).items():
            blocks[kk] = max(blocks.get(kk, 0), n)
        for key, desc, case in out["reports"]:
            if key in chk.known_hits or any(k == key for k, _, _ in chk.violations):
                continue
            if case.get("op") == "none":
                # authenticate_endpoint is a private function behind the HTTP server: the counterexample is the
                # path itself (gates skipped), it cannot be replayed through a public call
                chk.report(key, desc + " [model-level counterexample: not natively replayable]", case)
                continue
            if rep is None:
                rep = Replayer("dev")
                rep.build()
            nat = rep.run(case)
            if confirm(case, nat):
                chk.replays_ok += 1
                if case.get("op") == "server_devices":
                    chk.report(key, desc + "; native: listed=%s log replay=%s" % (nat.get("listed"), nat.get("replay")), case)
                else:
                    chk.report(key, desc + "; allow=%s deny=%s id=%s admitted=%s" % (case["allow"], case["deny"], case["who"], case["admitted"]), case)
            else:
                chk.replays_bad += 1
                chk.inconclusive.append("not reproduced natively: %s :: %s" % (desc, json.dumps(nat)[:300]))
    if rep is not None:
        rep.close()
    chk.functions = {kk: {"mir_blocks_executed": v} for kk, v in sorted(blocks.items())}
    chk.assumptions = [
        "decision functions and the trusted-device cache only: that every route calls authenticate_endpoint with the right "
        "bytes and the absence of side effects of refused requests need a walk of the live axum server and are outside",
        "part C: the device event log is the harness's record list (patch_checked accepts or conflicts, replace_all_events "
        "succeeds or fails, nondeterministically); TrackedChanges::new_device_records is stubbed; T of SyncImpl<T> is abstract",
        "Ed25519 verification is an uninterpreted predicate per trusted key; bs58 and signature decoding are nondeterministic; "
        "locks are uncontended; the account table and device keys are supplied by the harness",
    ]
    return chk.finish(rule="one state = one path of is_allowed_access for one (allow size, deny size) configuration with symbolic ids")


def replay(path):
    case = json.load(open(path))
    rep = Replayer("dev")
    nat = rep.run(case)
    rep.close()
    print(json.dumps(nat))
    if confirm(case, nat):
        print("VIOLATION property=%s replay=%s" % (PROP, path))
        return 1
    return 0


# ------------------------------------------------------------------ Part B: authenticate_endpoint

from mirsym.models import ok, err, some, none, deref, future, LockV              # noqa: E402
import re as _re                                                                # noqa: E402


def model(pattern):
    """harness-specific models take precedence over the generic table"""
    def deco(f):
        M.MODELS.insert(0, (_re.compile(pattern), f))
        return f
    return deco


class AuthWorld:
    """what the harness decides for one run: which device keys exist and which of them verify"""
    cur = None


@model(r"^Authorization::<.*>::token$|^(axum_extra::headers::)?Authorization::<.*>::token$")
def m_auth_token(engine, ctx, args, callee, frame):
    return Ref(Cell(AuthWorld.cur["token"]))


@model(r"^bs58::decode::<")
def m_bs58_decode(engine, ctx, args, callee, frame):
    return Opaque("bs58::DecodeBuilder", M.as_bytes(engine, args[0]))


@model(r"(^|::)DecodeBuilder::<.*>::into_vec$")
def m_bs58_into_vec(engine, ctx, args, callee, frame):
    if ctx.branch(ctx.fresh_bool("bs58_ok")):
        arr = ctx.fresh_arr("sigbytes")
        n = Int(ctx.fresh_bv("siglen", 64), 64)
        ctx.add(z3.ULE(n.z3(), 80))
        return ok(M.Bytes(arr, Int(0, 64), n))
    return err(Opaque("bs58::Error"))


@model(r"^(sos_core::)?(encoding::)?decode::<(sos_signer::ed25519::)?BinaryEd25519Signature>$")
def m_decode_sig(engine, ctx, args, callee, frame):
    def run():
        if ctx.branch(ctx.fresh_bool("sig_decodes")):
            return ok(Opaque("BinaryEd25519Signature", AuthWorld.cur["sig_id"]))
        return err(Opaque("sos_core::Error"))
    return future(callee, run)


@model(r"^<(sos_signer::ed25519::)?BinaryEd25519Signature as Into<.*Signature>>::into$|^<.*Signature as From<(sos_signer::ed25519::)?BinaryEd25519Signature>>::from$")
def m_sig_into(engine, ctx, args, callee, frame):
    return Opaque("Signature", args[0].payload)


@model(r"as (sos_server_storage::)?ServerAccountStorage>::list_device_keys$")
def m_list_device_keys(engine, ctx, args, callee, frame):
    s = M.SetV("HashSet")
    for k in AuthWorld.cur["keys"]:
        s.items.append(Ref(Cell(Opaque("DevicePublicKey", k))))
    return s


@model(r"^(sos_signer::)?(ed25519::)?into_device_verifying_key$")
def m_into_vk(engine, ctx, args, callee, frame):
    return ok(Opaque("VerifyingKey", deref(args[0]).payload))


@model(r"as (ed25519_dalek::|signature::)?Verifier<.*>>::verify$")
def m_verify(engine, ctx, args, callee, frame):
    key = deref(args[0]).payload
    msg = args[1]
    sig = deref(args[2])
    w = AuthWorld.cur
    same_msg = isinstance(msg, Ref) and msg.cell is w["signed_cell"]
    w["verify_calls"].append((key, same_msg, getattr(sig, "payload", None)))
    good = ctx.branch(z3.Bool("valid_%s" % key))
    if good:
        w["verified_by"] = (key, same_msg)
        return ok(M.unit())
    return err(Opaque("signature::Error"))


def access_field_index(prog):
    """position of `access` in ServerConfig, read from the MIR of authenticate_endpoint (so that a reordering of
    the struct's fields in the source is followed)"""
    for (cr, key), fn in prog.fns.items():
        if cr == "sos_server" and fn.name.startswith("authenticate_endpoint::{closure#0}") and fn.name.count("closure") == 1:
            for b in fn.blocks.values():
                for st in b.stmts:
                    m = _re.search(r"config::ServerConfig\)\.(\d+): std::option::Option<config::AccessControlConfig>", st.text or "")
                    if m:
                        return int(m.group(1))
    raise Inconclusive("cannot locate ServerConfig.access in the MIR of authenticate_endpoint")


def run_auth(prog, shape):
    header, exists, nkeys, access = shape
    name = "header_id=%s account_exists=%s device_keys=%d access=%s" % (header, exists, nkeys, access)
    out = {"entry": name, "states": 0, "queries": 0, "solver_s": 0.0, "obligations": 0, "discharged": 0,
           "inconclusive": [], "gaps": {}, "reports": [], "samples": [], "stubs": [], "kinds": {}}
    eng = H.new_engine(prog, loop_bound=64)

    def thunk(ctx):
        who, wb = account_id("who")
        ctx.add(wb == 5)
        tok_len = 3
        token = M.bytes_from_ints([Int(z3.BitVec("tok%d" % i, 8), 8) for i in range(tok_len)], utf8=True)
        signed = Cell(M.bytes_from_ints([Int(z3.BitVec("body%d" % i, 8), 8) for i in range(2)]))
        w = {"token": token, "keys": ["k%d" % i for i in range(nkeys)], "sig_id": "sig", "verify_calls": [],
             "verified_by": None, "signed_cell": signed}
        AuthWorld.cur = w
        # access configuration
        cfg = M.none()
        if access == "deny-me":
            s = M.SetV("HashSet"); s.items.append(account_id("dd")[0]); ctx.add(z3.BitVec("dd", 8) == 5)
            cfg = M.some(Agg("struct", "AccessControlConfig", [Cell(M.none()), Cell(M.some(s))]))
        elif access == "allow-other":
            s = M.SetV("HashSet"); s.items.append(account_id("aa")[0]); ctx.add(z3.BitVec("aa", 8) == 6)
            cfg = M.some(Agg("struct", "AccessControlConfig", [Cell(M.some(s)), Cell(M.none())]))
        elif access == "allow-me":
            s = M.SetV("HashSet"); s.items.append(account_id("aa")[0]); ctx.add(z3.BitVec("aa", 8) == 5)
            cfg = M.some(Agg("struct", "AccessControlConfig", [Cell(M.some(s)), Cell(M.none())]))
        # ServerConfig: only `.access` is read; find its field index from the MIR place `(config.N: Option<AccessControlConfig>)`
        idx = access_field_index(prog)
        config = Agg("struct", "ServerConfig", [Cell() for _ in range(idx)] + [Cell(cfg)])
        state = Agg("struct", "State", [Cell(config), Cell(M.MapV("HashMap"))])
        ctx.cfg_access = cfg
        accounts = M.MapV("HashMap")
        if exists:
            storage = Opaque("ServerStorage")
            accounts.entries.append((account_id("acct")[0], Cell(Ref(Cell(LockV(storage))))))
            ctx.add(z3.BitVec("acct", 8) == 5)
        backend = Agg("struct", "Backend", [Cell(Opaque("Paths")), Cell(Ref(Cell(LockV(accounts)))), Cell(Opaque("BackendTarget"))])
        hdr = M.some(who) if header else M.none()
        fut = eng.call_named("authenticate_endpoint", [hdr, Opaque("Authorization"), Ref(signed), M.none(),
                                                       Ref(Cell(LockV(state))), Ref(Cell(LockV(backend)))], None)
        r = H.poll_to_result(eng, ctx, fut)
        return (r.variant, w)

    def on_result(res):
        out["states"] += 1
        out["kinds"][res.kind] = out["kinds"].get(res.kind, 0) + 1
        if res.kind == "untranslatable":
            k = "%s @ %s" % (res.err[0], str(res.err[1])[:200])
            out["gaps"][k] = out["gaps"].get(k, 0) + 1
            return
        if res.kind != "ret":
            out["inconclusive"].append("%s: path ended with %s %r" % (name, res.kind, res.err))
            return
        variant, w = res.value
        if variant != "Ok":
            out["obligations"] += 1
            out["discharged"] += 1
            return
        # a caller was returned: every gate must have been passed
        def need(cond, what):
            out["obligations"] += 1
            if cond:
                out["discharged"] += 1
            else:
                out["reports"].append(("auth|%s" % what, "%s: caller admitted although %s" % (name, what), {"op": "none", "what": what, "shape": list(shape)}))
        need(header, "no account id header was given (legacy token form)")
        need(access in ("none", "allow-me"), "the access configuration refuses the account (%s)" % access)
        if exists:
            need(w["verified_by"] is not None, "no trusted device key verified the signature")
            need(w["verified_by"] is None or w["verified_by"][1], "the signature was verified over bytes other than the signed request data")
        if not out["samples"]:
            out["samples"].append({"shape": name, "verify_calls": len(w["verify_calls"]), "admitted": True})

    try:
        eng.explore(thunk, on_result=on_result)
    except Inconclusive as e:
        out["inconclusive"].append("%s: %s" % (name, e))
    st = eng.stats
    out["queries"] += st.queries
    out["solver_s"] += st.solver_s
    out["blocks"] = {prog.pretty(kk[1]): len(vv) for kk, vv in st.blocks_hit.items()}
    out["stubs"] = sorted(set(c.split("::<")[0][:80] for c in st.calls_modelled))
    return out
