import argparse
import importlib
import os
import sys
import traceback


def main():
    ap = argparse.ArgumentParser()
    ap.add_argument("prop")
    ap.add_argument("--tier", default=os.environ.get("VERIF_TIER", "quick"))
    ap.add_argument("--replay", default=None)
    ap.add_argument("--no-regen", action="store_true", help="debug: reuse the MIR dumps on disk")
    a = ap.parse_args()
    tier = a.tier if a.tier in ("quick", "thorough") else "quick"
    # second solver: every 25th obligation query in the quick tier, every 3rd in the thorough tier
    os.environ.setdefault("VERIF_CROSS_EVERY", "25" if tier == "quick" else "3")
    mod = importlib.import_module("checks.%s" % a.prop.lower())
    try:
        if a.replay:
            rc = mod.replay(a.replay)
        else:
            rc = mod.run(tier, regenerate=not a.no_regen)
    except Exception:
        traceback.print_exc()
        print("INCONCLUSIVE: internal error in check %s" % a.prop)
        rc = 2
    sys.exit(rc)


if __name__ == "__main__":
    main()
