"""C12 — compaction keeps the data (reducer / compaction kernel).

`FolderReducer::{reduce, compact, build}`, `Vault::{into_event, set_name, ...}` and the vault
codec they call are executed from the MIR of the current tree on an event log
`CreateVault(header) . e1 .. en` whose events have symbolic arguments (names, flags, meta,
secret ids out of a pool of two, entries).  Obligation, decided by z3 for every value of the
arguments:  build(reduce(compact(reduce(L)))) == build(reduce(L)) on name, flags, meta and
the id -> entry map, and |compact| = 1 + number of live secrets.
"""
import itertools
import json
import os
import time
import z3

from .common import Check, Replayer
from . import par
from . import vaultlib as V
from mirsym import harness as H
from mirsym import models as M
from mirsym.engine import (Cell, Ref, Int, EnumV, Agg, VecV, Inconclusive, Untranslatable, bz3)

PROP = "C12"
CRATES = ["sos_core", "sos_vault", "sos_reducers"]


def shapes(max_n, with_meta_options=(False, True)):
    out = []
    for wm in with_meta_options:
        for n in range(0, max_n + 1):
            for kinds in itertools.product(V.KINDS, repeat=n):
                out.append((wm, kinds))
    return out


def run_shape(prog, shape):
    with_meta, kinds = shape
    name = "header%s.%s" % ("+meta" if with_meta else "", ".".join(kinds) or "(no events)")
    out = {"entry": name, "states": 0, "queries": 0, "solver_s": 0.0, "obligations": 0, "discharged": 0,
           "inconclusive": [], "gaps": {}, "reports": [], "samples": [], "stubs": [], "kinds": {}}
    eng = H.new_engine(prog, loop_bound=64)
    _c0 = H.cross_begin()

    def thunk(ctx):
        v0 = V.base_vault(eng, ctx, with_meta)
        ev0 = V.create_event(eng, ctx, v0)
        events = [ev0] + [V.sym_event(eng, ctx, k, "e%d" % i) for i, k in enumerate(kinds)]
        ctx.wevents = events
        full = V.build(eng, ctx, V.reduce_log(eng, ctx, events))
        compacted = V.compact(eng, ctx, V.reduce_log(eng, ctx, events))
        cev = [c.v for c in compacted.items]
        again = V.build(eng, ctx, V.reduce_log(eng, ctx, cev))
        return (full, again, len(cev))

    def describe(res, m):
        evs = []
        for e in res.ctx.wevents[1:]:
            evs.append(M.describe(e, m))
        return evs

    def check(res, cond, what):
        out["obligations"] += 1
        if cond is True:
            out["discharged"] += 1
            return
        s = z3.SolverFor("QF_ABV")
        for c in res.pc:
            s.add(bz3(c))
        s.add(z3.Not(bz3(cond)))
        t = time.time()
        r = s.check()
        out["solver_s"] += time.time() - t
        if not H.cross_check(s, r, what if "what" in dir() else ""):
            out["inconclusive"].append("second solver disagrees: %s" % H.CROSS["disagree"][-1])
        out["queries"] += 1
        if r == z3.unsat:
            out["discharged"] += 1
            return
        if r != z3.sat:
            out["inconclusive"].append("%s: solver unknown (%s)" % (name, what))
            return
        m = s.model()
        full, again, _ = res.value
        out["reports"].append(("compact|%s" % what,
                               "%s after events %s" % (what, json.dumps(describe(res, m))[:500]),
                               {"op": "compact", "with_meta": with_meta, "kinds": list(kinds), "what": what,
                                "header_concrete": V.concrete_header(m, with_meta),
                                "events_concrete": [V.concrete_event(k, "e%d" % i, m) for i, k in enumerate(kinds)]}))

    def on_result(res):
        out["states"] += 1
        out["kinds"][res.kind] = out["kinds"].get(res.kind, 0) + 1
        if res.kind == "untranslatable":
            k = "%s @ %s" % (res.err[0], str(res.err[1])[:200])
            out["gaps"][k] = out["gaps"].get(k, 0) + 1
            return
        if res.kind != "ret":
            out["inconclusive"].append("%s: path ended with %s %r" % (name, res.kind, res.err))
            return
        full, again, ncompact = res.value
        n1, f1, m1, c1 = V.vault_parts(full)
        n2, f2, m2, c2 = V.vault_parts(again)
        check(res, M.eq_formula(eng, n1, n2), "name differs after compaction")
        check(res, M.eq_formula(eng, f1, f2), "flags differ after compaction")
        check(res, M.eq_formula(eng, m1, m2), "meta differs after compaction")
        check(res, M.eq_formula(eng, c1, c2), "secrets differ after compaction")
        check(res, ncompact == 1 + len(c1.entries), "compacted log has %d events for %d live secrets" % (ncompact, len(c1.entries)))
        if not out["samples"]:
            mm = H.witness_for(res)
            if mm is not None:
                out["samples"].append({"shape": name, "events": describe(res, mm), "live_secrets": len(c1.entries)})

    try:
        eng.explore(thunk, on_result=on_result)
    except Inconclusive as e:
        out["inconclusive"].append("%s: %s" % (name, e))
    st = eng.stats
    out["queries"] += st.queries
    out["solver_s"] += st.solver_s
    out["blocks"] = {prog.pretty(kk[1]): len(vv) for kk, vv in st.blocks_hit.items()}
    out["stubs"] = sorted(set(c.split("::<")[0][:80] for c in st.calls_modelled))
    out["cross"] = H.cross_end(_c0)
    return out


def run(tier, regenerate=True):
    chk = Check(PROP, tier)
    max_n = 2 if tier == "quick" else 3
    chk.bounds = {"events_after_create": max_n, "secret_id_pool": 2, "event_kinds": V.KINDS,
                  "strings": "2 symbolic ASCII bytes", "flags": "any defined bits", "entries": "symbolic commit + 1-byte blobs"}
    prog = H.load_program(CRATES, regenerate=regenerate)
    chk.extra["mir_regeneration_s"] = prog.timings
    sh = shapes(max_n)
    only = os.environ.get("VERIF_ONLY")
    if only:
        sh = [s for s in sh if ".".join(s[1]) == only]
    results = par.map_entries(lambda s: run_shape(prog, s), sh)
    rep = None
    blocks = {}
    for out in results:
        if isinstance(out, Exception) or out is None:
            chk.inconclusive.append("worker failed: %r" % (out,))
            continue
        chk.add_cross(out)
        chk.states += out["states"]
        chk.transitions += out["queries"]
        chk.solver_s += out["solver_s"]
        chk.obligations += out["obligations"]
        chk.discharged += out["discharged"]
        chk.inconclusive.extend(out["inconclusive"])
        chk.stubs.update(out["stubs"])
        if len(chk.samples) < 6:
            chk.samples.extend(out["samples"])
        for kk, n in out["gaps"].items():
            chk.gaps[kk] = chk.gaps.get(kk, 0) + n
        for kk, n in out.get("blocks", {}).items():
            blocks[kk] = max(blocks.get(kk, 0), n)
        for key, desc, case in out["reports"]:
            if rep is None:
                rep = Replayer("dev")
                rep.build()
            nat = rep.run(case)
            if confirmed(case, nat):
                chk.replays_ok += 1
                chk.report(key.split(" has ")[0], desc + "; native: " + json.dumps(nat)[:300], case)
            else:
                chk.replays_bad += 1
                chk.inconclusive.append("not reproduced natively: %s :: %s" % (desc, json.dumps(nat)[:300]))
    # ---- storage level: sos_backend::compact_folder on a file-system folder log (real apply, real event_stream,
    #      temporary log, replace_all_events over the vfs model)
    from . import c12_compact as CF
    cprog = H.load_program(CF.CRATES, regenerate=regenerate)
    chk.extra["mir_regeneration_s"].update(cprog.timings)
    csh = shapes(max_n if tier == "quick" else 2, with_meta_options=(True,))
    if only:
        csh = [x for x in csh if ".".join(x[1]) == only]
    chk.bounds["compact_folder"] = {"backend": "file system (vfs model)", "events_after_create": max_n if tier == "quick" else 2, "shapes": len(csh)}
    cres = par.map_entries(lambda x: CF.run_shape(cprog, x), csh)
    for out in cres:
        if isinstance(out, Exception) or out is None:
            chk.inconclusive.append("worker failed: %r" % (out,))
            continue
        chk.states += out["states"]
        chk.transitions += out["queries"]
        chk.solver_s += out["solver_s"]
        chk.obligations += out["obligations"]
        chk.discharged += out["discharged"]
        chk.inconclusive.extend(out["inconclusive"])
        chk.stubs.update(out["stubs"])
        for kk, n in out["gaps"].items():
            chk.gaps[kk] = chk.gaps.get(kk, 0) + n
        for kk, n in out.get("blocks", {}).items():
            blocks[kk] = max(blocks.get(kk, 0), n)
        for key, desc, case in out["reports"]:
            if rep is None:
                rep = Replayer("dev")
                rep.build()
            nat = rep.run(case)
            if confirmed_cf(case, nat):
                chk.replays_ok += 1
                chk.report(key, desc + "; native: " + json.dumps(nat)[:300], case)
            else:
                chk.replays_bad += 1
                chk.inconclusive.append("not reproduced natively: %s :: %s" % (desc, json.dumps(nat)[:300]))
    if rep is not None:
        rep.close()
    chk.functions = {kk: {"mir_blocks_executed": v} for kk, v in sorted(blocks.items())}
    chk.assumptions = [
        "reducer / compaction kernel, and sos_backend::compact_folder on the file-system backend over the vfs model (the log is "
        "written by the real apply, read back by the real event_stream; SHA-256 ideal); the database branch of compact_folder, "
        "password and cipher changes through LocalAccount are outside",
        "the event log is a harness-provided stream of (record, event) pairs; encryption is opaque (blobs are bytes)",
        "logs of at most %d events after CreateVault over a pool of two secret ids" % max_n,
    ]
    return chk.finish(rule="one state = one path of reduce/build/compact for one sequence of event kinds with symbolic arguments")


def confirmed(case, nat):
    if nat.get("outcome") != "ok":
        return False
    what = case["what"]
    if what.startswith("name"):
        return nat["name_before"] != nat["name_after"]
    if what.startswith("flags"):
        return nat["flags_before"] != nat["flags_after"]
    if what.startswith("meta"):
        return nat["meta_before"] != nat["meta_after"]
    if what.startswith("secrets"):
        return nat["secrets_before"] != nat["secrets_after"]
    if what.startswith("compacted log"):
        return nat["compact_len"] != 1 + nat["live"]
    return False


def confirmed_cf(case, nat):
    if nat.get("outcome") != "ok":
        return False
    what = case["what"]
    if "fails" in what:
        return "Err" in (nat.get("result") or {})
    if "re-opened" in what:
        return "Err" in (nat.get("reopen") or {})
    if what.startswith("tree in memory"):
        return nat.get("tree_matches_file") is False
    for f in ("name", "flags", "meta", "secrets"):
        if what.startswith(f + " of the folder"):
            return nat[f + "_before"] != nat[f + "_after"]
    if "compacted log holds" in what:
        return nat["records_after"] != 1 + nat["live"]
    if "stray file" in what or "temporary event log" in what:
        return nat.get("dir_entries") != ["folder.events"]
    return False


def replay(path):
    case = json.load(open(path))
    if case.get("op") == "compact_folder":
        rep = Replayer("dev")
        nat = rep.run(case)
        rep.close()
        print(json.dumps(nat)[:600])
        if confirmed_cf(case, nat):
            print("VIOLATION property=%s replay=%s" % (PROP, path))
            return 1
        return 0
    rep = Replayer("dev")
    nat = rep.run(case)
    rep.close()
    print(json.dumps(nat))
    if confirmed(case, nat):
        print("VIOLATION property=%s replay=%s" % (PROP, path))
        return 1
    return 0
