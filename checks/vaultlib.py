"""Harness pieces shared by the reducer / vault checks (C12, C02): symbolic vault headers,
symbolic write events, an event log the reducer can stream from."""
import z3

from mirsym import harness as H
from mirsym import models as M
from mirsym.engine import (Cell, Ref, Int, EnumV, Agg, VecV, Inconclusive, Untranslatable, int_binop, bz3,
                           bytes_from_ints, deep_copy)

KINDS = ["name", "flags", "meta", "create", "update", "delete"]


def ascii_string(ctx, name, n):
    bs = []
    for i in range(n):
        b = z3.BitVec("%s_%d" % (name, i), 8)
        ctx.add(z3.And(z3.UGE(b, 0x20), z3.ULE(b, 0x7E)))
        bs.append(Int(b, 8))
    s = bytes_from_ints(bs, utf8=True)
    return s


def sym_flags(eng, ctx, name):
    raw = Int(z3.BitVec(name, 64), 64)
    return eng.call_named("_::<impl VaultFlags>::from_bits_truncate", [raw], None)


def sym_aead(ctx, name):
    nonce = Agg("array", None, [Cell(Int(z3.BitVec("%s_n%d" % (name, i), 8) if i == 0 else 0, 8)) for i in range(12)])
    ct = bytes_from_ints([Int(z3.BitVec("%s_c" % name, 8), 8)])
    return Agg("struct", "AeadPack", [Cell(EnumV("Nonce", "Nonce12", 0, [Cell(nonce)])), Cell(ct)])


def sym_uuid(ctx, name):
    """one of two identifiers, chosen symbolically"""
    sel = z3.BitVec(name, 8)
    ctx.add(z3.ULE(sel, 1))
    return Agg("struct", "Uuid", [Cell(Agg("array", None, [Cell(Int(sel if i == 0 else 0, 8)) for i in range(16)]))])


def sym_commit(ctx, name):
    h = Agg("array", None, [Cell(Int(z3.BitVec(name, 8) if i == 0 else 0, 8)) for i in range(32)])
    entry = Agg("struct", "VaultEntry", [Cell(sym_aead(ctx, name + "_m")), Cell(sym_aead(ctx, name + "_s"))])
    return Agg("struct", "VaultCommit", [Cell(Agg("struct", "CommitHash", [Cell(h)])), Cell(entry)])


def write_event(eng, variant, fields):
    d = eng.program.enum_variant("WriteEvent", variant)
    if d is None:
        raise Inconclusive("WriteEvent::%s not found in the enum scan" % variant)
    return EnumV("WriteEvent", variant, d, [Cell(f) for f in fields])


def sym_event(eng, ctx, kind, tag):
    if kind == "name":
        return write_event(eng, "SetVaultName", [ascii_string(ctx, tag + "_name", 2)])
    if kind == "flags":
        return write_event(eng, "SetVaultFlags", [sym_flags(eng, ctx, tag + "_flags")])
    if kind == "meta":
        return write_event(eng, "SetVaultMeta", [sym_aead(ctx, tag + "_meta")])
    if kind == "create":
        return write_event(eng, "CreateSecret", [sym_uuid(ctx, tag + "_id"), sym_commit(ctx, tag + "_v")])
    if kind == "update":
        return write_event(eng, "UpdateSecret", [sym_uuid(ctx, tag + "_id"), sym_commit(ctx, tag + "_v")])
    if kind == "delete":
        return write_event(eng, "DeleteSecret", [sym_uuid(ctx, tag + "_id")])
    raise ValueError(kind)


def record(i):
    """an EventRecord whose commit hash is distinct per position (payload is not read by the reducer)"""
    def h(x):
        return Agg("struct", "CommitHash", [Cell(Agg("array", None, [Cell(Int(x if j == 0 else 0xEE, 8)) for j in range(32)]))])
    t = Agg("struct", "UtcDateTime", [Cell(M.odt(Int(1700000000 + i, 64, True), Int(0, 32)))])
    return Agg("struct", "EventRecord", [Cell(t), Cell(h(i)), Cell(h(i + 1)), Cell(bytes_from_ints([]))])


def base_vault(eng, ctx, with_meta, tag="h"):
    """Vault::default() with a symbolic name, symbolic flags and optional symbolic meta"""
    v = eng.call_named("<Vault as Default>::default", [], None)
    header = v.fields[0].v
    summary = header.fields[0].v
    summary.fields[2].v = ascii_string(ctx, tag + "_name", 2)
    summary.fields[5].v = sym_flags(eng, ctx, tag + "_flags")
    if with_meta:
        header.fields[1].v = M.some(sym_aead(ctx, tag + "_meta"))
    return v


def unwrap(r, what):
    if not isinstance(r, EnumV) or r.variant not in ("Ok", "Some"):
        raise Inconclusive("%s returned %r" % (what, r))
    return r.fields[0].v


def create_event(eng, ctx, vault):
    fut = eng.call_named("Vault::into_event", [Ref(Cell(vault))], None)
    return unwrap(H.poll_to_result(eng, ctx, fut), "Vault::into_event")


def make_log(events):
    return M.EventLogV([(record(i), e) for i, e in enumerate(events)])


def reduce_log(eng, ctx, events, until=None):
    if until is None:
        red = eng.call_named("FolderReducer::new", [], None)
    else:
        red = eng.call_named("FolderReducer::new_until_commit", [until], None)
    log = Cell(make_log(events))
    fut = eng.call_named("FolderReducer::reduce::<L, E>", [red, Ref(log)], None)
    return unwrap(H.poll_to_result(eng, ctx, fut), "FolderReducer::reduce")


def build(eng, ctx, reducer, include_secrets=True):
    fut = eng.call_named("FolderReducer::build", [reducer, include_secrets], None)
    return unwrap(H.poll_to_result(eng, ctx, fut), "FolderReducer::build")


def compact(eng, ctx, reducer):
    fut = eng.call_named("FolderReducer::compact", [reducer], None)
    return unwrap(H.poll_to_result(eng, ctx, fut), "FolderReducer::compact")


def vault_parts(v):
    """(name, flags bits, meta, contents map) of a Vault value"""
    header = v.fields[0].v
    summary = header.fields[0].v
    name = summary.fields[2].v
    flags = summary.fields[5].v.fields[0].v.fields[0].v
    meta = header.fields[1].v
    contents = v.fields[1].v.fields[0].v
    return name, flags, meta, contents


# ---- concrete rendering of the symbolic arguments under a model (for native replay) ------------------

def _bv(m, name, bits):
    return m.eval(z3.BitVec(name, bits), model_completion=True).as_long()


def _str(m, name, n):
    return "".join(chr(_bv(m, "%s_%d" % (name, i), 8)) for i in range(n))


def _aead(m, name):
    return {"n": _bv(m, "%s_n0" % name, 8), "c": _bv(m, "%s_c" % name, 8)}


def _commit(m, name):
    return {"h": _bv(m, name, 8), "m": _aead(m, name + "_m"), "s": _aead(m, name + "_s")}


def concrete_event(kind, tag, m):
    if kind == "name":
        return {"kind": "name", "name": _str(m, tag + "_name", 2)}
    if kind == "flags":
        return {"kind": "flags", "bits": _bv(m, tag + "_flags", 64)}
    if kind == "meta":
        return {"kind": "meta", "aead": _aead(m, tag + "_meta")}
    if kind in ("create", "update"):
        return {"kind": kind, "id": _bv(m, tag + "_id", 8), "value": _commit(m, tag + "_v")}
    if kind == "delete":
        return {"kind": "delete", "id": _bv(m, tag + "_id", 8)}
    raise ValueError(kind)


def concrete_header(m, with_meta, tag="h"):
    return {"name": _str(m, tag + "_name", 2), "flags": _bv(m, tag + "_flags", 64),
            "meta": _aead(m, tag + "_meta") if with_meta else None}
