"""C07, server side — `sos_server_storage::server_helpers::event_patch` (rewind, merge, roll back).

The server answers a patch request by optionally rewinding the target log to the commit the client names,
merging the patch through `<SyncImpl<T> as Merge>::merge_folder` (which calls `patch_checked`) and, when the
merge reports a conflict, re-appending the rewound records.  Here `event_patch::<SyncImpl<T>, E>` runs from the
MIR of sos-server-storage with `merge_folder` from the same crate, the `BackendEventLog` dispatch from
sos-backend and the real `FileSystemEventLog::{rewind, patch_checked, apply_records}` from sos-filesystem over
the vfs model.  The folder log holds k records (commits from a pool of three, so byte-identical events occur);
the request carries a symbolic rewind target (in the pool, absent, or none), the head proof of an arbitrary
other log (symbolic leaves) and a patch of n records whose event bytes are symbolic (so they may fail to decode).

Obligations per path:
  * success  => the proof was the head of exactly (this log rewound to the target) and the log now is that
                prefix followed by the patch, in memory and after a restart;
  * conflict => file bytes, tree and restart state equal the state before the request (the rewind was undone);
  * error    => likewise unchanged.
"""
import json
import re as _re
import time
import z3

from . import fslog as F
from . import fsops as O
from mirsym import harness as H
from mirsym import models as M
from mirsym import vfs as VF
from mirsym import plumbing as PL      # noqa: F401
from mirsym.models import ok, err, some, none, deref, future, pin_box, LockV
from mirsym.engine import (Cell, Ref, Int, EnumV, Agg, VecV, Opaque, Inconclusive, Untranslatable, bz3, to_bool, b_not, b_or,
                           deep_copy, unit)

CRATES = ["sos_core", "sos_vault", "sos_filesystem", "sos_reducers", "sos_backend", "sos_sync", "sos_server_storage"]
PLEN = 10


def model(pattern):
    def deco(f):
        M.MODELS.insert(0, (_re.compile(pattern), f))
        return f
    return deco


class World:
    cur = None


def folder_id():
    return Agg("struct", "Uuid", [Cell(Agg("array", None, [Cell(Int(7, 8)) for _ in range(16)]))])


@model(r"^<(T|S) as (sos_sync::)?StorageEventLogs>::(identity|account|device|file|folder)_log(::<.*>)?$")
def m_any_log(engine, ctx, args, callee, frame):
    w = World.cur
    return pin_box(future(callee, lambda: ok(Ref(Cell(w["lock"])))))


@model(r"^<T as (crate::|sos_server_storage::)?(traits::)?ServerAccountStorage>::folders(_mut)?$")
def m_folders(engine, ctx, args, callee, frame):
    w = World.cur
    return Ref(w["folders"])


@model(r"^<T as (crate::|sos_server_storage::)?(traits::)?ServerAccountStorage>::set_folder_flags(::<.*>)?$")
def m_set_folder_flags(engine, ctx, args, callee, frame):
    w = World.cur
    w["flag_calls"] += 1
    return pin_box(future(callee, lambda: ok(unit())))


@model(r"^<(S|SyncImpl<T>) as (sos_sync::)?(Merge|ForceMerge)>::(\w+)(::<.*>)?$")
def m_merge_dispatch(engine, ctx, args, callee, frame):
    m = _re.match(r"^<(?:S|SyncImpl<T>) as (?:sos_sync::)?(Merge|ForceMerge)>::(\w+)", callee)
    name, fn = find_impl(engine.program, m.group(1), m.group(2))
    if fn is None:
        pf = engine.program.resolve(name, None)
        if pf is None:
            raise Untranslatable("no MIR for %s" % name)
        return engine.run_fn(pf, args, {"Self": "SyncImpl<T>"})
    return engine.run_fn(fn, args, {"T": "T"})


@model(r"^<T as (crate::|sos_server_storage::)?(traits::)?ServerAccountStorage>::replace_folder(::<.*>)?$")
def m_replace_folder(engine, ctx, args, callee, frame):
    """the file-system server storage's implementation, run from its MIR on a stand-in for `self`"""
    prog = engine.program
    fn = None
    for key, f in prog.fns.items():
        if prog.pretty(f.name) == "<ServerFileStorage as ServerAccountStorage>::replace_folder" and "{closure" not in f.name:
            fn = f
    if fn is None:
        raise Untranslatable("no MIR for <ServerFileStorage as ServerAccountStorage>::replace_folder")
    me = Cell(Agg("struct", "ServerFileStorage", [Cell(Opaque("field%d" % i)) for i in range(10)]))
    me.v.fields[0].v = Agg("struct", "AccountId", [Cell(Agg("array", None, [Cell(Int(0, 8)) for _ in range(20)]))])
    me.v.fields[2].v = EnumV("BackendTarget", "FileSystem", prog.enum_variant("BackendTarget", "FileSystem"), [Cell(Ref(Cell(Opaque("Paths"))))])
    return engine.run_fn(fn, [Ref(me)] + list(args[1:]), None)


@model(r"^(sos_backend::)?BackendEventLog::<.*>::new_folder$|^FolderEventLog::new_folder$")
def m_new_folder(engine, ctx, args, callee, frame):
    """`new_folder` opens the file and checks its identity bytes; the commit tree starts EMPTY (not loaded)"""
    d = engine.program.enum_variant("BackendEventLog", "FileSystem")
    fresh = O.new_log(engine, ctx, False)
    World.cur["fresh_logs"] = World.cur.get("fresh_logs", 0) + 1
    return future(callee, lambda: ok(EnumV("BackendEventLog", "FileSystem", d, [Cell(fresh)])))


@model(r"^<T as (crate::|sos_server_storage::)?(traits::)?ServerAccountStorage>::write_vault(::<.*>)?$")
def m_write_vault(engine, ctx, args, callee, frame):
    return pin_box(future(callee, lambda: ok(unit())))


@model(r"TrackedChanges::new_folder_events(::<.*>)?$")
def m_tracked(engine, ctx, args, callee, frame):
    # the set of tracked changes is bookkeeping for notifications; `new_folder_records` (which decodes the patch and
    # can fail) runs from MIR, only the fold over the decoded events is stubbed
    return future(callee, lambda: ok(M.SetV("IndexSet")))


@model(r"TrackedChanges::add_tracked_folder_changes$")
def m_add_tracked(engine, ctx, args, callee, frame):
    return unit()


@model(r"^<E as (std::convert::|core::convert::)?From<.*>>::from$")
def m_e_from(engine, ctx, args, callee, frame):
    return Opaque("E", ("from", callee))


def find_impl(prog, trait, method):
    """the impl's own method if SyncImpl<T> overrides it, else the trait's provided method (kept local: importing
    c11_devices would register that module's event-log stubs in front of the real event log used here)"""
    for key, fn in prog.fns.items():
        if prog.pretty(fn.name) == "<SyncImpl as %s>::%s" % (trait, method) and "{closure" not in fn.name:
            return fn.name, fn
    return "%s::%s" % (trait, method), None


def plen_of(sc):
    # forced replacements run the reducer over the new events afterwards: two event bytes (a kind tag) keep that small
    return 2 if sc.get("force") else PLEN


def scenarios(tier):
    out = []
    ks = (1, 2) if tier == "quick" else (1, 2, 3)
    for k in ks:
        for rewind in (False, True):
            for nb in ((1, 2) if tier == "quick" else (1, 2, 3)):
                if nb > k:
                    continue
                out.append({"k": k, "rewind": rewind, "nb": nb, "n": 1})
    if tier == "quick":
        out.append({"k": 3, "rewind": True, "nb": 1, "n": 1})      # a rewind that removes two records
    else:
        out.append({"k": 2, "rewind": True, "nb": 1, "n": 2})
    # a forced replacement of the folder log (update-account / force update): refused when the checkpoint is not
    # the head of the replacement
    for k in ks:
        out.append({"k": k, "rewind": False, "nb": 1, "n": 1, "force": True})
    out.append({"k": 1, "rewind": False, "nb": 2, "n": 1, "force": True})
    # the identity folder's merge entry point (same log type as a folder)
    out.append({"k": 1, "rewind": False, "nb": 1, "n": 1, "identity": True})
    # the merge entry point a sync packet reaches without event_patch around it
    for k in ks:
        out.append({"k": k, "rewind": False, "nb": k, "n": 1, "direct": True})
    return out


def run_scenario(prog, sc):
    name = json.dumps(sc, sort_keys=True)
    out = {"entry": "event_patch " + name, "states": 0, "queries": 0, "solver_s": 0.0, "obligations": 0, "discharged": 0,
           "inconclusive": [], "gaps": {}, "reports": [], "samples": [], "stubs": [], "kinds": {}}
    eng = H.new_engine(prog, loop_bound=64)
    _c0 = H.cross_begin()

    def thunk(ctx):
        vfs, header_len = O.new_vfs(eng, ctx, False)
        log = Cell(O.new_log(eng, ctx, False))
        init, imeta = O.records(ctx, "i", sc["k"])
        if init:
            r = F.call(eng, ctx, log, "apply_records", [O.vec(init)])
            if r.variant != "Ok":
                raise Inconclusive("initial apply_records failed")
        pre_leaves, _ = F.tree_state(eng, F.tree_of(log.v))
        pre_file = O.file_snapshot(vfs)
        pre_steps = vfs.steps
        d = eng.program.enum_variant("BackendEventLog", "FileSystem")
        blog = EnumV("BackendEventLog", "FileSystem", d, [Cell(log.v)])
        lock = LockV(blog)
        folders = M.MapV("HashMap")
        folders.entries.append((folder_id(), Cell(Ref(Cell(lock)))))
        w = {"lock": lock, "folders": Cell(folders), "flag_calls": 0}
        World.cur = w
        # request
        target = None
        if sc["rewind"]:
            target = z3.BitVec("target", 8)
            ctx.add(z3.Or(z3.ULT(target, 3), target == O.ABSENT))
            commit = some(O.commit_hash(target))
        else:
            commit = none()
        pb = [z3.BitVec("b%d" % i, 8) for i in range(sc["nb"])]
        for b in pb:
            ctx.add(z3.ULT(b, 3))
        proof = O.head_proof_of(eng, ctx, pb)
        new, nmeta = [], []
        for i in range(sc["n"]):
            r, m = F.sym_record(ctx, "n%d" % i, plen=plen_of(sc))
            new.append(r)
            nmeta.append(m)
        lt = EnumV("EventLogType", "Folder", eng.program.enum_variant("EventLogType", "Folder"), [Cell(folder_id())])
        req = Agg("struct", "PatchRequest", [Cell(lt), Cell(commit), Cell(proof), Cell(O.vec(new))])
        me = Cell(Agg("struct", "SyncImpl", [Cell(Opaque("T"))]))
        if sc.get("force"):
            _, fn = find_impl(eng.program, "ForceMerge", "force_merge_folder")
            if fn is None:
                raise Untranslatable("no MIR for <SyncImpl as ForceMerge>::force_merge_folder")
            patch = Agg("struct", "Patch", [Cell(O.vec(new)), Cell(Agg("struct", "PhantomData", []))])
            diff = Agg("struct", "Diff", [Cell(patch), Cell(proof), Cell(none())])
            outcome = Cell(M.default_value(eng, ctx, "MergeOutcome", None))
            fut = eng.run_fn(fn, [Ref(me), Ref(Cell(folder_id())), diff, Ref(outcome)], {"T": "T"})
        elif sc.get("identity"):
            _, fn = find_impl(eng.program, "Merge", "merge_identity")
            if fn is None:
                raise Untranslatable("no MIR for <SyncImpl as Merge>::merge_identity")
            patch = Agg("struct", "Patch", [Cell(O.vec(new)), Cell(Agg("struct", "PhantomData", []))])
            diff = Agg("struct", "Diff", [Cell(patch), Cell(proof), Cell(none())])
            outcome = Cell(M.default_value(eng, ctx, "MergeOutcome", None))
            fut = eng.run_fn(fn, [Ref(me), diff, Ref(outcome)], {"T": "T"})
        elif sc.get("direct"):
            _, fn = find_impl(eng.program, "Merge", "merge_folder")
            if fn is None:
                raise Untranslatable("no MIR for <SyncImpl as Merge>::merge_folder")
            patch = Agg("struct", "Patch", [Cell(O.vec(new)), Cell(Agg("struct", "PhantomData", []))])
            diff = Agg("struct", "Diff", [Cell(patch), Cell(proof), Cell(none())])
            outcome = Cell(M.default_value(eng, ctx, "MergeOutcome", None))
            fut = eng.run_fn(fn, [Ref(me), Ref(Cell(folder_id())), diff, Ref(outcome)], {"T": "T"})
        else:
            fut = eng.call_named("event_patch::<SyncImpl<T>, E>", [req, Ref(me)], None)
        res = H.poll_to_result(eng, ctx, fut)
        cur_lock = deref(folders.entries[0][1].v)
        logv = cur_lock.inner.v.fields[0]
        mem_leaves = list(F.tree_state(eng, F.tree_of(logv.v))[0])
        post_file = O.file_snapshot(vfs)
        log2 = Cell(O.new_log(eng, ctx, False))
        r2 = F.call(eng, ctx, log2, "load_tree", [])
        reopen_leaves = list(F.tree_state(eng, F.tree_of(log2.v))[0]) if r2.variant == "Ok" else None
        return {"result": res, "pre_leaves": list(pre_leaves), "pre_file": pre_file, "post_file": post_file,
                "mem_leaves": mem_leaves, "reopen": r2.variant, "reopen_leaves": reopen_leaves, "imeta": imeta,
                "nmeta": nmeta, "target": target, "proof_bytes": pb, "steps": vfs.steps - pre_steps,
                "files": sorted(vfs.files), "flag_calls": w["flag_calls"]}

    def check(res, cond, what, key):
        out["obligations"] += 1
        if cond is True:
            out["discharged"] += 1
            return True
        s = z3.SolverFor("QF_ABV")
        for c in res.pc:
            s.add(bz3(c))
        if cond is not False:
            s.add(z3.Not(bz3(cond)))
        t = time.time()
        r = s.check()
        out["solver_s"] += time.time() - t
        out["queries"] += 1
        if not H.cross_check(s, r, what):
            out["inconclusive"].append("second solver disagrees: %s" % H.CROSS["disagree"][-1])
        if r == z3.unsat:
            out["discharged"] += 1
            return True
        if r != z3.sat:
            out["inconclusive"].append("%s: solver unknown (%s)" % (name, what))
            return True
        m = s.model()
        v = res.value
        ev = lambda x: m.eval(x, model_completion=True).as_long()
        patch = O.concrete_records(m, v["nmeta"])
        for i, p in enumerate(patch):
            p["payload"] = "".join("%02x" % ev(z3.BitVec("n%d_p%d" % (i, j), 8)) for j in range(plen_of(sc)))
        case = {"op": "server_event_patch", "what": what, "scenario": sc, "direct": bool(sc.get("direct")), "force": bool(sc.get("force")), "identity": bool(sc.get("identity")),
                "log": O.concrete_records(m, v["imeta"], prefix="i"),
                "rewind_to": None if v["target"] is None else ev(v["target"]),
                "proof_of": [ev(b) for b in v["proof_bytes"]],
                "patch": patch}
        out["reports"].append(("server|event_patch|" + key, "%s [%s]" % (what, name), case))
        return False

    def unchanged(res, v, what, key):
        check(res, O.files_equal(v["pre_file"], v["post_file"]), "%s but the log file changed" % what, key + "|file changed")
        check(res, O.leaves_eq(v["mem_leaves"], v["pre_leaves"]), "%s but the in-memory tree changed" % what, key + "|tree changed")
        check(res, v["reopen"] == "Ok" and O.leaves_eq(v["reopen_leaves"] or [], v["pre_leaves"]),
              "%s but a restart does not read the previous log back" % what, key + "|restart differs")

    def on_result(res):
        out["states"] += 1
        out["kinds"][res.kind] = out["kinds"].get(res.kind, 0) + 1
        if res.kind == "untranslatable":
            k = "%s @ %s" % (res.err[0], str(res.err[1])[:200])
            out["gaps"][k] = out["gaps"].get(k, 0) + 1
            return
        if res.kind == "panic":
            out["obligations"] += 1
            out["reports"].append(("server|event_patch|panic|%s" % res.err[0], "panic %s in %s" % (res.err[0], name),
                                   {"op": "none", "scenario": sc, "what": "panic"}))
            return
        if res.kind != "ret":
            out["inconclusive"].append("%s: path ended with %s %r" % (name, res.kind, res.err))
            return
        v = res.value
        r = v["result"]
        pre = v["pre_leaves"]
        if sc.get("force"):
            nc = [m["commit"] for m in v["nmeta"]]
            pb = v["proof_bytes"]
            verified = to_bool(z3.And(*[b == c for b, c in zip(pb, nc)])) if len(pb) == len(nc) else False
            if r.variant == "Ok":
                check(res, verified, "forced replacement accepted although the checkpoint is not the head of the new events", "force|accepted wrong checkpoint")
                check(res, O.leaves_are(v["mem_leaves"], nc), "log after a forced replacement is not the new events", "force|wrong log")
            else:
                # not verified => nothing may have changed
                what = "forced replacement of the folder log refused"
                check(res, b_or(verified, O.files_equal(v["pre_file"], v["post_file"])), "%s but the log file changed" % what, "force refused|file changed")
                check(res, b_or(verified, O.leaves_eq(v["mem_leaves"], v["pre_leaves"])), "%s but the in-memory tree changed" % what, "force refused|tree changed")
                check(res, b_or(verified, v["reopen"] == "Ok" and O.leaves_eq(v["reopen_leaves"] or [], v["pre_leaves"])),
                      "%s but a restart does not read the previous log back" % what, "force refused|restart differs")
                # verified => the request must not fail after the replacement has been written
                check(res, b_not(verified), "forced replacement failed after the verified replacement had been written (the new events do not "
                      "reduce to a folder): error returned, log file replaced, the server keeps the old tree in memory", "force|failed after replacing")
            return
        if r.variant == "Ok":
            first = r.fields[0].v.fields[0].v if not sc.get("identity") else None   # (PatchResponse, MergeOutcome).0 or (CheckedPatch, Vec<_>).0
            if sc.get("identity"):
                cp = r.fields[0].v                      # Result<CheckedPatch>
            else:
                cp = first if sc.get("direct") else first.fields[0].v
            if cp.variant == "Success":
                # expected base: this log cut after the last occurrence of the target (or the whole log)
                pb = v["proof_bytes"]
                want = [m["commit"] for m in v["nmeta"]]
                mem = v["mem_leaves"]
                base_len = len(mem) - len(want)
                okc = False
                if 0 < base_len <= len(pre) or (base_len == len(pre)):
                    base = pre[:base_len]
                    c = O.leaves_are(mem[:base_len], [O.leaf_byte(x) for x in base])
                    c = M.b_and(c, O.leaves_are(mem[base_len:], want))
                    if len(pb) == base_len:
                        c = M.b_and(c, to_bool(z3.And(*[b == O.leaf_byte(x) for b, x in zip(pb, base)])))
                    else:
                        c = False
                    if v["target"] is not None and c is not False:
                        t = v["target"]
                        # the cut is after the LAST occurrence of the target
                        c = M.b_and(c, to_bool(O.leaf_byte(pre[base_len - 1]) == t))
                        for x in pre[base_len:]:
                            c = M.b_and(c, to_bool(O.leaf_byte(x) != t))
                    elif v["target"] is None and base_len != len(pre):
                        c = False
                    okc = c
                check(res, okc, "patch accepted but the log is not (log rewound to the requested commit, agreed as the base) + patch", "success|wrong log")
                check(res, v["reopen"] == "Ok" and O.leaves_eq(v["reopen_leaves"] or [], mem),
                      "restart after an accepted patch differs from memory", "success|restart differs")
            else:
                unchanged(res, v, "patch request answered with a conflict", "conflict")
        else:
            unchanged(res, v, "patch request failed with an error", "error")
        if len(out["samples"]) < 2:
            out["samples"].append({"scenario": sc, "result": r.variant, "memory_leaves": len(v["mem_leaves"]),
                                   "file_operations": v["steps"]})

    try:
        eng.explore(thunk, on_result=on_result)
    except Inconclusive as e:
        out["inconclusive"].append("%s: %s" % (name, e))
    st = eng.stats
    out["queries"] += st.queries
    out["solver_s"] += st.solver_s
    out["blocks"] = {prog.pretty(kk[1]): len(vv) for kk, vv in st.blocks_hit.items()}
    out["stubs"] = sorted(set(c.split("::<")[0][:80] for c in st.calls_modelled))
    out["cross"] = H.cross_end(_c0)
    return out


def confirm(case, nat):
    if nat.get("outcome") != "ok":
        return False
    what = case.get("what", "")
    res = nat.get("result", "")
    pl = nat.get("prefix_leaf")
    changed = nat["file_changed"] or nat["memory"] != nat["before"] or nat["reopened"] != nat["before"]
    if "forced replacement of the folder log refused" in what or "failed after the verified replacement" in what:
        return res.startswith("err") and changed
    if "forced replacement" in what:
        return False
    if "conflict" in what:
        return res == "conflict" and changed
    if "failed with an error" in what:
        return res.startswith("err") and changed
    if "restart after an accepted" in what:
        return res == "success" and nat["memory"] != nat["reopened"]
    if "patch accepted" in what:
        if res != "success":
            return False
        # recompute the expected log natively: before cut after the last occurrence of the target, + patch
        def leaf(b):
            return "%02x" % b + "11" * 31
        before = nat["before"]
        t = case.get("rewind_to")
        base = list(before)
        if t is not None:
            idx = max([i for i, x in enumerate(before) if x == leaf(t)], default=None)
            if idx is None:
                return True
            base = before[:idx + 1]
        want = base + [leaf(p["commit"]) for p in case["patch"]]
        agreed = base == [pl] + [leaf(b) for b in case["proof_of"]]
        return nat["memory"] != want or not agreed
    return False


if __name__ == "__main__":
    import sys
    from . import par
    tier = sys.argv[1] if len(sys.argv) > 1 else "quick"
    prog = H.load_program(CRATES, regenerate="--no-regen" not in sys.argv)
    scen = scenarios(tier)
    if "--one" in sys.argv:
        scen = scen[:1]
    t0 = time.time()
    for sc in scen:
        o = run_scenario(prog, sc)
        print(json.dumps({k: o[k] for k in ("entry", "states", "kinds", "obligations", "discharged", "gaps", "inconclusive")}, indent=1)[:3000])
        for r in o["reports"]:
            print("REPORT", r[0], r[1][:300])
    print("seconds", time.time() - t0)
