"""C06 (database backend, event-log level) — `DatabaseEventLog` over a model of the sqlite tables.

`<DatabaseEventLog<AccountEvent, E> as EventLog<AccountEvent>>::{load_tree, apply_records, rewind, clear}` and the
entity layer they call (`EventEntity::{insert_events, delete_one, delete_all_events, load_commits, find_all_query}`,
the row conversions) run from the MIR of sos-database over mirsym/sqlmodel.py: the statements are the ones the real
code builds, executed against a table that holds TWO co-resident logs (the log under test, owner id 1, and another
account's log, owner id 2, in the same `account_events` table) whose records have symbolic commit hashes from a small
pool, so byte-identical events occur within a log and across the two logs.

Obligations per path, decided by z3: after the operation (1) the tree a fresh instance loads from the table equals
the tree held in memory, (2) the rows of this log are exactly the expected ones in order (apply: old + new, rewind:
the prefix up to the target, clear: none), (3) the other log's rows are untouched.
"""
import json
import time
import z3

from mirsym import harness as H
from mirsym import models as M
from mirsym import merkle as MK
from mirsym import plumbing as PL      # noqa: F401
from mirsym import sqlmodel as SQL
from mirsym.models import ok, err, some, none, deref, future
from mirsym.engine import (Cell, Ref, Int, EnumV, Agg, VecV, Opaque, Inconclusive, Untranslatable, bz3, to_bool,
                           b_and, bytes_from_ints, deep_copy)

CRATES = ["sos_core", "sos_database"]
TABLE = "account_events"
LOG = "DatabaseEventLog<AccountEvent, Error>"
TRAIT = "<%s as EventLog<AccountEvent>>::" % LOG
POOL = 3


@SQL.model(r"^(sos_core::)?(date_time::)?UtcDateTime::to_rfc3339$")
def m_to_rfc3339(engine, ctx, args, callee, frame):
    """text form of a timestamp: opaque, carries the value (to_rfc3339 / parse_rfc3339 assumed inverse)"""
    return ok(Opaque("rfc3339", deep_copy(deref(args[0]))))


@SQL.model(r"^(sos_core::)?(date_time::)?UtcDateTime::parse_rfc3339$")
def m_parse_rfc3339(engine, ctx, args, callee, frame):
    v = deref(args[0])
    if isinstance(v, Opaque) and v.name == "rfc3339":
        return ok(deep_copy(v.payload))
    return err(Opaque("sos_core::Error", "invalid rfc3339"))


@SQL.model(r"^(sos_core::events::)?changes_feed(::<.*>)?$|^tokio::sync::watch::Sender::<.*>::send_replace$")
def m_changes_feed(engine, ctx, args, callee, frame):
    return Opaque("changes_feed")


def commit_value(cb):
    return Agg("struct", "CommitHash", [Cell(Agg("array", None, [Cell(Int(cb if j == 0 else 0x11, 8)) for j in range(32)]))])


def commit_bytes(cb):
    return bytes_from_ints([Int(cb if j == 0 else 0x11, 8) for j in range(32)])


def first_byte(v):
    b = M.as_bytes(None, deref(v)) if not isinstance(deref(v), Agg) else None
    if b is not None:
        return b.byte(0).z3()
    v = deref(v)
    while isinstance(v, Agg) and v.kind == "struct":
        v = v.fields[0].v
    return v.fields[0].v.z3()


def time_value(i):
    return Agg("struct", "UtcDateTime", [Cell(M.odt(Int(1700000000 + i, 64, True), Int(0, 32)))])


def sym_record(ctx, tag, i):
    c = z3.BitVec("%s_c" % tag, 8)
    ctx.add(z3.ULT(c, POOL))
    p = z3.BitVec("%s_p" % tag, 8)
    last = Agg("struct", "CommitHash", [Cell(Agg("array", None, [Cell(Int(0, 8)) for _ in range(32)]))])
    rec = Agg("struct", "EventRecord", [Cell(time_value(i)), Cell(last), Cell(commit_value(c)), Cell(bytes_from_ints([Int(p, 8)]))])
    return rec, c, p


def table_row(event_id, owner, i, c, p):
    return {"event_id": Int(event_id, 64, True), "account_id": Int(owner, 64, True),
            "created_at": Opaque("rfc3339", time_value(i)), "commit_hash": commit_bytes(c),
            "event": bytes_from_ints([Int(p, 8)])}


def new_log(eng, prog):
    tree = eng.call_named("CommitTree::new", [], None)
    aid = Agg("struct", "AccountId", [Cell(Agg("array", None, [Cell(Int(1, 8)) for _ in range(20)]))])
    owner = EnumV("EventLogOwner", "Account", prog.enum_variant("EventLogOwner", "Account"), [Cell(aid), Cell(Int(1, 64, True))])
    lt = EnumV("EventLogType", "Account", prog.enum_variant("EventLogType", "Account"), [])
    return Agg("struct", "DatabaseEventLog", [Cell(owner), Cell(Opaque("Client")), Cell(lt), Cell(tree),
                                              Cell(Agg("struct", "PhantomData", []))])


def call(eng, ctx, log_cell, method, args):
    fut = eng.call_named(TRAIT + method + "::<'_, '_>", [Ref(log_cell)] + list(args), None)
    return H.poll_to_result(eng, ctx, fut)


def leaves_of(log_value):
    mt = log_value.fields[3].v.fields[0].v
    return mt.leaves() or []


def run_scenario(prog, scen):
    k, j, op = scen["k"], scen["other"], scen["op"]
    name = "db k=%d other=%d %s%s" % (k, j, op, "" if scen.get("crash_at") is None else " crash@%d" % scen["crash_at"])
    out = {"entry": name, "states": 0, "queries": 0, "solver_s": 0.0, "obligations": 0, "discharged": 0,
           "inconclusive": [], "gaps": {}, "reports": [], "samples": [], "stubs": [], "kinds": {}}
    eng = H.new_engine(prog, loop_bound=64)

    def thunk(ctx):
        ctx.sha_bytes = False
        db = SQL.Db()
        db.pk[TABLE] = "event_id"
        rows = []
        mine, other = [], []
        eid = 0
        # interleave the two logs in the table: other, mine, other, mine ...
        for i in range(max(k, j)):
            if i < j:
                eid += 1
                c = z3.BitVec("o%d_c" % i, 8)
                ctx.add(z3.ULT(c, POOL))
                p = z3.BitVec("o%d_p" % i, 8)
                rows.append(table_row(eid, 2, 50 + i, c, p))
                other.append((eid, c, p))
            if i < k:
                eid += 1
                c = z3.BitVec("m%d_c" % i, 8)
                ctx.add(z3.ULT(c, POOL))
                p = z3.BitVec("m%d_p" % i, 8)
                rows.append(table_row(eid, 1, i, c, p))
                mine.append((eid, c, p))
        db.tables[TABLE] = rows
        ctx.db = db
        log = Cell(new_log(eng, prog))
        r = call(eng, ctx, log, "load_tree", [])
        if r.variant != "Ok":
            raise Inconclusive("load_tree failed on a well-formed table")
        res = {"mine": mine, "other": other, "op": op, "new": [], "target": None, "crashed": False}
        ctx.db.crash_at = None if scen.get("crash_at") is None else ctx.db.durability_points + scen["crash_at"]
        try:
            run_op(ctx, res, log)
        except SQL.CrashDB as c:
            res["crashed"] = str(c)
            res["result"] = None
        ctx.db.crash_at = None
        res["durability_points"] = ctx.db.durability_points
        finish(ctx, res, log)
        return res

    def run_op(ctx, res, log):
        mine = res["mine"]
        if op[0] == "apply":
            recs = []
            for n in range(op[1]):
                rec, c, p = sym_record(ctx, "n%d" % n, 100 + n)
                recs.append(rec)
                res["new"].append((c, p, 100 + n))
            res["result"] = call(eng, ctx, log, "apply_records", [VecV("EventRecord", [Cell(x) for x in recs])])
        elif op[0] in ("replace", "patch"):
            # a diff / patch of n new records against the head proof of an arbitrary log of m leaves from the pool
            recs = []
            for n in range(op[1]):
                rec, c, p = sym_record(ctx, "n%d" % n, 100 + n)
                recs.append(rec)
                res["new"].append((c, p, 100 + n))
            leaves = [z3.BitVec("q%d" % i, 8) for i in range(op[2])]
            for q in leaves:
                ctx.add(z3.ULT(q, POOL))
            res["proof_leaves"] = leaves
            from . import fsops as O
            proof = O.head_proof_of(eng, ctx, leaves)
            patch = Agg("struct", "Patch", [Cell(VecV("EventRecord", [Cell(x) for x in recs])), Cell(Agg("struct", "PhantomData", []))])
            res["before_leaves"] = [x for x in leaves_of(log.v)]
            if op[0] == "replace":
                diff = Agg("struct", "Diff", [Cell(patch), Cell(proof), Cell(M.none())])
                res["result"] = call(eng, ctx, log, "replace_all_events", [Ref(Cell(diff))])
            else:
                res["result"] = call(eng, ctx, log, "patch_checked", [Ref(Cell(proof)), Ref(Cell(patch))])
        elif op[0] == "rewind":
            t = z3.BitVec("target", 8)
            ctx.add(z3.ULE(t, POOL))          # POOL itself = a commit that is nowhere
            res["target"] = t
            res["result"] = call(eng, ctx, log, "rewind", [Ref(Cell(commit_value(t)))])
        else:
            res["result"] = call(eng, ctx, log, "clear", [])

    def finish(ctx, res, log):
        res["mem_leaves"] = [x for x in leaves_of(log.v)]
        fresh = Cell(new_log(eng, prog))
        r2 = call(eng, ctx, fresh, "load_tree", [])
        res["reload_ok"] = r2.variant == "Ok"
        res["disk_leaves"] = [x for x in leaves_of(fresh.v)] if res["reload_ok"] else []
        res["rows"] = [dict(r) for r in ctx.db.tables.get(TABLE, [])]
        # what the log streams back (real record_stream: statement, row conversion, channel)
        res["streamed"] = None
        if res["reload_ok"] and scen.get("crash_at") is None:
            st = H.poll_to_result(eng, ctx, eng.call_named(TRAIT + "record_stream::<'_, '_>", [Ref(fresh), False], None))
            items = M.find_stream(st).items
            res["streamed"] = [(it.variant, it.fields[0].v) for it in items]
        ctx.scen = res

    def decide(res, cond, what, key):
        out["obligations"] += 1
        if cond is True or (z3.is_expr(cond) and z3.is_true(z3.simplify(cond))):
            out["discharged"] += 1
            return True
        if cond is False:
            cond = z3.BoolVal(False)
        s = z3.SolverFor("QF_ABV")
        for c in res.pc:
            s.add(bz3(c))
        s.add(z3.Not(bz3(cond)))
        t = time.time()
        r = s.check()
        out["solver_s"] += time.time() - t
        out["queries"] += 1
        if r == z3.unsat:
            out["discharged"] += 1
            return True
        if r != z3.sat:
            out["inconclusive"].append("%s: solver unknown (%s)" % (name, what))
            return True
        m = s.model()
        sc = res.ctx.scen

        def ev(x):
            return m.eval(x, model_completion=True).as_long()
        case = {"op": "dblog_script", "what": what,
                "mine": [[ev(c), ev(p)] for _, c, p in sc["mine"]], "other": [[ev(c), ev(p)] for _, c, p in sc["other"]],
                "operation": list(op), "new": [[ev(c), ev(p)] for c, p, _ in sc["new"]],
                "proof_leaves": [ev(q) for q in sc.get("proof_leaves", [])],
                "target": ev(sc["target"]) if sc["target"] is not None else None,
                "scenario": {"k": k, "other": j, "op": list(op), "crash_at": scen.get("crash_at")}}
        out["reports"].append(("dblog|%s|%s" % (op[0], key), "%s: %s %s" % (name, what, json.dumps(case)[:300]), case))
        return False

    def crash_oracle(res, sc):
        """after dying before a durability point and restarting: the log is what it was before or what the
        operation produces, the other log is untouched, and it opens"""
        if not sc["crashed"]:
            out["kinds"]["crash point beyond the operation"] = out["kinds"].get("crash point beyond the operation", 0) + 1
            return
        mine, other = sc["mine"], sc["other"]
        rows = sc["rows"]
        my_rows = [x for x in rows if x["account_id"].v == 1]
        other_rows = [x for x in rows if x["account_id"].v == 2]
        key = "dbcrash|%s|" % op[0]
        decide(res, z3.BoolVal(sc["reload_ok"]), "after a crash during %s the log cannot be re-opened" % op[0], key + "reopen fails")
        same_other = len(other_rows) == len(other)
        decide(res, z3.BoolVal(same_other), "a crash during %s changed another log (%d -> %d rows)" % (op[0], len(other), len(other_rows)), key + "other log changed")

        def rows_are(exp):
            if len(my_rows) != len(exp):
                return z3.BoolVal(False)
            return z3.And(*[first_byte(x["commit_hash"]) == c for x, c in zip(my_rows, exp)]) if exp else z3.BoolVal(True)
        pre = [c for _, c, _ in mine]
        new = [c for c, _, _ in sc["new"]]
        if op[0] in ("apply", "patch"):
            post = rows_are(pre + new)
        elif op[0] == "clear":
            post = rows_are([])
        elif op[0] == "replace":
            post = rows_are(new)
        else:
            t = sc["target"]
            n = len(my_rows)
            post = z3.BoolVal(False)
            if 0 < n <= len(mine):
                post = z3.And(mine[n - 1][1] == t, *([mine[q][1] != t for q in range(n, len(mine))] + [rows_are(pre[:n])]))
        decide(res, z3.Or(rows_are(pre), post), "after a crash during %s the log is neither its state before nor after the operation (%d rows, had %d)" % (
            op[0], len(my_rows), len(mine)), key + "neither before nor after")

    def on_result(res):
        out["states"] += 1
        out["kinds"][res.kind] = out["kinds"].get(res.kind, 0) + 1
        if res.kind == "untranslatable":
            kk = "%s @ %s" % (res.err[0], str(res.err[1])[:200])
            out["gaps"][kk] = out["gaps"].get(kk, 0) + 1
            return
        if res.kind != "ret":
            out["inconclusive"].append("%s: path ended with %s %r" % (name, res.kind, res.err))
            return
        sc = res.value
        if scen.get("crash_at") is not None:
            crash_oracle(res, sc)
            return
        r = sc["result"]
        okr = r.variant == "Ok"
        mine, other = sc["mine"], sc["other"]
        rows = sc["rows"]
        my_rows = [x for x in rows if x["account_id"].v == 1]
        other_rows = [x for x in rows if x["account_id"].v == 2]
        # (3) the co-resident log is untouched
        same_other = len(other_rows) == len(other)
        cond = z3.BoolVal(same_other)
        if same_other:
            cond = z3.And(*[z3.And(z3.BoolVal(x["event_id"].v == e), first_byte(x["commit_hash"]) == c) for x, (e, c, p) in zip(other_rows, other)]) \
                if other else z3.BoolVal(True)
        decide(res, cond, "an operation on one log changed the rows of another log in the same table (%d -> %d rows)" % (len(other), len(other_rows)), "other log changed")
        # (1) reload == memory
        if not sc["reload_ok"]:
            decide(res, False, "the log cannot be re-opened after the operation", "reload fails")
            return
        ml, dl = sc["mem_leaves"], sc["disk_leaves"]
        if len(ml) != len(dl):
            decide(res, False, "tree in memory has %d leaves, the tree re-read from the table has %d" % (len(ml), len(dl)), "tree length differs")
        else:
            cond = z3.And(*[first_byte(a) == first_byte(b) for a, b in zip(ml, dl)]) if ml else z3.BoolVal(True)
            decide(res, cond, "tree in memory differs from the tree re-read from the table", "tree differs")
        # (2) expected rows of this log
        if op[0] == "apply":
            if not okr:
                decide(res, False, "apply_records fails on a well-formed log", "apply fails")
                return
            exp = [(c, p) for _, c, p in mine] + [(c, p) for c, p, _ in sc["new"]]
            if len(my_rows) != len(exp):
                decide(res, False, "after apply of %d records the log has %d rows, expected %d" % (len(sc["new"]), len(my_rows), len(exp)), "row count after apply")
            else:
                cond = z3.And(*[z3.And(first_byte(x["commit_hash"]) == c, M.as_bytes(None, x["event"]).byte(0).z3() == p) for x, (c, p) in zip(my_rows, exp)]) if exp else z3.BoolVal(True)
                decide(res, cond, "rows after apply are not the old rows followed by the new records", "rows after apply")
                ids = [x["event_id"].v for x in my_rows]
                decide(res, z3.BoolVal(ids == sorted(ids)), "event ids are not increasing in append order", "order after apply")
                # the records streamed back carry commit, payload and timestamp of what was appended, in order
                st = sc.get("streamed")
                if st is not None:
                    want = [(c, p, i) for i, (_, c, p) in enumerate(mine)] + [(c, p, tix) for c, p, tix in sc["new"]]
                    if len(st) != len(want) or any(v != "Ok" for v, _ in st):
                        decide(res, False, "record_stream yields %d records (%s) for %d rows" % (len(st), [v for v, _ in st], len(want)), "stream length")
                    else:
                        conds = []
                        for (_, rec), (c, p, tix) in zip(st, want):
                            conds.append(first_byte(rec.fields[2].v) == c)
                            conds.append(M.as_bytes(None, rec.fields[3].v).byte(0).z3() == p)
                            tv = rec.fields[0].v.fields[0].v          # UtcDateTime(OffsetDateTime)
                            conds.append(bz3(M.eq_formula(eng, tv, time_value(tix).fields[0].v, 8)))
                        decide(res, z3.And(*conds), "a record streamed back differs from what was appended (commit, payload or timestamp)", "streamed record differs")
        elif op[0] in ("replace", "patch"):
            new = sc["new"]
            ql = sc["proof_leaves"]
            unchanged_rows = len(my_rows) == len(mine)
            same_rows = z3.And(*[z3.And(first_byte(x["commit_hash"]) == c, z3.BoolVal(x["event_id"].v == e)) for x, (e, c, p) in zip(my_rows, mine)]) \
                if (unchanged_rows and mine) else z3.BoolVal(unchanged_rows)
            before = sc["before_leaves"]
            same_tree = z3.BoolVal(len(ml) == len(before))
            if len(ml) == len(before) and before:
                same_tree = z3.And(*[first_byte(a) == first_byte(b) for a, b in zip(ml, before)])
            if op[0] == "replace":
                # the checkpoint is the head of the log the diff claims to produce
                matches = z3.BoolVal(len(ql) == len(new)) if len(ql) != len(new) else \
                    (z3.And(*[q == c for q, (c, p, _) in zip(ql, new)]) if new else z3.BoolVal(True))
                if okr:
                    decide(res, matches, "replace_all_events succeeds although the checkpoint is not the head of the new events", "replace accepted on a wrong checkpoint")
                    exp_ok = len(my_rows) == len(new)
                    cond = z3.And(*[first_byte(x["commit_hash"]) == c for x, (c, p, _) in zip(my_rows, new)]) if (exp_ok and new) else z3.BoolVal(exp_ok)
                    decide(res, cond, "after replace_all_events the rows are not the new events", "rows after replace")
                else:
                    decide(res, z3.And(same_rows, same_tree), "a refused replace_all_events changed the log (rows %d -> %d, tree %d -> %d leaves)" % (
                        len(mine), len(my_rows), len(before), len(ml)), "refused replace changed the log")
            else:
                at_head = z3.BoolVal(len(ql) == len(mine)) if len(ql) != len(mine) else \
                    (z3.And(*[q == c for q, (e, c, p) in zip(ql, mine)]) if mine else z3.BoolVal(True))
                if not okr:
                    decide(res, z3.And(same_rows, same_tree), "a failed patch_checked changed the log", "failed patch changed the log")
                else:
                    accepted = r.fields[0].v.variant == "Success"
                    if accepted:
                        decide(res, at_head, "patch_checked appends although the checkpoint is not the head of this log", "patch accepted on a wrong base")
                        exp_ok = len(my_rows) == len(mine) + len(new)
                        decide(res, z3.BoolVal(exp_ok), "after an accepted patch the log has %d rows, expected %d" % (len(my_rows), len(mine) + len(new)), "rows after patch")
                    else:
                        decide(res, z3.Not(at_head), "patch_checked reports a conflict although the checkpoint is the head of this log", "patch refused on the agreed base")
                        decide(res, z3.And(same_rows, same_tree), "a refused patch_checked changed the log", "refused patch changed the log")
        elif op[0] == "clear":
            decide(res, z3.BoolVal(okr and len(my_rows) == 0), "clear leaves %d rows" % len(my_rows), "rows after clear")
        else:
            t = sc["target"]
            present = z3.Or(*[c == t for _, c, _ in mine]) if mine else z3.BoolVal(False)
            if not okr:
                # refused: the target is not in the log, nothing may change
                decide(res, z3.Not(present), "rewind to a commit that is in the log is refused", "rewind refused")
                same = len(my_rows) == len(mine)
                decide(res, z3.BoolVal(same), "a refused rewind changed the rows of the log (%d -> %d)" % (len(mine), len(my_rows)), "refused rewind changed rows")
                return
            decide(res, present, "rewind to a commit that is not in the log succeeds", "rewind of absent commit")
            # expected: the prefix up to and including the LAST occurrence of the target
            n = len(my_rows)
            if n == 0 or n > len(mine):
                decide(res, False, "after a rewind the log has %d rows (had %d)" % (n, len(mine)), "row count after rewind")
                return
            conds = [mine[n - 1][1] == t]
            conds += [mine[q][1] != t for q in range(n, len(mine))]
            conds += [z3.And(first_byte(x["commit_hash"]) == c, z3.BoolVal(x["event_id"].v == e)) for x, (e, c, p) in zip(my_rows, mine[:n])]
            decide(res, z3.And(*conds), "after a rewind the rows are not the prefix that ends at the last occurrence of the target", "rows after rewind")
        if not out["samples"]:
            out["samples"].append({"scenario": name, "result": r.variant, "rows_of_this_log": len(my_rows), "rows_of_other_log": len(other_rows)})

    try:
        eng.explore(thunk, on_result=on_result)
    except Inconclusive as e:
        out["inconclusive"].append("%s: %s" % (name, e))
    st = eng.stats
    out["queries"] += st.queries
    out["solver_s"] += st.solver_s
    out["blocks"] = {prog.pretty(kk[1]): len(vv) for kk, vv in st.blocks_hit.items()}
    out["stubs"] = sorted(set(c.split("::<")[0][:80] for c in st.calls_modelled))
    return out


def scenarios(tier):
    mx = 2 if tier == "quick" else 3
    out = []
    for k in range(0, mx + 1):
        for j in (0, 1, 2) if tier != "quick" else (0, 2):
            out.append({"k": k, "other": j, "op": ("apply", 1)})
            out.append({"k": k, "other": j, "op": ("apply", 2)})
            if k > 0:
                out.append({"k": k, "other": j, "op": ("rewind",)})
            out.append({"k": k, "other": j, "op": ("clear",)})
    if tier == "quick":
        # the smallest log in which a rewind removes a record whose twin stays: [A, B, A'] rewound to B
        out.append({"k": 3, "other": 0, "op": ("rewind",)})
    return out


def scenarios_c07(tier):
    """refusal paths on the database backend: replace_all_events and patch_checked against arbitrary checkpoints"""
    mx = 2 if tier == "quick" else 3
    out = []
    for k in range(0, mx + 1):
        for n in (1, 2):
            for m in sorted(set([n, max(1, n - 1), k] if k else [n, max(1, n - 1)])):
                if m >= 1:
                    out.append({"k": k, "other": 1, "op": ("replace", n, m)})
        if k >= 1:
            for m in sorted(set([k, max(1, k - 1), k + 1])):
                out.append({"k": k, "other": 1, "op": ("patch", 1, m)})
    return out


def scenarios_c13(tier):
    """die before the j-th durability point (commit / autocommitted statement) of each operation"""
    mx = 2 if tier == "quick" else 3
    out = []
    for k in range(1, mx + 1):
        for opx in (("apply", 2), ("rewind",), ("clear",), ("replace", 2, 2)):
            for j in range(0, 3):
                out.append({"k": k, "other": 1, "op": opx, "crash_at": j})
    if tier == "quick":
        # a rewind that removes two records: the smallest case in which dying between two deletions shows
        for j in range(0, 3):
            out.append({"k": 3, "other": 1, "op": ("rewind",), "crash_at": j})
    return out
