"""C02 — a folder equals the replay of its own event log (reducer <-> vault-operation kernel).

One inductive step, decided by z3 for every value of the symbolic arguments: take an
arbitrary log L = CreateVault(header) . e1 .. en (n <= bound, symbolic arguments), let
V = build(reduce(L)) (so the premise "the vault equals the replay of its log" holds by
construction), apply ONE in-memory vault operation with arbitrary arguments (the real
`EncryptedEntry for Vault` methods, from MIR) obtaining V' and the event it reports, and
require build(reduce(L . event)) == V'.  Also: for every k, `new_until_commit(commit_k)`
yields the fold of the first k+1 events.
"""
import itertools
import json
import os
import time
import z3

from .common import Check, Replayer
from . import par
from . import vaultlib as V
from mirsym import harness as H
from mirsym import models as M
from mirsym.engine import (Cell, Ref, Int, EnumV, Agg, VecV, Inconclusive, Untranslatable, bz3, deep_copy)

PROP = "C02"
CRATES = ["sos_core", "sos_vault", "sos_reducers"]
OPS = ["set_name", "set_flags", "set_meta", "insert", "update", "delete"]


def apply_op(eng, ctx, vault_cell, op):
    """run one EncryptedEntry operation on the vault; returns the event (or None)"""
    vref = Ref(vault_cell)
    T = "<Vault as EncryptedEntry>::"
    if op == "set_name":
        fut = eng.call_named(T + "set_vault_name", [vref, V.ascii_string(ctx, "op_name", 2)], None)
    elif op == "set_flags":
        fut = eng.call_named(T + "set_vault_flags", [vref, V.sym_flags(eng, ctx, "op_flags")], None)
    elif op == "set_meta":
        fut = eng.call_named(T + "set_vault_meta", [vref, V.sym_aead(ctx, "op_meta")], None)
    else:
        vc = V.sym_commit(ctx, "op_v")
        commit, entry = vc.fields[0].v, vc.fields[1].v
        idv = V.sym_uuid(ctx, "op_id")
        if op == "insert":
            fut = eng.call_named(T + "insert_secret", [vref, idv, commit, entry], None)
        elif op == "update":
            fut = eng.call_named(T + "update_secret", [vref, Ref(Cell(idv)), commit, entry], None)
        else:
            fut = eng.call_named(T + "delete_secret", [vref, Ref(Cell(idv))], None)
    r = V.unwrap(H.poll_to_result(eng, ctx, fut), "vault operation " + op)
    if isinstance(r, EnumV) and r.ty == "Option":
        return r.fields[0].v if r.variant == "Some" else None
    return r


def concrete_op(op, m):
    if op == "set_name":
        return {"op": op, "name": V._str(m, "op_name", 2)}
    if op == "set_flags":
        return {"op": op, "bits": V._bv(m, "op_flags", 64)}
    if op == "set_meta":
        return {"op": op, "aead": V._aead(m, "op_meta")}
    if op in ("insert", "update"):
        return {"op": op, "id": V._bv(m, "op_id", 8), "value": V._commit(m, "op_v")}
    return {"op": op, "id": V._bv(m, "op_id", 8)}


def run_shape(prog, shape):
    with_meta, kinds, op = shape
    name = "header%s.%s => %s" % ("+meta" if with_meta else "", ".".join(kinds) or "()", op)
    out = {"entry": name, "states": 0, "queries": 0, "solver_s": 0.0, "obligations": 0, "discharged": 0,
           "inconclusive": [], "gaps": {}, "reports": [], "samples": [], "stubs": [], "kinds": {}}
    eng = H.new_engine(prog, loop_bound=64)
    _c0 = H.cross_begin()

    def thunk(ctx):
        v0 = V.base_vault(eng, ctx, with_meta)
        ev0 = V.create_event(eng, ctx, v0)
        events = [ev0] + [V.sym_event(eng, ctx, k, "e%d" % i) for i, k in enumerate(kinds)]
        vault = Cell(V.build(eng, ctx, V.reduce_log(eng, ctx, events)))
        ev = apply_op(eng, ctx, vault, op)
        new_events = events + ([ev] if ev is not None else [])
        replayed = V.build(eng, ctx, V.reduce_log(eng, ctx, new_events))
        # time travel: reducing until commit k == reducing the first k+1 events
        tt = []
        if op == "set_name":        # once per log shape is enough
            for k in range(len(events)):
                until = deep_copy(V.record(k).fields[2].v)
                a = V.build(eng, ctx, V.reduce_log(eng, ctx, events, until=until))
                b = V.build(eng, ctx, V.reduce_log(eng, ctx, events[:k + 1]))
                tt.append((k, a, b))
        return (vault.v, replayed, ev is not None, tt)

    def check(res, cond, what):
        out["obligations"] += 1
        if cond is True:
            out["discharged"] += 1
            return
        s = z3.SolverFor("QF_ABV")
        for c in res.pc:
            s.add(bz3(c))
        s.add(z3.Not(bz3(cond)))
        t = time.time()
        r = s.check()
        out["solver_s"] += time.time() - t
        if not H.cross_check(s, r, what if "what" in dir() else ""):
            out["inconclusive"].append("second solver disagrees: %s" % H.CROSS["disagree"][-1])
        out["queries"] += 1
        if r == z3.unsat:
            out["discharged"] += 1
            return
        if r != z3.sat:
            out["inconclusive"].append("%s: solver unknown (%s)" % (name, what))
            return
        m = s.model()
        out["reports"].append(("step|%s|%s" % (op, what), "%s: %s" % (name, what),
                               {"op": "vault_step", "with_meta": with_meta, "kinds": list(kinds), "what": what,
                                "header_concrete": V.concrete_header(m, with_meta),
                                "events_concrete": [V.concrete_event(k, "e%d" % i, m) for i, k in enumerate(kinds)],
                                "operation": concrete_op(op, m)}))

    def on_result(res):
        out["states"] += 1
        out["kinds"][res.kind] = out["kinds"].get(res.kind, 0) + 1
        if res.kind == "untranslatable":
            k = "%s @ %s" % (res.err[0], str(res.err[1])[:200])
            out["gaps"][k] = out["gaps"].get(k, 0) + 1
            return
        if res.kind != "ret":
            out["inconclusive"].append("%s: path ended with %s %r" % (name, res.kind, res.err))
            return
        after, replayed, has_event, tt = res.value
        n1, f1, m1, c1 = V.vault_parts(after)
        n2, f2, m2, c2 = V.vault_parts(replayed)
        check(res, M.eq_formula(eng, n1, n2), "name of the operated vault differs from the replayed log")
        check(res, M.eq_formula(eng, f1, f2), "flags of the operated vault differ from the replayed log")
        check(res, M.eq_formula(eng, m1, m2), "meta of the operated vault differs from the replayed log")
        check(res, M.eq_formula(eng, c1, c2), "secrets of the operated vault differ from the replayed log")
        for k, a, b in tt:
            pa, pb = V.vault_parts(a), V.vault_parts(b)
            cond = True
            for x, y in zip(pa, pb):
                cond = M.b_and(cond, M.eq_formula(eng, x, y))
            check(res, cond, "new_until_commit(commit %d) differs from the fold of the first %d events" % (k, k + 1))
        if not out["samples"]:
            mm = H.witness_for(res)
            if mm is not None:
                out["samples"].append({"shape": name, "operation": concrete_op(op, mm), "event_emitted": has_event})

    try:
        eng.explore(thunk, on_result=on_result)
    except Inconclusive as e:
        out["inconclusive"].append("%s: %s" % (name, e))
    st = eng.stats
    out["queries"] += st.queries
    out["solver_s"] += st.solver_s
    out["blocks"] = {prog.pretty(kk[1]): len(vv) for kk, vv in st.blocks_hit.items()}
    out["stubs"] = sorted(set(c.split("::<")[0][:80] for c in st.calls_modelled))
    out["cross"] = H.cross_end(_c0)
    return out


def run(tier, regenerate=True):
    chk = Check(PROP, tier)
    max_n = 2 if tier == "quick" else 3
    chk.bounds = {"prior_events": max_n, "operations": OPS, "secret_id_pool": 2}
    prog = H.load_program(CRATES, regenerate=regenerate)
    chk.extra["mir_regeneration_s"] = prog.timings
    shapes = []
    for wm in (False, True):
        for n in range(0, max_n + 1):
            for kinds in itertools.product(V.KINDS, repeat=n):
                for op in OPS:
                    shapes.append((wm, kinds, op))
    only = os.environ.get("VERIF_ONLY")
    if only:
        shapes = [s for s in shapes if only in ("%s=>%s" % (".".join(s[1]), s[2]))]
    results = par.map_entries(lambda s: run_shape(prog, s), shapes)
    rep = None
    blocks = {}
    for out in results:
        if isinstance(out, Exception) or out is None:
            chk.inconclusive.append("worker failed: %r" % (out,))
            continue
        chk.add_cross(out)
        chk.states += out["states"]
        chk.transitions += out["queries"]
        chk.solver_s += out["solver_s"]
        chk.obligations += out["obligations"]
        chk.discharged += out["discharged"]
        chk.inconclusive.extend(out["inconclusive"])
        chk.stubs.update(out["stubs"])
        if len(chk.samples) < 6:
            chk.samples.extend(out["samples"])
        for kk, n in out["gaps"].items():
            chk.gaps[kk] = chk.gaps.get(kk, 0) + n
        for kk, n in out.get("blocks", {}).items():
            blocks[kk] = max(blocks.get(kk, 0), n)
        for key, desc, case in out["reports"]:
            if rep is None:
                rep = Replayer("dev")
                rep.build()
            nat = rep.run(case)
            if confirmed(case, nat):
                chk.replays_ok += 1
                chk.report(key, desc + "; native: " + json.dumps(nat)[:400], case)
            else:
                chk.replays_bad += 1
                chk.inconclusive.append("not reproduced natively: %s :: %s" % (desc, json.dumps(nat)[:300]))
    if rep is not None:
        rep.close()
    chk.functions = {kk: {"mir_blocks_executed": v} for kk, v in sorted(blocks.items())}
    # ---- the merge path: <Folder as FolderMerge>::merge replays received events onto the served folder and the index
    from . import merge_replay as MR
    mprog = H.load_program(MR.CRATES, regenerate=regenerate)
    chk.extra["mir_regeneration_s"].update(mprog.timings)
    msh = MR.shapes(tier)
    chk.bounds["merge_replay"] = {"patches": len(msh), "events_per_patch_max": 2 if tier == "quick" else 3,
                                  "quick_slice": "plus three-event patches touching one id three times",
                                  "well_formed": "create of a non-live id, update/delete of a live id, rename, re-flag; merged into an empty folder"}
    mres = par.map_entries(lambda s: MR.run_shape(mprog, s), msh)
    MR.collect(chk, mres, "C02")
    chk.assumptions = [
        "kernels: the in-memory EncryptedEntry operations of Vault and FolderReducer, and the checked-merge replay "
        "<Folder as FolderMerge>::merge over a harness access point (map id -> secret, decryption = identity) and a "
        "harness event log (patch_checked accepts or conflicts nondeterministically); force merges, the vault mirror on "
        "disk or in sqlite and encryption are outside this check",
        "one inductive step from every log of <= %d events after CreateVault (ids from a pool of two)" % max_n,
    ]
    return chk.finish(rule="one state = one path of build(reduce(L)); op; build(reduce(L.event)) for one log shape and one operation")


def confirmed(case, nat):
    if nat.get("outcome") != "ok":
        return False
    if "new_until_commit" in case["what"]:
        return bool(nat.get("time_travel_mismatch"))
    return nat.get("operated") != nat.get("replayed")


def replay(path):
    case = json.load(open(path))
    if case.get("op") == "model_only":
        from . import merge_replay as MR
        if MR.replay_model(case, PROP):
            print("VIOLATION property=%s replay=%s" % (PROP, path))
            return 1
        return 0
    rep = Replayer("dev")
    nat = rep.run(case)
    rep.close()
    print(json.dumps(nat))
    if confirmed(case, nat):
        print("VIOLATION property=%s replay=%s" % (PROP, path))
        return 1
    return 0
