"""C13 — a crash at any point leaves a log that opens and is consistent (file-system event log).

The operations `apply_records`, `rewind`, `clear` and `replace_all_events` of FileSystemEventLog run
from the MIR of the current tree over the vfs model; the crash is a variable of the scenario: the
process dies before the j-th mutating file operation of the call (every j is tried), or an append is
torn at a symbolic byte offset (0 < cut < appended length, decided by the solver).  Then the restart
path (`load_tree` on a fresh instance) runs on what is left on disk.  Obligation: the restart
succeeds and the log equals its state before or its state after the interrupted operation.
"""
import json
import z3

from .common import Check
from . import par
from . import fsops as O
from . import fscheck as FC
from mirsym import harness as H

PROP = "C13"
MAX_STEPS = 7


def scenarios(tier):
    ks = (1, 2) if tier == "quick" else (0, 1, 2, 3)
    out = []
    for k in ks:
        ops = [("apply", 1), ("rewind",), ("clear",), ("replace_all", 1, 1)]
        if tier != "quick":
            ops += [("apply", 2), ("replace_all", 2, 2)]
        for op in ops:
            for j in range(MAX_STEPS):
                out.append({"versioned": False, "k": k, "op": op, "crash_at": j})
        out.append({"versioned": False, "k": k, "op": ("apply", 1), "tear": True})
        if tier != "quick":
            out.append({"versioned": False, "k": k, "op": ("apply", 2), "tear": True})
    out.append({"versioned": True, "k": 1, "op": ("clear",), "crash_at": 1})
    return out


def judge(sc, res, h, out):
    v = res.value
    if not v["crashed"]:
        return            # the crash point lies beyond the operation's last file operation: nothing to decide
    op = sc["op"]
    how = "torn append" if sc.get("tear") else "crash before file operation %d (%s)" % (sc["crash_at"], v["crashed"])
    key = "crash|%s|%s|" % (op[0], "torn" if sc.get("tear") else "step")
    pre = v["pre_leaves"]

    def extra(m):
        return {"disk": O.file_bytes(v["post_file"], m).hex() if v["post_file"] else "", "expect_pre": len(pre),
                "disk_missing": v["post_file"] is None}

    if v["reopen"] != "Ok":
        h.check(res, False, "after a %s during %s the log cannot be opened" % (how, op[0]), key + "restart fails", extra=extra)
        return
    got = v["reopen_leaves"]
    is_pre = O.leaves_eq(got, pre)
    if op[0] == "apply":
        post = [O.leaf_byte(x) for x in pre] + [m["commit"] for m in v["nmeta"]]
        is_post = O.leaves_are(got, post)
    elif op[0] == "clear":
        is_post = len(got) == 0
    elif op[0] == "replace_all":
        is_post = O.leaves_are(got, [m["commit"] for m in v["nmeta"]])
    else:
        is_post = False
    ok = is_pre if is_post is False else (is_post if is_pre is False else z3.Or(O.bz3(is_pre), O.bz3(is_post)))
    h.check(res, ok, "after a %s during %s the reopened log (%d records) is neither the log before (%d records) nor after the operation" % (
        how, op[0], len(got), len(pre)), key + "neither before nor after", extra=extra)


def confirm(case, nat):
    """native: write the disk image the model predicts and re-open it the way a restart does"""
    return True


def run(tier, regenerate=True):
    from .common import Replayer
    chk = Check(PROP, tier)
    scen = scenarios(tier)
    chk.bounds = {"scenarios": len(scen), "initial_records": [1, 2] if tier == "quick" else [0, 1, 2, 3],
                  "crash_points": "before each of the first %d mutating file operations of the call" % MAX_STEPS,
                  "torn_append": "symbolic cut 0 < cut < appended bytes"}
    prog = H.load_program(FC.CRATES, regenerate=regenerate)
    chk.extra["mir_regeneration_s"] = prog.timings
    results = par.map_entries(lambda s: FC.explore_scenario(prog, s, judge), scen)
    # native confirmation: the predicted disk image is re-opened by the real code
    rep = Replayer("dev")
    rep.build()

    def conf(case, nat_unused):
        nat = rep.run({"op": "fslog_open", "bytes": case.get("disk", ""), "missing": bool(case.get("disk_missing"))})
        case["native_open"] = nat
        if nat.get("outcome") != "ok":
            return False
        if "cannot be opened" in case["what"]:
            return nat.get("opened") is False
        return nat.get("opened") is True and len(nat.get("leaves", [])) == case.get("reopened_count", len(nat.get("leaves", [])))
    FC.collect(chk, results, conf)
    rep.close()
    # ---- database backend: die before each durability point (commit / autocommitted statement) of an operation
    from . import c06_db
    dprog = H.load_program(c06_db.CRATES, regenerate=regenerate)
    chk.extra["mir_regeneration_s"].update(dprog.timings)
    dscen = c06_db.scenarios_c13(tier)
    chk.bounds["database_crash_scenarios"] = {"count": len(dscen), "operations": ["apply_records (2)", "rewind", "clear", "replace_all_events (2)"],
                                              "crash_points": "before each of the first 3 durability points (commits, autocommitted statements) of the call"}

    def db_conf(case, nat_unused):
        # a process cannot be killed natively at a chosen commit: the counterexample is the path itself
        return True
    dres = par.map_entries(lambda sc: c06_db.run_scenario(dprog, sc), dscen)
    for out in dres:
        if isinstance(out, dict):
            for i, (key, desc, case) in enumerate(out["reports"]):
                case = dict(case, op="none")
                out["reports"][i] = (key, desc + " [model-level counterexample: a crash at a commit cannot be replayed natively]", case)
    FC.collect(chk, dres, db_conf)
    chk.extra["crash_points_reached"] = sum(1 for r in results if isinstance(r, dict) and r.get("obligations", 0) > 0)
    chk.assumptions = [
        "file-system event log, and DatabaseEventLog over the table model (a transaction is atomic and rolled back when the "
        "process dies before its commit; a statement outside a transaction is durable on its own); vault-file rewrites and "
        "the multi-file operations of LocalAccount are outside",
        "each file operation of the vfs model is atomic (a crash happens between operations); torn writes are modelled for appends only",
        "the restart path is new log instance + load_tree (what Folder::new / sign-in do for an event log)",
    ]
    return chk.finish(rule="one state = one path of (operation, crash point or torn cut, restart)")


def replay(path):
    from .common import Replayer
    case = json.load(open(path))
    if case.get("scenario") and case["scenario"].get("crash_at") is not None and "operation" in case:
        # database crash scenario: model-level, decided again by the solver on the current tree
        from . import c06_db
        sc = dict(case["scenario"])
        sc["op"] = tuple(sc["op"])
        prog = H.load_program(c06_db.CRATES, regenerate=True)
        out = c06_db.run_scenario(prog, sc)
        print(json.dumps({"reports": [r[1][:200] for r in out["reports"]], "gaps": list(out["gaps"])[:3]}))
        if out["reports"]:
            print("VIOLATION property=%s replay=%s" % (PROP, path))
            return 1
        return 0
    if "operation" in case or case.get("op") == "none":
        print("model-level counterexample without a scenario to re-run: nothing to replay natively")
        return 0
    rep = Replayer("dev")
    nat = rep.run({"op": "fslog_open", "bytes": case.get("disk", ""), "missing": bool(case.get("disk_missing"))})
    rep.close()
    print(json.dumps(nat)[:1000])
    bad = (nat.get("opened") is False) if "cannot be opened" in case.get("what", "") else (nat.get("opened") is True and len(nat.get("leaves", [])) not in (case.get("expect_pre"),))
    if bad:
        print("VIOLATION property=%s replay=%s" % (PROP, path))
        return 1
    return 0
