"""Scenario runner for the file-system event log over the vfs model (used by C06 per-operation,
C07 and C13).  A scenario = a log holding k records (symbolic times, commits from a small pool so
that byte-identical events occur, symbolic payload), then ONE operation executed from the MIR of
`FileSystemEventLog` (optionally with a crash before the j-th mutating file operation or a torn
append), then a restart (`load_tree` on a fresh instance over the same file)."""
import json
import time
import z3

from . import fslog as F
from mirsym import harness as H
from mirsym import models as M
from mirsym import vfs as VF
from mirsym import merkle as MK
from mirsym.engine import (Cell, Ref, Int, EnumV, Agg, VecV, Opaque, Inconclusive, Untranslatable, PathEnd, bz3 as _bz3,
                           int_binop, bz3, bytes_from_ints, deep_copy, to_bool, b_and)

ABSENT = 9          # a commit byte outside the pool


def commit_hash(cbyte):
    return Agg("struct", "CommitHash", [Cell(Agg("array", None, [Cell(Int(cbyte if j == 0 else 0x11, 8)) for j in range(32)]))])


def leaf_byte(leaf):
    """first byte (the only varying one) of a [u8;32] leaf value -> z3 expr"""
    x = leaf.fields[0].v if isinstance(leaf, Agg) else leaf
    return x.z3() if hasattr(x, "z3") else x


def head_proof_of(eng, ctx, cbytes):
    """head proof of a tree whose leaves are commit hashes with the given first bytes (z3 exprs / ints)"""
    tree = Cell(eng.call_named("CommitTree::new", [], None))
    vec = Cell(VecV("[u8; 32]", [Cell(Agg("array", None, [Cell(Int(c if j == 0 else 0x11, 8)) for j in range(32)])) for c in cbytes]))
    eng.call_named("CommitTree::append", [Ref(tree), Ref(vec)], None)
    eng.call_named("CommitTree::commit", [Ref(tree)], None)
    r = eng.call_named("CommitTree::head", [Ref(tree)], None)
    if r.variant != "Ok":
        raise Inconclusive("head of a non-empty tree failed")
    return r.fields[0].v


def new_log(eng, ctx, versioned):
    log = F.new_log(eng, ctx)
    if versioned:
        ident = eng.eval_const(None, "sos_core::constants::ACCOUNT_EVENT_LOG_IDENTITY")
        log.fields[4].v = Ref(Cell(ident))
        ver = eng.eval_const(None, "sos_core::encoding::VERSION")
        log.fields[5].v = M.some(ver)
    return log


def new_vfs(eng, ctx, versioned):
    vfs = VF.Vfs()
    data = VF.FileData()
    if versioned:
        ident = eng.eval_const(None, "sos_core::constants::ACCOUNT_EVENT_LOG_IDENTITY")
        ver = eng.eval_const(None, "sos_core::encoding::VERSION")
        bs = [c.v for c in ident.fields] + M.le_bytes(ver, 2)
    else:
        bs = [c.v for c in F.identity_bytes(eng).fields]
    for i, b in enumerate(bs):
        data.arr = z3.Store(data.arr, z3.BitVecVal(i, 64), b.z3())
    data.length = Int(len(bs), 64)
    vfs.files[F.PATH] = data
    ctx.vfs = vfs
    return vfs, len(bs)


def new_vfs_header(eng, vfs, versioned):
    data = VF.FileData()
    if versioned:
        ident = eng.eval_const(None, "sos_core::constants::ACCOUNT_EVENT_LOG_IDENTITY")
        ver = eng.eval_const(None, "sos_core::encoding::VERSION")
        bs = [c.v for c in ident.fields] + M.le_bytes(ver, 2)
    else:
        bs = [c.v for c in F.identity_bytes(eng).fields]
    for i, b in enumerate(bs):
        data.arr = z3.Store(data.arr, z3.BitVecVal(i, 64), b.z3())
    data.length = Int(len(bs), 64)
    vfs.files[F.PATH] = data
    return data, len(bs)


def records(ctx, prefix, n):
    recs, metas = [], []
    for i in range(n):
        r, m = F.sym_record(ctx, "%s%d" % (prefix, i))
        recs.append(r)
        metas.append(m)
    return recs, metas


def vec(recs):
    return VecV("EventRecord", [Cell(deep_copy(x)) for x in recs])


def file_snapshot(vfs):
    d = vfs.files.get(F.PATH)
    return None if d is None else (d.arr, d.length)


def files_equal(a, b):
    """z3 condition that two snapshots hold the same bytes (concrete lengths)"""
    if a is None or b is None:
        return a is None and b is None
    (arr1, l1), (arr2, l2) = a, b
    if not (l1.concrete and l2.concrete):
        return to_bool(z3.And(l1.z3() == l2.z3(), arr1 == arr2))
    if l1.v != l2.v:
        return False
    c = True
    for i in range(l1.v):
        idx = z3.BitVecVal(i, 64)
        c = b_and(c, to_bool(z3.Select(arr1, idx) == z3.Select(arr2, idx)))
        if c is False:
            return False
    return c


def file_bytes(snap, model):
    arr, ln = snap
    n = ln.v if ln.concrete else model.eval(ln.z3(), model_completion=True).as_long()
    return bytes(model.eval(z3.Select(arr, z3.BitVecVal(i, 64)), model_completion=True).as_long() for i in range(min(n, 4096)))


def run_scenario(eng, ctx, sc):
    """sc: dict(versioned, k, op, crash_at=None, tear=False) -> result dict"""
    vfs, header_len = new_vfs(eng, ctx, sc["versioned"])
    log = Cell(new_log(eng, ctx, sc["versioned"]))
    init, imeta = records(ctx, "i", sc["k"])
    if init:
        r = F.call(eng, ctx, log, "apply_records", [vec(init)])
        if r.variant != "Ok":
            raise Inconclusive("initial apply_records failed")
    pre_leaves, _ = F.tree_state(eng, F.tree_of(log.v))
    pre_file = file_snapshot(vfs)
    pre_steps = vfs.steps
    res = {"header_len": header_len, "imeta": imeta, "pre_leaves": list(pre_leaves), "pre_file": pre_file,
           "nmeta": [], "op_result": None, "crashed": False, "target": None, "proof_bytes": None}
    op = sc["op"]
    vfs.crash_at = None if sc.get("crash_at") is None else pre_steps + sc["crash_at"]
    vfs.tear = bool(sc.get("tear"))
    try:
        if op[0] == "apply":
            new, nmeta = records(ctx, "n", op[1])
            res["nmeta"] = nmeta
            res["op_result"] = F.call(eng, ctx, log, "apply_records", [vec(new)])
        elif op[0] == "rewind":
            t = z3.BitVec("target", 8)
            ctx.add(z3.Or(z3.ULT(t, 3), t == ABSENT))
            res["target"] = t
            res["op_result"] = F.call(eng, ctx, log, "rewind", [Ref(Cell(commit_hash(t)))])
        elif op[0] == "clear":
            res["op_result"] = F.call(eng, ctx, log, "clear", [])
        elif op[0] == "patch_checked":
            nb, n = op[1], op[2]
            pb = [z3.BitVec("b%d" % i, 8) for i in range(nb)]
            for b in pb:
                ctx.add(z3.ULT(b, 3))
            res["proof_bytes"] = pb
            proof = head_proof_of(eng, ctx, pb)
            new, nmeta = records(ctx, "n", n)
            res["nmeta"] = nmeta
            patch = Agg("struct", "Patch", [Cell(vec(new)), Cell(Agg("struct", "PhantomData", []))])
            res["op_result"] = F.call(eng, ctx, log, "patch_checked", [Ref(Cell(proof)), Ref(Cell(patch))])
        elif op[0] == "replace_all":
            nb, n = op[1], op[2]
            pb = [z3.BitVec("b%d" % i, 8) for i in range(nb)]
            for b in pb:
                ctx.add(z3.ULT(b, 3))
            res["proof_bytes"] = pb
            proof = head_proof_of(eng, ctx, pb)
            new, nmeta = records(ctx, "n", n)
            res["nmeta"] = nmeta
            patch = Agg("struct", "Patch", [Cell(vec(new)), Cell(Agg("struct", "PhantomData", []))])
            diff = Agg("struct", "Diff", [Cell(patch), Cell(proof), Cell(M.none())])
            res["op_result"] = F.call(eng, ctx, log, "replace_all_events", [Ref(Cell(diff))])
        else:
            raise ValueError(op)
    except VF.Crash as c:
        res["crashed"] = str(c)
    res["steps"] = vfs.steps - pre_steps
    res["vfs_log"] = list(vfs.log)
    vfs.crash_at = None
    vfs.tear = False
    res["post_file"] = file_snapshot(vfs)
    res["mem_leaves"] = list(F.tree_state(eng, F.tree_of(log.v))[0])
    # restart: `new_folder` / `new_account` first run initialize_event_log, which creates the file when it is
    # missing and writes the header when it is empty
    d = vfs.files.get(F.PATH)
    res["disk_missing"] = d is None
    if d is None or (d.length.concrete and d.length.v == 0):
        _, _ = new_vfs_header(eng, vfs, sc["versioned"])
    log2 = Cell(new_log(eng, ctx, sc["versioned"]))
    r2 = F.call(eng, ctx, log2, "load_tree", [])
    res["reopen"] = r2.variant
    res["reopen_leaves"] = list(F.tree_state(eng, F.tree_of(log2.v))[0]) if r2.variant == "Ok" else None
    res["files"] = sorted(vfs.files)
    if sc.get("then_apply") and not res["crashed"]:
        # a second operation on the same (live) log, then another restart
        more, mmeta = records(ctx, "m", sc["then_apply"])
        res["mmeta"] = mmeta
        r3 = F.call(eng, ctx, log, "apply_records", [vec(more)])
        res["then_apply_result"] = r3.variant
        log3 = Cell(new_log(eng, ctx, sc["versioned"]))
        r4 = F.call(eng, ctx, log3, "load_tree", [])
        res["then_reopen"] = r4.variant
        got = list(F.tree_state(eng, F.tree_of(log3.v))[0]) if r4.variant == "Ok" else []
        mem = list(F.tree_state(eng, F.tree_of(log.v))[0])
        res["then_ok"] = leaves_eq(got, mem) is True or (r4.variant == "Ok" and len(got) == len(mem))
    return res


def leaves_eq(a, b):
    """z3 condition: two leaf lists are equal"""
    if len(a) != len(b):
        return False
    c = True
    for x, y in zip(a, b):
        c = b_and(c, to_bool(leaf_byte(x) == leaf_byte(y)))
    return c


def leaves_are(a, cbytes):
    if len(a) != len(cbytes):
        return False
    c = True
    for x, y in zip(a, cbytes):
        c = b_and(c, to_bool(leaf_byte(x) == y))
    return c


def concrete_records(m, metas, plen=1, prefix=None):
    out = []
    for i, x in enumerate(metas):
        out.append({"secs": m.eval(x["secs"], model_completion=True).as_signed_long(),
                    "nanos": m.eval(x["nanos"], model_completion=True).as_long(),
                    "commit": m.eval(x["commit"], model_completion=True).as_long(),
                    "payload": "%02x" % (m.eval(z3.BitVec("%s%d_p0" % (prefix, i), 8), model_completion=True).as_long()) if prefix else ""})
    return out


def native_script(sc, res, m):
    """the scenario as a script for the native driver (concrete values from model m)"""
    steps = []
    if sc["k"]:
        steps.append({"apply": concrete_records(m, res["imeta"], prefix="i")})
    op = sc["op"]
    if op[0] == "apply":
        steps.append({"apply": concrete_records(m, res["nmeta"], prefix="n")})
    elif op[0] == "rewind":
        steps.append({"rewind": m.eval(res["target"], model_completion=True).as_long()})
    elif op[0] == "clear":
        steps.append({"clear": 1})
        if sc.get("then_apply"):
            steps.append({"apply": concrete_records(m, res.get("mmeta", []), prefix="m")})
    elif op[0] == "patch_checked":
        steps.append({"patch_checked": {"proof_of": [m.eval(b, model_completion=True).as_long() for b in res["proof_bytes"]],
                                        "records": concrete_records(m, res["nmeta"], prefix="n")}})
    elif op[0] == "replace_all":
        steps.append({"replace_all": {"checkpoint_of": [m.eval(b, model_completion=True).as_long() for b in res["proof_bytes"]],
                                      "records": concrete_records(m, res["nmeta"], prefix="n")}})
    return {"op": "fslog_script", "versioned": sc["versioned"], "steps": steps}
bz3 = _bz3
