"""C02 / C20, merge path — `<Folder as FolderMerge>::merge` (crates/storage/client/src/folder_sync.rs).

When a device receives events made elsewhere, this function appends them to the folder's event log
(`patch_checked`) and then *replays them by hand* onto the served folder (the access point) and onto the search
index — a code path separate from local edits.  It runs here from the MIR of sos-client-storage together with the
real `SearchIndex::{prepare, commit, remove}` / `DocumentCount` from sos-search.  The patch is every well-formed
sequence of events (create of an id that is not live, update / delete of a live id, rename, re-flag) over two
secret ids, merged into an empty folder with an empty index; each created / updated secret carries symbolic
kind, tags and favourite flag.  Harness stubs: the event log is a record list whose `patch_checked` accepts or
conflicts nondeterministically; the access point is a map id -> secret whose `decrypt_secret` hands back the
meta data the harness attached to the event (encryption is outside); `decode_event` returns the event of a record.

Obligations per path (patch accepted):
  C02  the served folder holds exactly the ids a replay of the log yields, each with the meta data of the LAST
       create / update of that id, and the last name / flags set; the log holds old + patch; the events returned
       are the patch's events in order;
  C20  the index holds exactly one document per live secret of this folder, carrying the current kind / tags /
       favourite flag; per-folder, per-kind, per-tag and favourites counters equal a recount.
On a conflict nothing changed.
"""
import itertools
import json
import re as _re
import time
import z3

from . import c20 as C20
from mirsym import harness as H
from mirsym import models as M
from mirsym.models import ok, err, some, none, deref, future, pin_box, LockV
from mirsym.engine import (Cell, Ref, Int, EnumV, Agg, VecV, Opaque, Inconclusive, Untranslatable, bz3, deep_copy,
                           unit, bytes_from_concrete)

CRATES = ["sos_core", "sos_vault", "sos_search", "sos_client_storage"]
FOLDER = 5


def model(pattern):
    def deco(f):
        M.MODELS.insert(0, (_re.compile(pattern), f))
        return f
    return deco


class World:
    cur = None


def b0(u):
    x = deref(u)
    while isinstance(x, Agg) and x.kind == "struct" and len(x.fields) == 1 and not (isinstance(x.fields[0].v, Agg) and x.fields[0].v.kind == "array"):
        x = x.fields[0].v
    return x.fields[0].v.fields[0].v.v


def record(i):
    def h(x):
        return Agg("struct", "CommitHash", [Cell(Agg("array", None, [Cell(Int(x if j == 0 else 0xEE, 8)) for j in range(32)]))])
    t = Agg("struct", "UtcDateTime", [Cell(M.odt(Int(1700000000 + i, 64, True), Int(0, 32)))])
    return Agg("struct", "EventRecord", [Cell(t), Cell(h(i)), Cell(h(i + 1)), Cell(bytes_from_concrete(bytes([i])))])


def rec_index(r):
    return deref(r).fields[2].v.fields[0].v.fields[0].v.v - 1


def vault_commit(tag):
    h = Agg("array", None, [Cell(Int(tag if i == 0 else 0, 8)) for i in range(32)])
    return Agg("struct", "VaultCommit", [Cell(Agg("struct", "CommitHash", [Cell(h)])), Cell(Opaque("VaultEntry", tag))])


@model(r"^(sos_backend::)?Folder::event_log$")
def m_folder_event_log(engine, ctx, args, callee, frame):
    return Ref(Cell(World.cur["log_lock"]))


@model(r"^(sos_backend::)?Folder::access_point$")
def m_folder_access_point(engine, ctx, args, callee, frame):
    return Ref(Cell(World.cur["ap_lock"]))


@model(r"as (sos_core::events::)?EventLog<.*>>::patch_checked(::<.*>)?$")
def m_patch_checked(engine, ctx, args, callee, frame):
    w = World.cur
    prog = engine.program

    def run():
        accept = ctx.fresh_bool("patch_accepted")
        if ctx.branch(accept):
            p = deref(args[2])
            for c in p.fields[0].v.items:
                w["log"].append(rec_index(c.v))
            w["accepted"] = True
            return ok(EnumV("CheckedPatch", "Success", prog.enum_variant("CheckedPatch", "Success"), [Cell(Opaque("CommitProof"))]))
        w["accepted"] = False
        return ok(EnumV("CheckedPatch", "Conflict", prog.enum_variant("CheckedPatch", "Conflict"),
                        [Cell(Opaque("CommitProof")), Cell(none())]))
    return pin_box(future(callee, run))


@model(r"^(sos_core::events::)?EventRecord::decode_event::<WriteEvent>$")
def m_decode_event(engine, ctx, args, callee, frame):
    w = World.cur
    i = rec_index(args[0])
    w["decoded"].append(i)
    return future(callee, lambda: ok(deep_copy(w["events"][i])))


@model(r"^<(sos_backend::)?AccessPoint as (sos_vault::)?SecretAccess>::(\w+)(::<.*>)?$")
def m_access_point(engine, ctx, args, callee, frame):
    w = World.cur
    meth = _re.search(r"SecretAccess>::(\w+)", callee).group(1)
    v = w["vault"]

    def run():
        if meth == "decrypt_secret":
            tag = deref(args[1]).fields[0].v.fields[0].v.fields[0].v.v
            w["last_tag"] = tag
            return ok(Agg("tuple", "tuple", [Cell(deep_copy(w["metas"][tag])), Cell(deep_copy(w["secret"]))]))
        if meth == "create_secret":
            row = deref(args[1])
            sid = b0(row.fields[0].v)
            v["ops"].append(("create", sid, w.get("last_tag")))
            v["secrets"][sid] = (w.get("last_tag"), deep_copy(row.fields[1].v))
            return ok(Opaque("WriteEvent", "create"))
        if meth == "update_secret":
            sid = b0(args[1])
            v["ops"].append(("update", sid, w.get("last_tag")))
            if sid in v["secrets"]:
                v["secrets"][sid] = (w.get("last_tag"), deep_copy(deref(args[2])))
                return ok(some(Opaque("WriteEvent", "update")))
            return ok(none())
        if meth == "delete_secret":
            sid = b0(args[1])
            v["ops"].append(("delete", sid, None))
            if v["secrets"].pop(sid, None) is not None:
                return ok(some(Opaque("WriteEvent", "delete")))
            return ok(none())
        if meth == "set_vault_name":
            v["name"] = args[1]
            return ok(Opaque("WriteEvent", "name"))
        if meth == "set_vault_flags":
            v["flags"] = args[1]
            return ok(Opaque("WriteEvent", "flags"))
        raise Untranslatable("access point method %s" % meth)
    return pin_box(future(callee, run))


def op_choices():
    out = [("name", None), ("flags", None)]
    for i in (0, 1):
        out += [("create", i), ("update", i), ("delete", i)]
    return out


def well_formed(ops):
    live = set()
    for k, i in ops:
        if k == "create":
            if i in live:
                return False
            live.add(i)
        elif k == "update":
            if i not in live:
                return False
        elif k == "delete":
            if i not in live:
                return False
            live.discard(i)
    return True


def shapes(tier):
    out = []
    mx = 2 if tier == "quick" else 3
    for n in range(1, mx + 1):
        for ops in itertools.product(op_choices(), repeat=n):
            if well_formed(ops):
                out.append(tuple(ops))
    if tier == "quick":
        # the three-event patches in which one id is created, then touched twice more
        for a in ("update", "delete"):
            for b in ("update", "delete", "create"):
                ops = (("create", 0), (a, 0), (b, 0))
                if well_formed(ops):
                    out.append(ops)
        out.append((("create", 0), ("create", 1), ("delete", 0)))
        out.append((("create", 0), ("create", 1), ("update", 1)))
    return out


def find_merge(prog):
    for key, fn in prog.fns.items():
        nm = prog.pretty(fn.name)
        if nm == "<Folder as FolderMerge>::merge" and "{closure" not in fn.name:
            return fn
    return None


def run_shape(prog, ops):
    name = "merge " + " ".join("%s%s" % (k, "" if i is None else "(%d)" % i) for k, i in ops)
    out = {"entry": name, "states": 0, "queries": 0, "solver_s": 0.0, "obligations": 0, "discharged": 0,
           "inconclusive": [], "gaps": {}, "reports": [], "samples": [], "stubs": [], "kinds": {}}
    eng = H.new_engine(prog, loop_bound=64)

    def thunk(ctx):
        idx = Cell(eng.call_named("SearchIndex::new", [], None))
        secret = eng.call_named("<Secret as Default>::default", [], None)
        events, metas, attrs = {}, {}, {}
        for n, (k, i) in enumerate(ops):
            if k in ("create", "update"):
                wide = len(ops) <= 2
                meta, a = C20.make_meta(eng, ctx, "op%d" % n, prog, sym_kind=wide or k == "create", sym_tag=wide)
                # searchable text: an update may keep the label of the secret or change it
                if k == "create" or ctx.branch(z3.Bool("op%d_same_label" % n)):
                    meta.fields[2].v = bytes_from_concrete(("L%d" % i).encode(), utf8=True)
                    a["label"] = "L%d" % i
                else:
                    a["label"] = "Lop%d" % n
                metas[n] = meta
                attrs[n] = a
                var = "CreateSecret" if k == "create" else "UpdateSecret"
                events[n] = EnumV("WriteEvent", var, prog.enum_variant("WriteEvent", var), [Cell(C20.uuid(i)), Cell(vault_commit(n))])
            elif k == "delete":
                events[n] = EnumV("WriteEvent", "DeleteSecret", prog.enum_variant("WriteEvent", "DeleteSecret"), [Cell(C20.uuid(i))])
            elif k == "name":
                events[n] = EnumV("WriteEvent", "SetVaultName", prog.enum_variant("WriteEvent", "SetVaultName"),
                                  [Cell(bytes_from_concrete(("N%d" % n).encode(), utf8=True))])
            else:
                events[n] = EnumV("WriteEvent", "SetVaultFlags", prog.enum_variant("WriteEvent", "SetVaultFlags"),
                                  [Cell(eng.call_named("_::<impl VaultFlags>::from_bits_truncate", [Int(n + 1, 64)], None))])
        w = {"log": [], "log_lock": LockV(Opaque("BackendEventLog")), "ap_lock": LockV(Opaque("AccessPoint")),
             "events": events, "metas": metas, "secret": secret, "decoded": [], "accepted": None,
             "vault": {"name": None, "flags": None, "secrets": {}, "ops": []}}
        World.cur = w
        patch = Agg("struct", "Patch", [Cell(VecV("EventRecord", [Cell(record(n)) for n in range(len(ops))])), Cell(Agg("struct", "PhantomData", []))])
        diff = Cell(Agg("struct", "Diff", [Cell(patch), Cell(Opaque("CommitProof")), Cell(none())]))
        d = prog.enum_variant("FolderMergeOptions", "Search")
        opts = EnumV("FolderMergeOptions", "Search", d, [Cell(C20.uuid(FOLDER)), Cell(Ref(idx))])
        fn = find_merge(prog)
        if fn is None:
            raise Untranslatable("no MIR for <Folder as FolderMerge>::merge")
        me = Cell(Agg("struct", "Folder", [Cell(Opaque("access_point")), Cell(Opaque("events"))]))
        fut = eng.run_fn(fn, [Ref(me), Ref(diff), opts], None)
        r = H.poll_to_result(eng, ctx, fut)
        return (r, w, idx.v, attrs)

    def bad(what, detail, key):
        out["reports"].append(("merge|" + key, "%s: %s (%s)" % (name, what, detail),
                               {"op": "model_only", "what": what, "patch": [list(o) for o in ops], "detail": detail}))

    def ob(cond, what, detail, key):
        out["obligations"] += 1
        if cond:
            out["discharged"] += 1
        else:
            bad(what, detail, key)

    def on_result(res):
        out["states"] += 1
        out["kinds"][res.kind] = out["kinds"].get(res.kind, 0) + 1
        if res.kind == "untranslatable":
            k = "%s @ %s" % (res.err[0], str(res.err[1])[:200])
            out["gaps"][k] = out["gaps"].get(k, 0) + 1
            return
        if res.kind == "panic":
            ob(False, "the merge replay panics", str(res.err)[:200], "panic")
            return
        if res.kind != "ret":
            out["inconclusive"].append("%s: path ended with %s %r" % (name, res.kind, res.err))
            return
        r, w, index, attrs = res.value
        v = w["vault"]
        text_index, docs, stats = index.fields[0].v, index.fields[1].v, index.fields[2].v
        count = stats.fields[0].v
        vaults, kinds, tags, favs = count.fields[0].v, count.fields[1].v, count.fields[2].v, count.fields[3].v
        have = sorted((C20.uuid_b0(k.fields[1].v), C20.uuid_b0(k.fields[2].v)) for k, _ in docs.entries)
        if r.variant != "Ok":
            ob(False, "the merge fails on a well-formed patch", repr(r)[:200], "fails")
            return
        cp = r.fields[0].v.fields[0].v
        returned = r.fields[0].v.fields[1].v
        if cp.variant != "Success":
            ob(not w["log"] and not v["ops"] and not have and v["name"] is None and v["flags"] is None,
               "a refused merge changed the folder, the log or the index", "log=%s vault ops=%s docs=%s" % (w["log"], v["ops"], have), "conflict changed state")
            ob(len(returned.items) == 0, "a refused merge reports events as applied", "%d events" % len(returned.items), "conflict reports events")
            return
        # oracle: replay of the log (= the patch, in order)
        live, lname, lflags = {}, None, None
        for n, (k, i) in enumerate(ops):
            if k == "create" or k == "update":
                live[i] = n
            elif k == "delete":
                live.pop(i, None)
            elif k == "name":
                lname = n
            else:
                lflags = n
        ob(w["log"] == list(range(len(ops))), "the log does not hold the patch records in order", "log=%s" % w["log"], "log differs")
        # C02: served folder == replay
        got = {sid: tag for sid, (tag, _) in v["secrets"].items()}
        ob(got == live, "C02: the served folder differs from the replay of its log after a merge",
           "served id->event %s, replay id->event %s, access point calls %s" % (got, live, v["ops"]), "served folder differs from replay")
        for sid, (tag, meta) in v["secrets"].items():
            if live.get(sid) == tag and tag in attrs:
                a = attrs[tag]
                g = (meta.fields[0].v.variant, len(meta.fields[3].v.items) > 0, meta.fields[4].v is True)
                ob(g == (a["kind"], bool(a["tag"]), bool(a["favorite"])), "C02: the served secret does not carry the merged meta data",
                   "id %d got %s want %s" % (sid, g, a), "served meta differs")
        nm = None if v["name"] is None else bytes(M.as_bytes(eng, v["name"]).concrete_bytes()).decode() if hasattr(M.as_bytes(eng, v["name"]), "concrete_bytes") else "?"
        if nm != "?":
            ob(nm == (None if lname is None else "N%d" % lname), "C02: the served folder name differs from the replay", "name=%s want N%s" % (nm, lname), "name differs")
        ob((v["flags"] is None) == (lflags is None), "C02: folder flags not applied by the merge", "flags set=%s" % (v["flags"] is not None), "flags differ")
        ob(len(returned.items) == len(ops), "the merge does not return one event per patch record", "%d of %d" % (len(returned.items), len(ops)), "returned events")
        # C20: index == live set of this folder, current attributes, counters == recount
        want_docs = sorted((FOLDER, i) for i in live)
        ob(have == want_docs, "C20: index documents differ from the live secrets after a merge", "documents=%s live=%s" % (have, want_docs), "documents differ")
        stale = []
        for k, c in docs.entries:
            sid = C20.uuid_b0(k.fields[2].v)
            if sid in live:
                a = attrs[live[sid]]
                meta = c.v.fields[2].v
                g = (meta.fields[0].v.variant, len(meta.fields[3].v.items) > 0, meta.fields[4].v is True)
                if g != (a["kind"], bool(a["tag"]), bool(a["favorite"])):
                    stale.append((sid, g, (a["kind"], a["tag"], a["favorite"])))
        ob(not stale, "C20: a document does not carry its secret's current kind / tags / favourite flag after a merge", "stale=%s" % stale, "stale document")
        kind_u8 = {a["kind"]: a["kind_u8"] for a in attrs.values()}
        rec_v, rec_k, rec_t, rec_f = {}, {}, {}, 0
        for k, c in docs.entries:
            d = c.v
            f = C20.uuid_b0(d.fields[0].v)
            meta = d.fields[2].v
            rec_v[f] = rec_v.get(f, 0) + 1
            kd = kind_u8.get(meta.fields[0].v.variant)
            rec_k[kd] = rec_k.get(kd, 0) + 1
            for t in meta.fields[3].v.items:
                rec_t["t"] = rec_t.get("t", 0) + 1
            if meta.fields[4].v is True:
                rec_f += 1
        got_v = {C20.uuid_b0(k): c.v.v for k, c in vaults.entries}
        got_k = {k.v: c.v.v for k, c in kinds.entries}
        got_t = {"t": c.v.v for k, c in tags.entries}
        for what, g, wnt in (("per-folder", got_v, rec_v), ("per-kind", got_k, rec_k), ("per-tag", got_t, rec_t)):
            keys = set(g) | set(wnt)
            ob(not any(g.get(k, 0) != wnt.get(k, 0) for k in keys), "C20: %s counters differ from a recount after a merge" % what,
               "counters=%s recount=%s" % (g, wnt), "%s counters" % what)
        ob(favs.concrete and favs.v == rec_f, "C20: favourites counter differs from a recount after a merge", "counter=%s recount=%d" % (favs, rec_f), "favourites counter")
        tkeys = sorted((C20.uuid_b0(k.fields[0].v), C20.uuid_b0(k.fields[1].v)) for k in text_index.keys)
        ob(tkeys == have, "C20: text index keys differ from the documents after a merge", "text=%s documents=%s" % (tkeys, have), "text keys")
        if not out["samples"]:
            out["samples"].append({"patch": name, "served": got, "documents": have, "access_point_calls": v["ops"]})

    try:
        eng.explore(thunk, on_result=on_result)
    except Inconclusive as e:
        out["inconclusive"].append("%s: %s" % (name, e))
    st = eng.stats
    out["queries"] += st.queries
    out["solver_s"] += st.solver_s
    out["blocks"] = {prog.pretty(kk[1]): len(vv) for kk, vv in st.blocks_hit.items()}
    out["stubs"] = sorted(set(c.split("::<")[0][:80] for c in st.calls_modelled))
    return out


def collect(chk, results, prefix):
    """merge the outputs into a Check; only obligations whose text starts with `prefix` (C02 / C20) or is common
    to both become violations of that property.  Counterexamples are model-level (FolderMerge is a private trait):
    the replay command re-decides the scenario."""
    blocks = {}
    for out in results:
        if isinstance(out, Exception) or out is None:
            chk.inconclusive.append("worker failed: %r" % (out,))
            continue
        chk.states += out["states"]
        chk.transitions += out["queries"]
        chk.solver_s += out["solver_s"]
        chk.obligations += out["obligations"]
        chk.discharged += out["discharged"]
        chk.inconclusive.extend(out["inconclusive"])
        chk.stubs.update(out["stubs"])
        if len(chk.samples) < 8:
            chk.samples.extend(out["samples"])
        for kk, n in out["gaps"].items():
            chk.gaps[kk] = chk.gaps.get(kk, 0) + n
        for kk, n in out.get("blocks", {}).items():
            blocks[kk] = max(blocks.get(kk, 0), n)
        other = "C20" if prefix == "C02" else "C02"
        for key, desc, case in out["reports"]:
            if (other + ":") in desc:
                # the other property's obligation: reported by that property's check
                chk.obligations -= 1
                continue
            if any(k == key for k, _, _ in chk.violations):
                continue
            case = dict(case, tier=chk.tier, prop=prefix)
            chk.replays_ok += 0
            chk.report(key, desc + "; model-level counterexample (private trait; replay re-decides the scenario)", case)
    for kk, v in sorted(blocks.items()):
        chk.functions.setdefault(kk, {"mir_blocks_executed": v})


def replay_model(case, prop):
    """re-run the patch of a recorded counterexample against the current tree"""
    prog = H.load_program(CRATES, regenerate=True)
    ops = tuple((k, i) for k, i in case["patch"])
    out = run_shape(prog, ops)
    other = "C20" if prop == "C02" else "C02"
    hits = [r for r in out["reports"] if (other + ":") not in r[1]]
    for r in hits[:5]:
        print("model:", r[1][:400])
    return bool(hits)


if __name__ == "__main__":
    import sys
    from . import par
    tier = sys.argv[1] if len(sys.argv) > 1 else "quick"
    prog = H.load_program(CRATES, regenerate="--no-regen" not in sys.argv)
    sh = shapes(tier)
    if "--one" in sys.argv:
        sh = [(("create", 0), ("update", 0))]
    t0 = time.time()
    res = par.map_entries(lambda s: run_shape(prog, s), sh)
    tot = [0, 0]
    for o in res:
        if isinstance(o, Exception):
            print("EXC", o)
            continue
        tot[0] += o["obligations"]
        tot[1] += o["discharged"]
        if o["gaps"] or o["inconclusive"] or o["reports"] or "--one" in sys.argv:
            print(o["entry"], o["states"], o["kinds"], o["obligations"], o["discharged"], list(o["gaps"])[:3], o["inconclusive"][:2])
            for r in o["reports"][:4]:
                print("   REPORT", r[0], r[1][:300])
    print("shapes", len(sh), "obligations", tot, "seconds", time.time() - t0)
