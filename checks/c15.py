"""C15 — malformed bytes are rejected with an error, never a crash.

Every decoder entry point is executed symbolically (from the MIR of the current tree)
over an input buffer of symbolic length and content.  The assertions are: no path ends
in a panic; every allocation request is bounded by 16 MiB or proportional to the input;
no loop runs past the bound without consuming input.  Counterexamples are replayed
against the natively built crates before they are reported.
"""
import time
import z3

from .common import Check, Replayer
from mirsym import harness as H
from mirsym import models as M
from mirsym.engine import (Cell, Ref, Int, EnumV, Inconclusive, int_binop, bz3, b_and, b_or, b_not,
                           to_bool)

PROP = "C15"

# (entry kind, crate, type name, replay op)
DECODERS = [
    ("sos_core", "EventKind"), ("sos_core", "UtcDateTime"), ("sos_core", "CommitHash"),
    ("sos_core", "Comparison"), ("sos_core", "AeadPack"), ("sos_core", "Cipher"),
    ("sos_core", "KeyDerivation"), ("sos_core", "VaultEntry"), ("sos_core", "VaultCommit"),
    ("sos_core", "WriteEvent"), ("sos_core", "AccountEvent"), ("sos_core", "DeviceEvent"),
    ("sos_core", "FileEvent"), ("sos_core", "EventRecord"),
    ("sos_core", "CommitProof"), ("sos_core", "CommitState"),
]

ELEM_SIZE = {"u8": 1, "u16": 2, "u32": 4, "u64": 8, "usize": 8, "i64": 8, "[u8; 32]": 32}
MAX_OK_ALLOC = 16 * 1024 * 1024


def site_key(prog, err):
    msg, site, kind = err
    fn = site[0] if site else None
    return "site=%s|%s|%s" % (prog.pretty(fn), kind, (msg or "").strip())


def decode_thunk(eng, ty, max_len):
    def thunk(ctx):
        inp = H.SymInput(ctx, max_len)
        ctx.inp = inp
        rd = Cell(inp.reader())
        val = Cell(M.default_value(eng, ctx, ty, None))
        fut = eng.call_named("<%s as binary_stream::futures::Decodable>::decode::<'_, '_, '_, R>" % ty,
                             [Ref(val), Ref(rd)], None)
        r = H.poll_to_result(eng, ctx, fut)
        return (r, val.v)
    return thunk


def alloc_violation(res, ev):
    """z3 condition under which the allocation request `ev` is out of proportion"""
    size = ev["size"]
    esz = ELEM_SIZE.get(ev.get("elem", "u8"), 1)
    if isinstance(size, Int) and size.concrete:
        total = size.v * esz
        if total <= MAX_OK_ALLOC:
            return None
        sz = z3.BitVecVal(total, 128)
    else:
        sz = z3.ZeroExt(128 - size.bits, size.z3()) * z3.BitVecVal(esz, 128)
    n = res.ctx.inp.n
    lim = z3.ZeroExt(64, n) * z3.BitVecVal(8, 128) + z3.BitVecVal(64, 128)
    return z3.And(z3.UGT(sz, z3.BitVecVal(MAX_OK_ALLOC, 128)), z3.UGT(sz, lim))


def run(tier, regenerate=True):
    chk = Check(PROP, tier)
    max_len = 64 if tier == "quick" else 200
    chk.bounds = {"input_length_max": max_len, "loop_bound": 48, "input": "symbolic length, unconstrained bytes"}
    prog = H.load_program(["sos_core"], regenerate=regenerate)
    chk.extra["mir_regeneration_s"] = prog.timings
    rep = Replayer("dev")
    rep.build()
    t_all = time.time()
    for crate, ty in DECODERS:
        eng = H.new_engine(prog, loop_bound=48)
        entry = "decode:%s" % ty
        t0 = time.time()
        try:
            results = eng.explore(decode_thunk(eng, ty, max_len))
        except Inconclusive as e:
            chk.inconclusive.append("%s: %s" % (entry, e))
            continue
        st = eng.stats
        chk.states += len(results)
        chk.transitions += st.queries
        chk.solver_s += st.solver_s
        kinds = {}
        n_valid = 0
        for res in results:
            kinds[res.kind] = kinds.get(res.kind, 0) + 1
            if res.kind == "infeasible":
                continue
            if res.kind == "untranslatable":
                chk.gap(res.err[0], entry)
                continue
            if res.kind == "bound":
                chk.gap("bound: %s" % (res.err[0] if isinstance(res.err, tuple) else res.err), entry)
                continue
            # obligation 1: no panic
            chk.obligations += 1
            m = H.witness_for(res)
            if m is None:
                chk.inconclusive.append("%s: no witness for a feasible path" % entry)
                continue
            data = res.ctx.inp.witness(m)
            case = {"op": "decode", "ty": ty, "bytes": data.hex()}
            nat = rep.run(case)
            if res.kind == "panic":
                key = site_key(prog, res.err)
                if nat["outcome"] in ("panic", "abort"):
                    chk.replays_ok += 1
                    desc = "%s panics on %d input bytes %s: %s" % (entry, len(data), data.hex()[:48], nat.get("detail"))
                    chk.report(key, desc, dict(case, expect="no panic", native=nat))
                else:
                    chk.replays_bad += 1
                    chk.inconclusive.append("%s: engine predicts panic %r but native run says %r (input %s)" % (
                        entry, res.err[0], nat, data.hex()))
                continue
            chk.discharged += 1
            # differential validation of the translator on this path
            want = "ok" if res.value[0].variant == "Ok" else "err"
            if nat["outcome"] == want:
                chk.replays_ok += 1
                n_valid += 1
            else:
                chk.replays_bad += 1
                chk.inconclusive.append("%s: engine says %s, native says %r for input %s" % (entry, want, nat, data.hex()))
            # obligation 2: allocations in proportion
            for kind, ev in res.events:
                if kind != "alloc":
                    continue
                chk.obligations += 1
                cond = alloc_violation(res, ev)
                if cond is None:
                    chk.discharged += 1
                    continue
                m2 = H.witness_for(res, cond)
                chk.transitions += 1
                if m2 is None:
                    chk.discharged += 1
                    continue
                data2 = res.ctx.inp.witness(m2)
                case2 = {"op": "decode", "ty": ty, "bytes": data2.hex()}
                nat2 = rep.run(case2)
                big = nat2.get("max_single_alloc", 0)
                if nat2["outcome"] == "abort" or (big > MAX_OK_ALLOC and big > 8 * len(data2) + 64):
                    chk.replays_ok += 1
                    key = "site=%s|alloc|%s" % (prog.pretty(ev.get("site")), ev.get("what"))
                    desc = "%s requests a single allocation of %s bytes for a %d-byte input %s" % (
                        entry, big, len(data2), data2.hex()[:48])
                    chk.report(key, desc, dict(case2, expect="allocation <= 16MiB or proportional", native=nat2))
                else:
                    chk.replays_bad += 1
                    chk.inconclusive.append("%s: engine predicts oversized allocation, native max_single_alloc=%s (input %s)" % (
                        entry, big, data2.hex()))
        blocks = sum(len(v) for v in st.blocks_hit.values())
        chk.functions[entry] = {"paths": len(results), "outcomes": kinds, "queries": st.queries,
                                "mir_bodies_executed": len(st.blocks_hit), "mir_blocks_executed": blocks,
                                "validated_natively": n_valid, "seconds": round(time.time() - t0, 2)}
        for c in st.calls_modelled:
            chk.stubs.add(c.split("::<")[0][:80])
        if results and len(chk.samples) < 12:
            for res in results:
                if res.kind == "ret":
                    m = H.witness_for(res)
                    if m is not None:
                        chk.samples.append({"entry": entry, "outcome": res.value[0].variant,
                                            "input": res.ctx.inp.witness(m).hex()})
                        break
    rep.close()
    chk.assumptions = [
        "single-poll executor: every leaf future completes on first poll (no interleaving modelled)",
        "BinaryReader/BinaryWriter, std collections, time and uuid are the models listed under stubs",
        "input length <= %d bytes; loops unrolled <= 48 iterations per activation" % max_len,
        "panics are checked for the dev profile (overflow checks on)",
    ]
    return chk.finish(rule="one state = one explored path of an entry function over the symbolic input; "
                           "transitions = solver queries; every path's witness is replayed natively")


def replay(path):
    import json
    case = json.load(open(path))
    rep = Replayer("dev")
    nat = rep.run(case)
    rep.close()
    print(json.dumps(nat))
    bad = nat["outcome"] in ("panic", "abort") or nat.get("max_single_alloc", 0) > MAX_OK_ALLOC
    if bad:
        print("VIOLATION property=%s replay=%s" % (PROP, path))
        return 1
    return 0
