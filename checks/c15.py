"""C15 — malformed bytes are rejected with an error, never a crash.

Every decoder / reader entry point is executed symbolically (from the MIR of the current
tree) over an input buffer of symbolic length and content.  The assertions are: no path
ends in a panic; every allocation request is bounded by 16 MiB or proportional to the
input; no loop runs past the bound without consuming input.  Every explored path's witness
input is replayed against the natively built crates (translator validation), and a
counterexample is reported only when the native run reproduces it.
"""
import json
import os
import time
import z3

from .common import Check, Replayer
from . import par
from mirsym import harness as H
from mirsym import models as M
from mirsym.engine import (Cell, Ref, Int, EnumV, Agg, Inconclusive, int_binop, bz3)

PROP = "C15"

CRATES = ["sos_core", "sos_vault", "sos_filesystem"]
ONLY = os.environ.get("VERIF_ONLY")

DECODERS = [
    "EventKind", "UtcDateTime", "CommitHash", "Comparison", "AeadPack", "Cipher", "KeyDerivation",
    "VaultEntry", "VaultCommit", "WriteEvent", "AccountEvent", "DeviceEvent", "FileEvent",
    "EventRecord", "CommitProof", "CommitState",
    # sos-vault
    "VaultMeta", "Summary", "SharedAccess", "Header", "Vault", "SecretMeta", "SecretRow", "Secret",
]
# entries whose path count grows quickly get a smaller input bound in the quick tier
SMALL = {"Header": 48, "Vault": 48, "Secret": 32, "SecretRow": 48, "Summary": 48, "SecretMeta": 48}
# the first byte is a kind tag with many variants: one entry per tag value (run in parallel)
SPLIT_FIRST_BYTE = {"Secret": 18}

ELEM_SIZE = {"u8": 1, "u16": 2, "u32": 4, "u64": 8, "usize": 8, "i64": 8, "[u8; 32]": 32, "map-entry": 16}
MAX_OK_ALLOC = 16 * 1024 * 1024


def site_key(prog, err):
    msg, site, kind = err
    fn = site[0] if site else None
    return "site=%s|%s|%s" % (prog.pretty(fn), kind, (msg or "").strip())


class DecodeEntry:
    def __init__(self, ty, max_len, first=None):
        self.ty = ty
        self.name = "decode:%s" % ty
        self.max_len = max_len
        self.first = first      # (lo, hi): split the input space on the value of the first byte
        if first is not None:
            self.name += "[byte0=%d..%d]" % first

    def thunk(self, eng):
        ty = self.ty
        max_len = self.max_len

        def thunk(ctx):
            inp = H.SymInput(ctx, max_len)
            ctx.inp = inp
            if self.first is not None:
                b0 = z3.Select(inp.arr, z3.BitVecVal(0, 64))
                ctx.add(z3.And(z3.UGE(inp.n, 1), z3.UGE(b0, self.first[0]), z3.ULE(b0, self.first[1])))
            rd = Cell(inp.reader())
            val = Cell(M.default_value(eng, ctx, ty, None))
            fut = eng.call_named("<%s as binary_stream::futures::Decodable>::decode::<'_, '_, '_, R>" % ty,
                                 [Ref(val), Ref(rd)], None)
            r = H.poll_to_result(eng, ctx, fut)
            return (r, val.v)
        return thunk

    def case(self, data):
        return {"op": "decode", "ty": self.ty, "bytes": data.hex()}

    def outcome(self, value):
        return "ok" if value[0].variant == "Ok" else "err"

    def native_outcome(self, nat):
        return nat.get("outcome")


def alloc_violation(res, ev):
    """z3 condition under which the allocation request `ev` is out of proportion"""
    size = ev["size"]
    esz = ELEM_SIZE.get(ev.get("elem", "u8"), 1)
    if isinstance(size, Int) and size.concrete:
        total = size.v * esz
        if total <= MAX_OK_ALLOC:
            return None
        sz = z3.BitVecVal(total, 128)
    else:
        sz = z3.ZeroExt(128 - size.bits, size.z3()) * z3.BitVecVal(esz, 128)
    n = res.ctx.inp.n
    lim = z3.ZeroExt(64, n) * z3.BitVecVal(8, 128) + z3.BitVecVal(64, 128)
    return z3.And(z3.UGT(sz, z3.BitVecVal(MAX_OK_ALLOC, 128)), z3.UGT(sz, lim))


def run_entry(prog, entry, loop_bound, max_paths, prefixes=None, time_budget=None):
    """explore one entry; returns a JSON-serialisable summary"""
    out = {"entry": entry.name, "states": 0, "queries": 0, "solver_s": 0.0, "obligations": 0, "discharged": 0,
           "replays_ok": 0, "replays_bad": 0, "inconclusive": [], "gaps": {}, "reports": [], "kinds": {},
           "samples": [], "stubs": [], "validated": 0, "approx": {}}
    eng = H.new_engine(prog, loop_bound=loop_bound, max_paths=max_paths)
    eng.max_input = entry.max_len
    rep = Replayer("dev")
    rep.built = True
    t0 = time.time()

    def gap(what):
        k = "%s @ %s" % (what, entry.name)
        out["gaps"][k] = out["gaps"].get(k, 0) + 1

    def on_result(res):
        out["states"] += 1
        out["kinds"][res.kind] = out["kinds"].get(res.kind, 0) + 1
        if res.kind == "infeasible":
            return
        if res.kind == "untranslatable":
            gap("%s @ %s" % (res.err[0], str(res.err[1])[:220]))
            return
        if res.kind == "bound":
            gap("bound: %s" % (res.err[0],))
            return
        out["obligations"] += 1
        m = H.witness_for(res)
        if m is None:
            out["inconclusive"].append("%s: no witness for a feasible path" % entry.name)
            return
        data = res.ctx.inp.witness(m)
        case = entry.case(data)
        nat = rep.run(case)
        nondet = any(k == "nondet_model" for k, _ in res.events)
        for k, ev in res.events:
            if k == "approx":
                out["approx"][ev["what"]] = out["approx"].get(ev["what"], 0) + 1
        if res.kind == "panic":
            key = site_key(prog, res.err)
            if nat["outcome"] in ("panic", "abort"):
                out["replays_ok"] += 1
                desc = "%s panics on %d input bytes %s: %s" % (entry.name, len(data), data.hex()[:64], nat.get("detail"))
                out["reports"].append((key, desc, dict(case, expect="no panic", native=nat)))
            elif nondet:
                gap("panic behind an assumed-success external parser: %s" % res.err[0])
            else:
                out["replays_bad"] += 1
                out["inconclusive"].append("%s: engine predicts panic %r but native run says %r (input %s)" % (
                    entry.name, res.err[0], nat, data.hex()))
            return
        out["discharged"] += 1
        want = entry.outcome(res.value)
        if nat["outcome"] in ("panic", "abort"):
            out["replays_bad"] += 1
            out["inconclusive"].append("%s: native run %r where the engine saw %s (input %s)" % (entry.name, nat, want, data.hex()))
        elif nondet:
            pass
        elif entry.native_outcome(nat) == want:
            out["replays_ok"] += 1
            out["validated"] += 1
        else:
            out["replays_bad"] += 1
            out["inconclusive"].append("%s: engine says %s, native says %r for input %s" % (entry.name, want, nat, data.hex()))
        if len(out["samples"]) < 2 and res.kind == "ret":
            out["samples"].append({"entry": entry.name, "outcome": want, "input": data.hex()})
        for kind, ev in res.events:
            if kind != "alloc":
                continue
            out["obligations"] += 1
            cond = alloc_violation(res, ev)
            if cond is None:
                out["discharged"] += 1
                continue
            m2 = H.witness_for(res, cond)
            out["queries"] += 1
            if m2 is None:
                out["discharged"] += 1
                continue
            data2 = res.ctx.inp.witness(m2)
            case2 = entry.case(data2)
            nat2 = rep.run(case2)
            big = nat2.get("max_single_alloc", 0)
            if nat2["outcome"] == "abort" or (big > MAX_OK_ALLOC and big > 8 * len(data2) + 64):
                out["replays_ok"] += 1
                key = "site=%s|alloc|%s" % (prog.pretty(ev.get("site")), ev.get("what"))
                desc = "%s requests a single allocation of %s bytes for a %d-byte input %s" % (
                    entry.name, big, len(data2), data2.hex()[:64])
                out["reports"].append((key, desc, dict(case2, expect="allocation <= 16MiB or proportional", native=nat2)))
            else:
                out["replays_bad"] += 1
                out["inconclusive"].append("%s: engine predicts oversized allocation, native max_single_alloc=%s (input %s)" % (
                    entry.name, big, data2.hex()))

    try:
        eng.explore(entry.thunk(eng), on_result=on_result, prefixes=prefixes, time_budget=time_budget)
    except Inconclusive as e:
        out["inconclusive"].append("%s: %s" % (entry.name, e))
    rep.close()
    st = eng.stats
    out["queries"] += st.queries
    out["solver_s"] = st.solver_s
    out["info"] = {"paths": out["states"], "outcomes": out["kinds"], "queries": st.queries,
                   "mir_bodies_executed": len(st.blocks_hit),
                   "mir_blocks_executed": sum(len(v) for v in st.blocks_hit.values()),
                   "validated_natively": out["validated"], "input_max": entry.max_len,
                   "seconds": round(time.time() - t0, 2)}
    out["stubs"] = sorted(set(c.split("::<")[0][:80] for c in st.calls_modelled))
    out["pending"] = list(getattr(eng, "pending", []))
    return out


def entries_for(tier):
    from . import c15_streams
    # thorough: 1.25x the quick input bound (160 bytes did not finish in 2.7 hours on this machine, 96 not in 1.7)
    max_len = 64 if tier == "quick" else 80
    es = []
    for ty in DECODERS:
        ml = max_len
        if ty in SMALL:
            ml = SMALL[ty] if tier == "quick" else min(max_len, (SMALL[ty] * 5) // 4)
        if ty in SPLIT_FIRST_BYTE:
            k = SPLIT_FIRST_BYTE[ty]
            es.append(DecodeEntry(ty, 0))           # the empty input
            for b in range(k):
                es.append(DecodeEntry(ty, ml, (b, b)))
            es.append(DecodeEntry(ty, ml, (k, 255)))
        else:
            es.append(DecodeEntry(ty, ml))
    es.extend(c15_streams.entries(tier))
    if ONLY:
        es = [e for e in es if any(o in e.name for o in ONLY.split(","))]
    return es, max_len


def run(tier, regenerate=True):
    chk = Check(PROP, tier)
    entries, max_len = entries_for(tier)
    loop_bound = 48
    chk.bounds = {"input_length_max": max_len, "loop_bound": loop_bound,
                  "input": "symbolic length, unconstrained bytes",
                  "per_entry_input_max": {e.name: e.max_len for e in entries}}
    prog = H.load_program(CRATES, regenerate=regenerate)
    chk.extra["mir_regeneration_s"] = prog.timings
    rep = Replayer("dev")
    rep.build()
    chk.extra["replay_build_s"] = round(rep.build_s, 1)
    max_paths = 4000 if tier == "quick" else 12000
    results = par.explore_entries(lambda e, pre, stop: run_entry(prog, e, loop_bound, max_paths, pre, stop), entries)
    approx = {}
    for out in results:
        if isinstance(out, Exception) or out is None:
            chk.inconclusive.append("worker failed: %r" % (out,))
            continue
        chk.states += out["states"]
        chk.transitions += out["queries"]
        chk.solver_s += out["solver_s"]
        chk.obligations += out["obligations"]
        chk.discharged += out["discharged"]
        chk.replays_ok += out["replays_ok"]
        chk.replays_bad += out["replays_bad"]
        chk.inconclusive.extend(out["inconclusive"])
        for k, n in out["gaps"].items():
            chk.gaps[k] = chk.gaps.get(k, 0) + n
        for key, desc, case in out["reports"]:
            chk.report(key, desc, case)
        info = out["info"]
        info["paths"] = out["states"]
        info["outcomes"] = out["kinds"]
        info["input_max"] = {e.name: e.max_len for e in entries}.get(out["entry"])
        info["mir_bodies_executed"] = "n/a (merged over workers)" if info.get("mir_bodies_executed", 0) > 2000 else info.get("mir_bodies_executed")
        chk.functions[out["entry"]] = info
        chk.samples.extend(out["samples"])
        chk.stubs.update(out["stubs"])
        for k, n in out["approx"].items():
            approx[k] = approx.get(k, 0) + n
    chk.extra["approximations"] = approx
    chk.assumptions = [
        "single-poll executor: every leaf future completes on first poll (no interleaving modelled)",
        "BinaryReader/BinaryWriter, std collections, time, uuid, secrecy are the models listed under stubs",
        "input length bounded per entry (see bounds); loops unrolled <= %d iterations per activation" % loop_bound,
        "panics are checked for the dev profile (overflow checks on)",
        "serde_json bodies, age recipient parsing, vcard/totp/url text formats are opaque (outside the claim)",
    ]
    return chk.finish(rule="one state = one explored path of an entry function over the symbolic input; "
                           "transitions = solver queries; every path's witness is replayed natively")


def replay(path):
    case = json.load(open(path))
    rep = Replayer("dev")
    nat = rep.run(case)
    rep.close()
    print(json.dumps(nat))
    bad = nat["outcome"] in ("panic", "abort") or nat.get("max_single_alloc", 0) > max(MAX_OK_ALLOC, 0)
    if bad:
        print("VIOLATION property=%s replay=%s" % (PROP, path))
        return 1
    return 0
