"""C07 — patches apply only on the agreed base; a refused request changes nothing (file-system log).

`FileSystemEventLog::{patch_checked, rewind, replace_all_events}` (with the snapshot / rollback code)
are executed from the MIR of the current tree over the vfs model, from a log of k records, with a
checkpoint proof taken from an arbitrary other log (symbolic leaves: matching, stale, diverged) and
symbolic patches.  z3 decides per path: the patch is appended iff the proof is the head of exactly
this log; on every refusal (conflict, absent rewind target, wrong replace-all checkpoint) no file
operation was performed or the file bytes and the tree equal the pre-state, and a restart reads the
pre-state back.
"""
import json
import z3

from .common import Check
from . import par
from . import fsops as O
from . import fscheck as FC
from mirsym import harness as H

PROP = "C07"


def scenarios(tier):
    ks = (1, 2) if tier == "quick" else (1, 2, 3)
    nbs = (1, 2, 3) if tier == "quick" else (1, 2, 3, 4)
    out = []
    for k in ks:
        for nb in nbs:
            out.append({"versioned": False, "k": k, "op": ("patch_checked", nb, 1)})
        out.append({"versioned": False, "k": k, "op": ("rewind",)})
        for nb in (1, 2):
            for n in (1, 2):
                out.append({"versioned": False, "k": k, "op": ("replace_all", nb, n)})
    out.append({"versioned": False, "k": 1, "op": ("replace_all", 1, 0)})     # an empty replacement can never verify
    out.append({"versioned": False, "k": 2, "op": ("replace_all", 2, 0)})
    out.append({"versioned": False, "k": 0, "op": ("replace_all", 1, 1)})     # empty log: no snapshot is taken
    out.append({"versioned": False, "k": 0, "op": ("replace_all", 2, 1)})
    out.append({"versioned": False, "k": 0, "op": ("patch_checked", 1, 1)})   # a log without commits has no agreed base
    out.append({"versioned": True, "k": 1, "op": ("replace_all", 1, 1)})
    out.append({"versioned": True, "k": 1, "op": ("patch_checked", 1, 1)})
    return out


def unchanged(sc, res, h, v, key, what):
    h.check(res, O.files_equal(v["pre_file"], v["post_file"]), "%s but the log file changed" % what, key + "file changed on refusal")
    h.check(res, O.leaves_eq(v["mem_leaves"], v["pre_leaves"]), "%s but the in-memory tree changed" % what, key + "tree changed on refusal")
    h.check(res, v["reopen"] == "Ok" and O.leaves_eq(v["reopen_leaves"] or [], v["pre_leaves"]),
            "%s but a restart does not read the previous log back" % what, key + "restart differs after refusal")
    h.check(res, v["files"] == [O.F.PATH], "%s and left extra files behind: %s" % (what, v["files"]), key + "stray files after refusal")


def judge(sc, res, h, out):
    v = res.value
    op = sc["op"]
    key = "fslog|%s|" % op[0]
    pre = v["pre_leaves"]
    r = v["op_result"]
    if op[0] == "patch_checked":
        pb = v["proof_bytes"]
        same = z3.BoolVal(False)
        if len(pb) == len(pre):
            same = z3.And(*[b == O.leaf_byte(x) for b, x in zip(pb, pre)])
        if r.variant != "Ok":
            if len(pre) == 0:
                # no head to compare with: refusing with an error is a refusal like any other
                unchanged(sc, res, h, v, key, "patch refused")
                return
            h.check(res, False, "patch_checked returned an error", key + "error")
            return
        cp = r.fields[0].v
        if cp.variant == "Success":
            h.check(res, same, "patch applied although the checkpoint is not the head of this log", key + "applied on a different base")
            want = [O.leaf_byte(x) for x in pre] + [m["commit"] for m in v["nmeta"]]
            h.check(res, O.leaves_are(v["mem_leaves"], want), "tree after the patch is not old leaves + patch", key + "wrong leaves after patch")
            h.check(res, v["reopen"] == "Ok" and O.leaves_eq(v["reopen_leaves"] or [], v["mem_leaves"]),
                    "restart after an accepted patch differs from memory", key + "restart differs after patch")
        else:
            h.check(res, z3.Not(same), "conflict reported although the checkpoint is exactly this log's head", key + "refused on the agreed base")
            h.check(res, v["steps"] == 0, "a refused patch performed %d file operations" % v["steps"], key + "file operations on refusal")
            unchanged(sc, res, h, v, key, "patch refused")
    elif op[0] == "rewind":
        if r.variant == "Err":
            unchanged(sc, res, h, v, key, "rewind refused (commit not found)")
    elif op[0] == "replace_all":
        pb = v["proof_bytes"]
        nc = [m["commit"] for m in v["nmeta"]]
        verified = z3.BoolVal(False)
        if len(pb) == len(nc):
            verified = z3.And(*[b == c for b, c in zip(pb, nc)])
        if r.variant == "Ok":
            h.check(res, verified, "replace_all succeeded although the checkpoint does not match the new log", key + "accepted wrong checkpoint")
            h.check(res, O.leaves_are(v["mem_leaves"], nc), "log after replace_all is not the new records", key + "wrong leaves after replace")
            h.check(res, v["reopen"] == "Ok" and O.leaves_eq(v["reopen_leaves"] or [], v["mem_leaves"]),
                    "restart after replace_all differs from memory", key + "restart differs after replace")
        else:
            h.check(res, z3.Not(verified), "replace_all failed although the checkpoint matches", key + "refused matching checkpoint")
            unchanged(sc, res, h, v, key, "replace_all refused")


def confirm(case, nat):
    if nat.get("outcome") != "ok":
        return False
    what = case.get("what", "")
    last = nat["results"][-1] if nat.get("results") else None
    refused = last == "conflict" or (isinstance(last, str) and last.startswith("err"))
    if "refused" in what or "refusal" in what:
        if not refused:
            return False
        pre = case.get("expect_pre_leaves")
        return nat["file_before_last"] != nat["file_after"] or nat["memory"] != nat["reopened"] or (pre is not None and nat["memory"] != pre)
    if "applied although" in what or "succeeded although" in what:
        return last in ("success", "ok")
    if "conflict reported although" in what or "failed although" in what:
        return refused
    return nat["memory"] != nat["reopened"]


def run(tier, regenerate=True):
    chk = Check(PROP, tier)
    scen = scenarios(tier)
    chk.bounds = {"scenarios": len(scen), "initial_records_max": 2 if tier == "quick" else 3, "commit_pool": 3,
                  "proofs": "head proof of any log of <= 3 (quick) / 4 leaves from the pool"}
    prog = H.load_program(FC.CRATES, regenerate=regenerate)
    chk.extra["mir_regeneration_s"] = prog.timings
    results = par.map_entries(lambda s: FC.explore_scenario(prog, s, judge), scen)
    FC.collect(chk, results, confirm)
    # ---- database backend: replace_all_events / patch_checked of DatabaseEventLog over the table model (see C06)
    from . import c06_db, c06
    dprog = H.load_program(c06_db.CRATES, regenerate=regenerate)
    chk.extra["mir_regeneration_s"].update(dprog.timings)
    dscen = c06_db.scenarios_c07(tier)
    chk.bounds["database_scenarios"] = {"count": len(dscen), "operations": ["replace_all_events (1-2 new events, checkpoint = head of any log of 1..3 leaves from the pool)",
                                                                                "patch_checked (1 event, checkpoint likewise)", "rewind to an absent commit (in C06)"],
                                        "records_in_this_log_max": 2 if tier == "quick" else 3}
    dres = par.map_entries(lambda sc: c06_db.run_scenario(dprog, sc), dscen)
    FC.collect(chk, dres, c06.db_confirm)
    # ---- server side: server_helpers::event_patch (rewind + merge_folder + rollback) over the real file-system log
    from . import c07_server
    sprog = H.load_program(c07_server.CRATES, regenerate=regenerate)
    chk.extra["mir_regeneration_s"].update(sprog.timings)
    sscen = c07_server.scenarios(tier)
    chk.bounds["server_event_patch_scenarios"] = {"count": len(sscen), "records_in_log_max": 2 if tier == "quick" else 3,
                                                  "patch_records": "1 (thorough: one scenario with 2)", "patch_event_bytes": c07_server.PLEN,
                                                  "rewind_target": "none, any pool commit, or absent", "log_type": "Folder"}
    sres = par.map_entries(lambda sc: c07_server.run_scenario(sprog, sc), sscen)
    FC.collect(chk, sres, c07_server.confirm)
    chk.assumptions = [
        "file-system backend, and DatabaseEventLog over mirsym/sqlmodel.py (statements as built by the code, rows as lists, sqlite "
        "itself not executed); server side: event_patch for a folder log on the file-system backend (other log types, whose merge "
        "functions reduce or decode more, and the client rewind_local orchestration are outside)",
        "file API = vfs model (atomic operations, no I/O errors); rs_merkle = ideal-hash model (validated in C08)",
    ]
    return chk.finish(rule="one state = one path of one operation on a k-record log with symbolic checkpoint and patch")


def replay(path):
    from .common import Replayer
    case = json.load(open(path))
    rep = Replayer("dev")
    nat = rep.run(case)
    rep.close()
    print(json.dumps(nat)[:2000])
    if case.get("op") == "dblog_script":
        from . import c06
        bad = c06.db_confirm(case, nat)
    elif case.get("op") == "server_event_patch":
        from . import c07_server
        bad = c07_server.confirm(case, nat)
    else:
        bad = confirm(case, nat)
    if bad:
        print("VIOLATION property=%s replay=%s" % (PROP, path))
        return 1
    return 0
