"""fork-based parallel map (the Program is built once in the parent and shared copy-on-write)."""
import multiprocessing as mp
import os
import traceback

_FN = None


def _call(i):
    try:
        return _FN(_ITEMS[i])
    except Exception as e:       # noqa
        return RuntimeError("%s\n%s" % (e, traceback.format_exc()))


def map_entries(fn, items, procs=None):
    global _FN, _ITEMS
    _FN = fn
    _ITEMS = list(items)
    n = procs or int(os.environ.get("VERIF_JOBS", "0")) or min(14, os.cpu_count() or 4)
    if n <= 1 or len(_ITEMS) <= 1:
        return [_call(i) for i in range(len(_ITEMS))]
    ctx = mp.get_context("fork")
    with ctx.Pool(processes=min(n, len(_ITEMS))) as pool:
        # largest jobs first would be better; keep submission order = listing order
        return pool.map(_call, range(len(_ITEMS)), chunksize=1)


def merge_out(a, b):
    """merge two per-entry summaries (counts add up, lists concatenate, dicts merge recursively)"""
    if a is None:
        return b
    for k, v in b.items():
        if k not in a:
            a[k] = v
        elif isinstance(v, bool) or isinstance(v, str):
            pass
        elif isinstance(v, (int, float)):
            a[k] = a[k] + v
        elif isinstance(v, list):
            if k in ("samples",) and len(a[k]) >= 3:
                continue
            a[k] = a[k] + [x for x in v if not (k == "stubs" and x in a[k])]
        elif isinstance(v, dict):
            merge_out(a[k], v)
    return a


def explore_entries(run_entry, entries, frontier=3):
    """run_entry(entry, prefixes, stop_pending) -> summary dict with key "pending".
    Phase 1 expands every entry until `frontier` x workers subtrees are pending; phase 2 exhausts the
    subtrees on all cores.  Returns one merged summary per entry (same order)."""
    nproc = int(os.environ.get("VERIF_JOBS", "0")) or min(14, os.cpu_count() or 4)
    target = max(2, (frontier * nproc) // max(1, len(entries))) if nproc > 1 else None
    first = map_entries(lambda e: run_entry(e, None, target), entries)
    merged = []
    jobs = []
    for i, (e, out) in enumerate(zip(entries, first)):
        if isinstance(out, Exception) or out is None:
            merged.append(out)
            continue
        pend = out.pop("pending", [])
        merged.append(out)
        for p in pend:
            jobs.append((i, p))
    if jobs:
        second = map_entries(lambda j: run_entry(entries[j[0]], [j[1]], None), jobs)
        for (i, _), out in zip(jobs, second):
            if isinstance(out, Exception) or out is None:
                if isinstance(merged[i], dict):
                    merged[i].setdefault("inconclusive", []).append("worker failed: %r" % (out,))
                continue
            out.pop("pending", None)
            if isinstance(merged[i], dict):
                merge_out(merged[i], out)
    return merged
