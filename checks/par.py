"""fork-based parallel map (the Program is built once in the parent and shared copy-on-write)."""
import multiprocessing as mp
import os
import traceback

_FN = None


def _call(i):
    try:
        return _FN(_ITEMS[i])
    except Exception as e:       # noqa
        return RuntimeError("%s\n%s" % (e, traceback.format_exc()))


def map_entries(fn, items, procs=None):
    global _FN, _ITEMS
    _FN = fn
    _ITEMS = list(items)
    n = procs or int(os.environ.get("VERIF_JOBS", "0")) or min(14, os.cpu_count() or 4)
    if n <= 1 or len(_ITEMS) <= 1:
        return [_call(i) for i in range(len(_ITEMS))]
    ctx = mp.get_context("fork")
    with ctx.Pool(processes=min(n, len(_ITEMS))) as pool:
        # largest jobs first would be better; keep submission order = listing order
        return pool.map(_call, range(len(_ITEMS)), chunksize=1)
