"""fork-based parallel map (the Program is built once in the parent and shared copy-on-write)."""
import multiprocessing as mp
import os
import traceback

_FN = None


def _call(i):
    try:
        return _FN(_ITEMS[i])
    except Exception as e:       # noqa
        tb = traceback.format_exc()
        return RuntimeError("%s :: ...%s" % (e, tb[-1400:]))


def map_entries(fn, items, procs=None):
    global _FN, _ITEMS
    _FN = fn
    _ITEMS = list(items)
    n = procs or int(os.environ.get("VERIF_JOBS", "0")) or min(14, os.cpu_count() or 4)
    if n <= 1 or len(_ITEMS) <= 1:
        return [_call(i) for i in range(len(_ITEMS))]
    ctx = mp.get_context("fork")
    with ctx.Pool(processes=min(n, len(_ITEMS))) as pool:
        # largest jobs first would be better; keep submission order = listing order
        return pool.map(_call, range(len(_ITEMS)), chunksize=1)


def merge_out(a, b):
    """merge two per-entry summaries (counts add up, lists concatenate, dicts merge recursively)"""
    if a is None:
        return b
    for k, v in b.items():
        if k not in a:
            a[k] = v
        elif isinstance(v, bool) or isinstance(v, str):
            pass
        elif isinstance(v, (int, float)):
            a[k] = a[k] + v
        elif isinstance(v, list):
            if k in ("samples",) and len(a[k]) >= 3:
                continue
            a[k] = a[k] + [x for x in v if not (k == "stubs" and x in a[k])]
        elif isinstance(v, dict):
            merge_out(a[k], v)
    return a


def _job(j):
    i, prefixes, budget = j
    try:
        return _RUN(_ENTRIES[i], prefixes, budget)
    except Exception as e:       # noqa
        tb = traceback.format_exc()
        return RuntimeError("%s :: ...%s" % (e, tb[-1400:]))


def explore_entries(run_entry, entries, budget=20.0):
    """run_entry(entry, prefixes, time_budget) -> summary dict with key "pending" (unexplored subtrees).
    Dynamic work sharing: a worker explores for `budget` seconds, then returns what is left of its subtree as
    new jobs, so that one large entry spreads over all cores.  Returns one merged summary per entry."""
    global _RUN, _ENTRIES
    _RUN = run_entry
    _ENTRIES = list(entries)
    import time as _t
    nproc = int(os.environ.get("VERIF_JOBS", "0")) or min(14, os.cpu_count() or 4)
    merged = [None] * len(_ENTRIES)
    jobs = [(i, None, budget) for i in range(len(_ENTRIES))]
    if nproc <= 1:
        while jobs:
            j = jobs.pop()
            out = _job((j[0], j[1], None))
            _absorb(merged, jobs, j[0], out, budget)
        return merged
    ctx = mp.get_context("fork")
    with ctx.Pool(processes=nproc) as pool:
        active = []
        while jobs or active:
            while jobs and len(active) < nproc * 2:
                j = jobs.pop()
                active.append((j[0], pool.apply_async(_job, (j,))))
            still = []
            progressed = False
            for i, h in active:
                if h.ready():
                    progressed = True
                    _absorb(merged, jobs, i, h.get(), budget)
                else:
                    still.append((i, h))
            active = still
            if not progressed:
                _t.sleep(0.05)
    return merged


def _absorb(merged, jobs, i, out, budget):
    if isinstance(out, Exception) or out is None:
        if isinstance(merged[i], dict):
            merged[i].setdefault("inconclusive", []).append("worker failed: %r" % (out,))
        elif merged[i] is None:
            merged[i] = out
        return
    pend = out.pop("pending", [])
    if merged[i] is None or isinstance(merged[i], Exception):
        merged[i] = out
    else:
        merge_out(merged[i], out)
    # split what is left into a few jobs
    if pend:
        k = max(1, min(6, len(pend)))
        for c in range(k):
            chunk = pend[c::k]
            if chunk:
                jobs.append((i, chunk, budget))
