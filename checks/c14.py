"""C14 — every stored type survives encode/decode unchanged, and encoding is deterministic.

For every binary Encodable/Decodable pair the real decoder and encoder are executed from
the MIR of the current tree:  b (symbolic bytes, symbolic length) --decode--> v1
--encode--> e1 --decode--> v2.   Every value whose encoding fits the bound is some v1, so
the obligations hold for all of them:  encode(v1) succeeds and does not panic, decode(e1)
succeeds, consumes exactly the bytes written, and v2 == v1 field by field (the query
"some field differs" must be unsat); encode consults neither clock nor RNG.
Counterexamples are replayed natively (decode/encode/decode/encode on the real crates).
"""
import json
import os
import time
import z3

from .common import Check, Replayer
from . import par
from . import c15
from mirsym import harness as H
from mirsym import models as M
from mirsym import rope
from mirsym.engine import (Cell, Ref, Int, EnumV, Agg, Inconclusive, Untranslatable, int_binop, bz3, to_bool)

PROP = "C14"
CRATES = ["sos_core", "sos_vault"]

TYPES = [
    "EventKind", "UtcDateTime", "CommitHash", "Comparison", "AeadPack", "Cipher", "KeyDerivation",
    "VaultEntry", "VaultCommit", "WriteEvent", "AccountEvent", "DeviceEvent", "FileEvent",
    "EventRecord", "CommitProof", "CommitState",
    "VaultMeta", "Summary", "SharedAccess", "Header", "Vault", "SecretMeta", "SecretRow", "Secret",
]
# input bound per type (bytes): large enough for every variant with short payloads
BOUND = {"EventRecord": 96, "CommitProof": 120, "CommitState": 150, "VaultCommit": 96, "WriteEvent": 120,
         "AccountEvent": 56, "FileEvent": 120, "DeviceEvent": 48, "Header": 72, "Vault": 72,
         "SecretRow": 72, "Secret": 40, "SecretMeta": 56, "Summary": 64, "VaultMeta": 40}
SPLIT_FIRST_BYTE = {"Secret": 18}
HEAVY = {"Header", "Vault", "SecretMeta", "SecretRow", "Secret", "Summary"}
# composite types that still get one collection element per value in the quick tier (tags, recipients, ...)
QUICK_ONE_ELEMENT = set(os.environ.get("VERIF_C14_ONE", "SecretMeta").split(","))
EOF_DELIMITED = {"Vault": 180}
THOROUGH_ONLY = {"SecretRow", "Vault"}


class RtEntry:
    def __init__(self, ty, max_len, first=None, cap=3, cbudget=2):
        self.ty = ty
        self.cap = cap
        self.ccap = 2
        self.cbudget = cbudget
        self.name = "roundtrip:%s" % ty
        self.max_len = max_len
        self.first = first
        if first is not None:
            self.name += "[byte0=%d..%d]" % first

    def thunk(self, eng):
        ty = self.ty
        dec = "<%s as binary_stream::futures::Decodable>::decode::<'_, '_, '_, R>" % ty
        enc = "<%s as binary_stream::futures::Encodable>::encode::<'_, '_, '_, W>" % ty

        def thunk(ctx):
            inp = H.SymInput(ctx, self.max_len)
            ctx.inp = inp
            if self.first is not None:
                b0 = z3.Select(inp.arr, z3.BitVecVal(0, 64))
                ctx.add(z3.And(z3.UGE(b0, self.first[0]), z3.ULE(b0, self.first[1])))
            # the input is as long as the decoder asks for: what bounds the value space is the cap on
            # free-length fields and on collection sizes, not an input length.  Types that read "until
            # end of input" (Vault contents) get a real, bounded input instead.
            if ty in EOF_DELIMITED:
                rd = Cell(inp.reader())
            else:
                rd = Cell(M.ReaderV(inp.arr, Int(1 << 40, 64), no_eof=True))
            ctx.rd1 = rd
            v1 = Cell(M.default_value(eng, ctx, ty, None))
            r1 = H.poll_to_result(eng, ctx, eng.call_named(dec, [Ref(v1), Ref(rd)], None))
            if r1.variant != "Ok":
                return ("decode1-err",)
            ctx.stage = "encode"
            n_before = len(ctx.events)
            wr = Cell(rope.RopeWriter())
            r2 = H.poll_to_result(eng, ctx, eng.call_named(enc, [Ref(v1), Ref(wr)], None))
            enc_events = ctx.events[n_before:]
            if r2.variant != "Ok":
                return ("encode-err", r2, v1.v)
            ctx.stage = "decode2"
            w = wr.v
            rd2 = Cell(w.reader())
            v2 = Cell(M.default_value(eng, ctx, ty, None))
            r3 = H.poll_to_result(eng, ctx, eng.call_named(dec, [Ref(v2), Ref(rd2)], None))
            if r3.variant != "Ok":
                return ("decode2-err", r3, v1.v, w)
            return ("ok", v1.v, v2.v, w, rd2.v, enc_events)
        return thunk


def consumed_bytes(res, m):
    """the bytes the first decode consumed, under model m"""
    pos = res.ctx.rd1.v.pos
    n = pos.v if pos.concrete else m.eval(pos.z3(), model_completion=True).as_long()
    n = min(n, 4096)
    arr = res.ctx.inp.arr
    return bytes(m.eval(z3.Select(arr, z3.BitVecVal(i, 64)), model_completion=True).as_long() for i in range(n))


def run_entry(prog, entry, loop_bound, max_paths, prefixes=None, time_budget=None):
    out = {"entry": entry.name, "states": 0, "queries": 0, "solver_s": 0.0, "obligations": 0, "discharged": 0,
           "replays_ok": 0, "replays_bad": 0, "inconclusive": [], "gaps": {}, "reports": [], "kinds": {},
           "samples": [], "stubs": [], "values": 0}
    eng = H.new_engine(prog, loop_bound=loop_bound, max_paths=max_paths)
    eng.max_input = entry.max_len
    eng.field_length_cap = None
    eng.field_max = entry.cap
    eng.max_input = entry.cap
    eng.collection_cap = entry.ccap
    eng.collection_budget = entry.cbudget
    rep = Replayer("dev")
    rep.built = True
    t0 = time.time()

    def gap(what):
        k = "%s @ %s" % (what, entry.name)
        out["gaps"][k] = out["gaps"].get(k, 0) + 1

    def native(data):
        return rep.run({"op": "roundtrip", "ty": entry.ty, "bytes": data.hex()})

    def violation(res, what, extra_cond=None, values=None):
        """solver found a violation on this path: replay natively, then report"""
        m = H.witness_for(res, extra_cond)
        if m is None:
            return False
        data = consumed_bytes(res, m)
        nat = native(data)
        confirmed = nat["outcome"] in ("panic", "abort") or (nat["outcome"] == "err" and nat.get("stage") != "decode1") \
            or (nat["outcome"] == "ok" and not nat.get("stable"))
        nondet = any(k == "nondet_model" for k, _ in res.events)
        detail = {}
        if values is not None:
            try:
                detail = {"v1": M.describe(values[0], m), "v2": M.describe(values[1], m)}
            except Exception:
                detail = {}
        if confirmed:
            out["replays_ok"] += 1
            key = "%s|%s" % (entry.ty, what)
            desc = "%s: %s for input %s; native: %s" % (entry.name, what, data.hex()[:96], json.dumps(nat)[:300])
            out["reports"].append((key, desc, dict(op="roundtrip", ty=entry.ty, bytes=data.hex(), what=what, native=nat, **detail)))
        elif nondet:
            if os.environ.get("VERIF_DEBUG"):
                print("DEBUG unconfirmed", entry.name, what, data.hex(), json.dumps(nat)[:400], [ev for k, ev in res.events if k == "nondet_model"][:3], flush=True)
            gap("unconfirmed difference behind an assumed-success external parser: %s" % what)
        else:
            out["replays_bad"] += 1
            out["inconclusive"].append("%s: engine predicts '%s' but native round trip is %s (input %s, %s)" % (
                entry.name, what, json.dumps(nat)[:300], data.hex(), json.dumps(detail)[:400]))
        return True

    def on_result(res):
        out["states"] += 1
        out["kinds"][res.kind] = out["kinds"].get(res.kind, 0) + 1
        if out["states"] % 200 == 0 and os.environ.get("VERIF_PROGRESS"):
            with open(os.environ["VERIF_PROGRESS"], "a") as pf:
                pf.write("%s pid=%d paths=%d values=%d t=%.0fs\n" % (entry.name, os.getpid(), out["states"], out["values"], time.time() - t0))
        if res.kind == "infeasible":
            return
        if res.kind == "untranslatable":
            gap("%s @ %s" % (res.err[0], str(res.err[1])[:220]))
            return
        if res.kind == "bound":
            gap("bound: %s" % (res.err[0],))
            return
        if res.kind == "panic":
            stage = getattr(res.ctx, "stage", "decode1")
            if stage == "decode1":
                return          # C15's business
            out["obligations"] += 1
            violation(res, "panic during %s: %s" % (stage, res.err[0]))
            return
        tag = res.value[0]
        if tag == "decode1-err":
            return
        out["values"] += 1
        out["obligations"] += 1
        if tag == "encode-err":
            violation(res, "encode fails on a value the decoder produced")
            return
        if tag == "decode2-err":
            violation(res, "decode fails on the encoder's output")
            return
        _, v1, v2, w, rd2, enc_events = res.value
        out["discharged"] += 1
        # determinism: no clock / RNG while encoding
        out["obligations"] += 1
        nd = [ev for k, ev in enc_events if k == "nondet"]
        if nd:
            out["reports"].append(("%s|encode consults %s" % (entry.ty, nd[0]["what"]),
                                   "%s: encode calls %s (non-deterministic bytes)" % (entry.name, nd[0]["what"]),
                                   {"op": "roundtrip", "ty": entry.ty, "bytes": "", "what": "nondeterministic encode"}))
        else:
            out["discharged"] += 1
        # the decoder consumes exactly what the encoder wrote
        out["obligations"] += 1
        consumed = True if (rd2.at_end() and rd2.off == 0) else int_binop("Eq", rd2.position(), w.total_len())
        m = None if consumed is True else H.witness_for(res, z3.Not(bz3(consumed)))
        out["queries"] += 0 if consumed is True else 1
        if m is not None:
            violation(res, "decoder consumes a different number of bytes than the encoder wrote", z3.Not(bz3(consumed)))
        else:
            out["discharged"] += 1
        # v2 == v1
        out["obligations"] += 1
        try:
            eq = M.eq_formula(eng, v1, v2, entry.cap)
        except Untranslatable as u:
            gap("equality: %s" % u.what)
            return
        if eq is True:
            out["discharged"] += 1
        else:
            cond = z3.Not(bz3(eq))
            t = time.time()
            m = H.witness_for(res, cond)
            out["solver_s"] += time.time() - t
            out["queries"] += 1
            if m is None:
                out["discharged"] += 1
            else:
                violation(res, "decode(encode(v)) differs from v", cond, (v1, v2))
        if len(out["samples"]) < 2:
            mm = H.witness_for(res)
            if mm is not None:
                try:
                    out["samples"].append({"entry": entry.name, "input": consumed_bytes(res, mm).hex(),
                                           "value": json.dumps(M.describe(v1, mm))[:300]})
                except Exception:
                    pass

    try:
        eng.explore(entry.thunk(eng), on_result=on_result, prefixes=prefixes, time_budget=time_budget)
    except Inconclusive as e:
        out["inconclusive"].append("%s: %s" % (entry.name, e))
    rep.close()
    st = eng.stats
    out["queries"] += st.queries
    out["solver_s"] += st.solver_s
    out["info"] = {"paths": out["states"], "outcomes": out["kinds"], "values_round_tripped": out["values"],
                   "queries": st.queries, "mir_bodies_executed": len(st.blocks_hit),
                   "mir_blocks_executed": sum(len(v) for v in st.blocks_hit.values()),
                   "input_max": entry.max_len, "seconds": round(time.time() - t0, 2)}
    out["stubs"] = sorted(set(c.split("::<")[0][:80] for c in st.calls_modelled))
    out["pending"] = list(getattr(eng, "pending", []))
    return out


def entries_for(tier):
    es = []
    # the binary part has the same bounds in both tiers: every larger setting that was measured (32-byte fields with
    # 12-byte composite caps; 20 / 6; one collection element in every composite type) did not finish within 40 to 80
    # minutes; the thorough tier deepens the wire part instead
    cap = 16
    only = os.environ.get("VERIF_ONLY")
    for ty in TYPES:
        if only and ty not in only.split(","):
            continue
        if ty in THOROUGH_ONLY and not os.environ.get("VERIF_C14_CONTAINERS"):
            continue        # SecretRow / Vault: neither tier finishes them (15 min were not enough at the smallest bounds)
        ml = BOUND.get(ty, 32)
        if tier == "thorough":
            ml = int(ml * 1.0)
        if ty in EOF_DELIMITED:
            ml = EOF_DELIMITED[ty]
        tcap, tbudget = cap, 2
        if ty in HEAVY:
            # composite types whose components have entries of their own: smaller bounds in the quick tier
            tcap, tbudget = (4, 0)
            if ty in THOROUGH_ONLY:
                tbudget = 0
            if ty in QUICK_ONE_ELEMENT:
                tbudget = 1
        if ty in SPLIT_FIRST_BYTE:
            k = SPLIT_FIRST_BYTE[ty]
            for b in range(k):
                es.append(RtEntry(ty, ml, (b, b), cap=tcap, cbudget=tbudget))
        else:
            es.append(RtEntry(ty, ml, cap=tcap, cbudget=tbudget))
    return es


def run(tier, regenerate=True):
    chk = Check(PROP, tier)
    entries = entries_for(tier)
    loop_bound = 48
    chk.bounds = {"loop_bound": loop_bound,
                  "variable_length_field_max_bytes": {e.name: e.cap for e in entries},
                  "collection_max_elements": entries[0].ccap if entries else None,
                  "collection_elements_per_value_max": {e.name: e.cbudget for e in entries},
                  "values": "every value whose encoding fits the bound (obtained as decode of symbolic bytes)"}
    prog = H.load_program(CRATES, regenerate=regenerate)
    chk.extra["mir_regeneration_s"] = prog.timings
    rep = Replayer("dev")
    rep.build()
    max_paths = 6000 if tier == "quick" else 60000
    results = par.explore_entries(lambda e, pre, stop: run_entry(prog, e, loop_bound, max_paths, pre, stop), entries)
    for out in results:
        if isinstance(out, Exception) or out is None:
            chk.inconclusive.append("worker failed: %r" % (out,))
            continue
        chk.states += out["states"]
        chk.transitions += out["queries"]
        chk.solver_s += out["solver_s"]
        chk.obligations += out["obligations"]
        chk.discharged += out["discharged"]
        chk.replays_ok += out["replays_ok"]
        chk.replays_bad += out["replays_bad"]
        chk.inconclusive.extend(out["inconclusive"])
        for k, n in out["gaps"].items():
            chk.gaps[k] = chk.gaps.get(k, 0) + n
        for key, desc, case in out["reports"]:
            chk.report(key, desc, case)
        info = out["info"]
        info["paths"] = out["states"]
        info["outcomes"] = out["kinds"]
        info["input_max"] = {e.name: e.max_len for e in entries}.get(out["entry"])
        info["mir_bodies_executed"] = "n/a (merged over workers)" if info.get("mir_bodies_executed", 0) > 2000 else info.get("mir_bodies_executed")
        chk.functions[out["entry"]] = info
        chk.samples.extend(out["samples"])
        chk.stubs.update(out["stubs"])
    # ---- wire part: protobuf bindings of sos-protocol (T -> WireT -> T)
    if (not os.environ.get("VERIF_ONLY") or "wire" in os.environ.get("VERIF_ONLY", "")) and not os.environ.get("VERIF_NOWIRE"):
        from . import c14_wire as W
        wprog, wdefs, wbinds = W.load(regenerate=regenerate)
        chk.extra["mir_regeneration_s"].update(wprog.timings)
        W.set_tier(tier)
        wjobs, wskipped = W.jobs(wprog, wbinds)
        chk.bounds["wire"] = {"types": [j[0] for j in wjobs], "not_compiled_in_this_feature_set": wskipped,
                              "variation_budget": "quick: 2 (1 for messages with more than 60 decision points); thorough: 3 up to 25 decision points, 2 up to 120, 1 beyond",
                              "repeated_elements_max": W.REPEAT_MAX, "byte_string_max": W.BYTES_MAX, "string_max": W.STR_MAX,
                              "nested_timestamps": "concrete from depth 2"}
        wres = par.map_entries(lambda j: W.run_type(wprog, wdefs, *j), wjobs)
        for out in wres:
            if isinstance(out, Exception) or out is None:
                chk.inconclusive.append("worker failed: %r" % (out,))
                continue
            chk.states += out["states"]
            chk.transitions += out["queries"]
            chk.solver_s += out["solver_s"]
            chk.obligations += out["obligations"]
            chk.discharged += out["discharged"]
            chk.inconclusive.extend(out["inconclusive"])
            for k, n in out["gaps"].items():
                kk = "%s @ %s" % (k, out["entry"])
                chk.gaps[kk] = chk.gaps.get(kk, 0) + n
            chk.functions[out["entry"]] = dict(out.get("info", {}), variation_budget=out.get("budget"), decision_points=out.get("decision_points"))
            chk.stubs.update(out["stubs"])
            # translator validation: the message of one accepted path must be accepted natively too
            for smp in out["samples"][:1]:
                nat = rep.run({"op": "wire_roundtrip", "ty": out["entry"].split(":", 1)[1], "bytes": smp["message_full"]})
                if nat.get("outcome") == "ok" and nat.get("stable"):
                    chk.replays_ok += 1
                elif smp.get("assumed_parser") and nat.get("outcome") == "err" and nat.get("stage") == "decode1":
                    pass        # the text of an external format (url, ...) is only assumed to parse
                else:
                    chk.replays_bad += 1
                    chk.inconclusive.append("%s: a message the engine accepts and round-trips is not stable natively: %s (message %s)" % (
                        out["entry"], json.dumps(nat)[:300], smp["message_full"][:200]))
            for key, desc, case in out["reports"]:
                nat = rep.run(case)
                # natively: the second decode fails, or decode/encode/decode is not stable, or - for a difference that
                # Debug does not print (the hashes of a Merkle proof) - re-encoding the decoded value does not give the
                # canonical input message back
                confirmed = nat.get("outcome") in ("panic", "abort") or (nat.get("outcome") == "err" and nat.get("stage") != "decode1") \
                    or (nat.get("outcome") == "ok" and (not nat.get("stable") or nat.get("reencode_equals_input") is False))
                if confirmed:
                    chk.replays_ok += 1
                    chk.report(key, desc + "; native: %s" % json.dumps(nat)[:400], dict(case, native=nat))
                else:
                    chk.replays_bad += 1
                    chk.inconclusive.append("not reproduced natively: %s :: %s" % (desc, json.dumps(nat)[:300]))
    chk.extra["values_round_tripped"] = sum(f.get("values_round_tripped", 0) for f in chk.functions.values())
    chk.assumptions = [
        "values are those whose encoding fits the per-type byte bound; larger values are outside the claim",
        "single-poll executor; BinaryReader/BinaryWriter and std models as listed under stubs",
        "external text formats (url, urn, age recipients, pem, vcard, serde_json bodies) are opaque: parse and "
        "to_string are assumed inverse on the strings they accept",
        "HashSet/HashMap iteration order is insertion order in the model (sets are compared as sets)",
        "wire part: prost's byte encoder/decoder are external and assumed inverse; messages in which a field the receiver "
        "unwrap()s is absent are outside (they end in a panic contained by spawn_blocking: an Err for the caller); the "
        "message space is the canonical fully populated message plus every combination of at most `variation_budget` "
        "structural deviations",
    ]
    rep.close()
    return chk.finish(rule="one state = one path of decode;encode;decode over symbolic bytes; obligations = encode ok, "
                           "decode ok, exact consumption, determinism, v2 == v1 per path")


def replay(path):
    case = json.load(open(path))
    rep = Replayer("dev")
    nat = rep.run({"op": case.get("op", "roundtrip"), "ty": case["ty"], "bytes": case["bytes"]})
    rep.close()
    print(json.dumps(nat))
    bad = nat["outcome"] in ("panic", "abort") or (nat["outcome"] == "err" and nat.get("stage") != "decode1") \
        or (nat["outcome"] == "ok" and (not nat.get("stable") or nat.get("reencode_equals_input") is False))
    if bad:
        print("VIOLATION property=%s replay=%s" % (PROP, path))
        return 1
    return 0
