"""C05 — merging never loses, duplicates or resurrects committed edits (merge_patches kernel).

`AutoMerge::merge_patches` (the provided trait method, from the MIR of sos-remote-sync) is
executed on a local and a remote suffix of concrete lengths whose records have symbolic
timestamps (ties and skew included) and symbolic commit identifiers (any equality pattern
across the two sides).  Oracle, decided by z3 per path:  local subset-of remote  =>
RewindLocal(remote) unchanged;  otherwise PushRemote(p) where p is ordered by time, stable
with respect to local-then-remote order, contains every local and every remote commit, and
contains each commit exactly once even when both sides made the byte-identical event.
"""
import itertools
import json
import os
import time
import z3

from .common import Check, Replayer
from . import par
from mirsym import harness as H
from mirsym import models as M
from mirsym import merkle as MK
from mirsym.engine import (Cell, Ref, Int, EnumV, Agg, VecV, Opaque, Inconclusive, Untranslatable, bz3)

PROP = "C05"
CRATES = ["sos_core", "sos_remote_sync"]


def sym_records(ctx, side, n):
    recs = []
    metas = []
    for i in range(n):
        secs = z3.BitVec("%s%d_s" % (side, i), 64)
        nanos = z3.BitVec("%s%d_n" % (side, i), 32)
        cid = z3.BitVec("%s%d_c" % (side, i), 16)
        ctx.add(z3.And(secs >= 0, secs <= 4000000000, z3.ULT(nanos, 10 ** 9)))
        t = Agg("struct", "UtcDateTime", [Cell(M.odt(Int(secs, 64, True), Int(nanos, 32)))])
        zero = Agg("struct", "CommitHash", [Cell(MK.HashV("leaf", 0xFFFF))])
        commit = Agg("struct", "CommitHash", [Cell(MK.HashV("leaf", cid))])
        recs.append(Agg("struct", "EventRecord", [Cell(t), Cell(zero), Cell(commit), Cell(M.bytes_from_concrete(b""))]))
        metas.append({"secs": secs, "nanos": nanos, "cid": cid})
    # within one log a commit occurs once
    for a, b in itertools.combinations(metas, 2):
        ctx.add(a["cid"] != b["cid"])
    return recs, metas


def rec_fields(r):
    """(secs z3, nanos z3, commit id z3) of an EventRecord value"""
    o = r.fields[0].v.fields[0].v
    secs, nanos = o.fields[0].v, o.fields[1].v
    h = r.fields[2].v.fields[0].v
    return secs.z3(), nanos.z3(), h.a


def run_pair(prog, nl, nr):
    name = "local=%d remote=%d" % (nl, nr)
    out = {"entry": name, "states": 0, "queries": 0, "solver_s": 0.0, "obligations": 0, "discharged": 0,
           "inconclusive": [], "gaps": {}, "reports": [], "samples": [], "stubs": [], "kinds": {}}
    eng = H.new_engine(prog, loop_bound=64, max_paths=60000)
    _c0 = H.cross_begin()

    def thunk(ctx):
        lrec, lmeta = sym_records(ctx, "l", nl)
        rrec, rmeta = sym_records(ctx, "r", nr)
        ctx.metas = (lmeta, rmeta)
        fut = eng.call_named("AutoMerge::merge_patches", [Ref(Cell(Opaque("Self"))), VecV("EventRecord", [Cell(x) for x in lrec]),
                                                          VecV("EventRecord", [Cell(x) for x in rrec])], None)
        r = H.poll_to_result(eng, ctx, fut)
        if r.variant != "Ok":
            raise Inconclusive("merge_patches returned Err")
        st = r.fields[0].v
        return (st.variant, [c.v for c in st.fields[0].v.items])

    def concrete(m, metas):
        return [{"secs": m.eval(x["secs"], model_completion=True).as_signed_long(),
                 "nanos": m.eval(x["nanos"], model_completion=True).as_long(),
                 "commit": m.eval(x["cid"], model_completion=True).as_long()} for x in metas]

    def check(res, cond, what):
        out["obligations"] += 1
        if cond is True or (z3.is_expr(cond) and z3.is_true(z3.simplify(cond))):
            out["discharged"] += 1
            return
        s = z3.SolverFor("QF_ABV")
        for c in res.pc:
            s.add(bz3(c))
        s.add(z3.Not(bz3(cond)))
        t = time.time()
        r = s.check()
        out["solver_s"] += time.time() - t
        if not H.cross_check(s, r, what if "what" in dir() else ""):
            out["inconclusive"].append("second solver disagrees: %s" % H.CROSS["disagree"][-1])
        out["queries"] += 1
        if r == z3.unsat:
            out["discharged"] += 1
            return
        if r != z3.sat:
            out["inconclusive"].append("%s: solver unknown (%s)" % (name, what))
            return
        m = s.model()
        lm, rm = res.ctx.metas
        out["reports"].append(("merge_patches|%s" % what, "%s: %s" % (name, what),
                               {"op": "merge_patches", "what": what, "local": concrete(m, lm), "remote": concrete(m, rm)}))

    def on_result(res):
        out["states"] += 1
        out["kinds"][res.kind] = out["kinds"].get(res.kind, 0) + 1
        if res.kind == "untranslatable":
            k = "%s @ %s" % (res.err[0], str(res.err[1])[:200])
            out["gaps"][k] = out["gaps"].get(k, 0) + 1
            return
        if res.kind != "ret":
            out["inconclusive"].append("%s: path ended with %s %r" % (name, res.kind, res.err))
            return
        status, recs = res.value
        lm, rm = res.ctx.metas
        subset = z3.And(*[z3.Or(*[l["cid"] == r["cid"] for r in rm]) if rm else z3.BoolVal(False) for l in lm]) if lm else z3.BoolVal(True)
        outf = [rec_fields(r) for r in recs]
        if status == "RewindLocal":
            check(res, subset, "RewindLocal although a local commit is missing from the remote suffix")
            same = len(outf) == len(rm)
            cond = z3.BoolVal(same)
            if same:
                cond = z3.And(*[z3.And(o[0] == r["secs"], o[1] == r["nanos"], o[2] == r["cid"]) for o, r in zip(outf, rm)]) if rm else z3.BoolVal(True)
            check(res, cond, "RewindLocal does not hand back the remote suffix unchanged")
        else:
            check(res, z3.Not(subset), "PushRemote although every local commit already exists on the remote")
            # ordered by time
            for a, b in zip(outf, outf[1:]):
                check(res, z3.Or(a[0] < b[0], z3.And(a[0] == b[0], z3.ULE(a[1], b[1]))), "merged patch is not ordered by time")
            # every input commit is present
            for side, metas in (("local", lm), ("remote", rm)):
                for x in metas:
                    check(res, z3.Or(*[o[2] == x["cid"] for o in outf]) if outf else z3.BoolVal(False),
                          "a %s commit is missing from the merged patch" % side)
            # exactly once
            for a, b in itertools.combinations(outf, 2):
                check(res, a[2] != b[2], "a commit made identically on both sides appears twice in the merged patch")
            # nothing else
            for o in outf:
                check(res, z3.Or(*[o[2] == x["cid"] for x in lm + rm]), "merged patch contains a commit from neither side")
            # records of one device that carry the same timestamp keep their log order (create-then-delete made in
            # the same instant must not come out as delete-then-create)
            for side, metas in (("local", lm), ("remote", rm)):
                for i in range(len(metas)):
                    for j in range(i + 1, len(metas)):
                        a, b = metas[i], metas[j]
                        others = rm if side == "local" else lm
                        # a record that was also made on the other side is represented by one copy, which carries
                        # that copy's own timestamp: only records unique to this side are bound to their log order
                        unique = z3.And(*[z3.And(o["cid"] != a["cid"], o["cid"] != b["cid"]) for o in others]) if others else z3.BoolVal(True)
                        tie = z3.And(unique, a["secs"] == b["secs"], a["nanos"] == b["nanos"])
                        swapped = z3.Or(*[z3.And(outf[k1][2] == a["cid"], outf[k2][2] == b["cid"])
                                          for k1 in range(len(outf)) for k2 in range(k1)]) if len(outf) > 1 else z3.BoolVal(False)
                        check(res, z3.Implies(tie, z3.Not(swapped)),
                              "two %s records with the same timestamp come out in the opposite of their log order" % side)
        if not out["samples"]:
            mm = H.witness_for(res)
            if mm is not None:
                out["samples"].append({"local": concrete(mm, lm), "remote": concrete(mm, rm), "status": status, "merged_len": len(recs)})

    try:
        eng.explore(thunk, on_result=on_result)
    except Inconclusive as e:
        out["inconclusive"].append("%s: %s" % (name, e))
    st = eng.stats
    out["queries"] += st.queries
    out["solver_s"] += st.solver_s
    out["blocks"] = {prog.pretty(kk[1]): len(vv) for kk, vv in st.blocks_hit.items()}
    out["stubs"] = sorted(set(c.split("::<")[0][:80] for c in st.calls_modelled))
    out["cross"] = H.cross_end(_c0)
    return out


def oracle_violated(case, nat):
    if nat.get("outcome") != "ok":
        return False
    L, R = case["local"], case["remote"]
    lc, rc = [x["commit"] for x in L], [x["commit"] for x in R]
    recs = nat["records"]
    oc = [x["commit"] for x in recs]
    subset = all(c in rc for c in lc)
    if nat["status"] == "RewindLocal":
        return (not subset) or oc != rc
    if subset:
        return True
    times = [(x["secs"], x["nanos"]) for x in recs]
    if times != sorted(times):
        return True
    if len(set(oc)) != len(oc):
        return True
    if set(oc) != set(lc) | set(rc):
        return True
    for side in (L, R):
        for i in range(len(side)):
            for j in range(i + 1, len(side)):
                a, b = side[i], side[j]
                other = rc if side is L else lc
                if a["commit"] in other or b["commit"] in other:
                    continue
                if (a["secs"], a["nanos"]) == (b["secs"], b["nanos"]) and a["commit"] in oc and b["commit"] in oc \
                        and oc.index(a["commit"]) > oc.index(b["commit"]):
                    return True
    return False


def run(tier, regenerate=True):
    chk = Check(PROP, tier)
    max_n = 2 if tier == "quick" else 3
    chk.bounds = {"local_suffix_max": max_n, "remote_suffix_max": max_n, "local_plus_remote_max": 4 if tier == "quick" else 5,
                  "times": "symbolic seconds+nanos",
                  "commits": "symbolic 16-bit ids, distinct within one side"}
    prog = H.load_program(CRATES, regenerate=regenerate)
    chk.extra["mir_regeneration_s"] = prog.timings
    # thorough: every pair up to 3 x 3 except 3 x 3 itself (tens of thousands of paths: hours)
    pairs = [(a, b) for a in range(0, max_n + 1) for b in range(0, max_n + 1) if 0 < a + b <= (4 if tier == "quick" else 5)]
    results = par.map_entries(lambda p: run_pair(prog, p[0], p[1]), pairs)
    rep = None
    blocks = {}
    for out in results:
        if isinstance(out, Exception) or out is None:
            chk.inconclusive.append("worker failed: %r" % (out,))
            continue
        chk.add_cross(out)
        chk.states += out["states"]
        chk.transitions += out["queries"]
        chk.solver_s += out["solver_s"]
        chk.obligations += out["obligations"]
        chk.discharged += out["discharged"]
        chk.inconclusive.extend(out["inconclusive"])
        chk.stubs.update(out["stubs"])
        if len(chk.samples) < 6:
            chk.samples.extend(out["samples"])
        for kk, n in out["gaps"].items():
            chk.gaps[kk] = chk.gaps.get(kk, 0) + n
        for kk, n in out.get("blocks", {}).items():
            blocks[kk] = max(blocks.get(kk, 0), n)
        for key, desc, case in out["reports"]:
            if rep is None:
                rep = Replayer("dev")
                rep.build()
            nat = rep.run(case)
            if oracle_violated(case, nat):
                chk.replays_ok += 1
                chk.report(key, desc + "; local=%s remote=%s native=%s" % (
                    json.dumps(case["local"]), json.dumps(case["remote"]), json.dumps(nat)[:300]), case)
            else:
                chk.replays_bad += 1
                chk.inconclusive.append("not reproduced natively: %s :: %s" % (desc, json.dumps(nat)[:300]))
    if rep is not None:
        rep.close()
    chk.functions = {kk: {"mir_blocks_executed": v} for kk, v in sorted(blocks.items())}
    chk.assumptions = [
        "kernel only: AutoMerge::merge_patches; the rewind/patch I/O on both sides, sync orders and three devices are outside",
        "commit hashes are ideal identifiers; within one side every commit occurs once",
        "tracing is disabled; `self` is never used by the provided method",
    ]
    return chk.finish(rule="one state = one path of merge_patches for one (|local|,|remote|) pair with symbolic times and commits")


def replay(path):
    case = json.load(open(path))
    rep = Replayer("dev")
    nat = rep.run(case)
    rep.close()
    print(json.dumps(nat))
    if oracle_violated(case, nat):
        print("VIOLATION property=%s replay=%s" % (PROP, path))
        return 1
    return 0
