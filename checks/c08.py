"""C08 — commit comparison tells the truth about who is ahead.

`CommitTree::{append,commit,head,proof,compare}` and `CommitProof::verify_leaves` are executed
from the MIR of the current tree on two leaf sequences A, B of concrete lengths whose leaves
are symbolic identifiers (so every equality pattern between the two logs is covered by one
query).  rs_merkle is the ideal-hash model in mirsym/merkle.py, validated on every run against
the real crate through the native driver.  The oracle is the prefix relation on the raw
sequences.
"""
import hashlib
import itertools
import json
import time
import z3

from .common import Check, Replayer
from . import par
from mirsym import harness as H
from mirsym import models as M
from mirsym import merkle as MK
from mirsym.engine import (Cell, Ref, Int, EnumV, Agg, VecV, Inconclusive, int_binop, bz3, to_bool, b_and)

PROP = "C08"
CRATES = ["sos_core"]


# ------------------------------------------------------------------ model validation against rs_merkle

def leaf_bytes(i):
    return hashlib.sha256(b"leaf-%d" % i).digest()


def validate_model(chk, rep, max_n):
    """concrete-mode port vs the real rs_merkle: roots, leaves, proofs, verification matrix"""
    n_ok = 0
    scripts = []
    for n in range(1, max_n + 1):
        scripts.append([list(range(n))])
        for k in range(1, n):
            scripts.append([list(range(k)), list(range(k, n))])
    # three batches and rollbacks
    scripts.append([[0], [1], [2]])
    scripts.append([[0, 1], [2], [3, 4]])
    rollbacks = [([[0, 1], [2, 3]], 1), ([[0], [1], [2]], 1), ([[0, 1, 2], [3]], 1), ([[0], [1, 2], [3, 4, 5]], 2)]
    cases = [(s, 0) for s in scripts] + rollbacks
    for batches, nrb in cases:
        steps = []
        t = MK.MerkleTreeV(MK.sha_concat)
        for b in batches:
            steps.append({"append": [leaf_bytes(i).hex() for i in b]})
            steps.append({"commit": 1})
            t.uncommitted.extend(leaf_bytes(i) for i in b)
            t.commit()
        for _ in range(nrb):
            steps.append({"rollback": 1})
            t.rollback()
        nat = rep.run({"op": "merkle_script", "steps": steps})
        leaves = t.leaves() or []
        mine = {"root": t.root().hex() if t.root() is not None else None, "len": t.leaves_len(),
                "leaves": [l.hex() for l in leaves], "proofs": [], "verify": []}
        for i in range(len(leaves)):
            p = t.proof([i])
            mine["proofs"].append(b"".join(p.hashes).hex())
            row = []
            if t.root() is not None:
                for total in range(1, len(leaves) + 3):
                    r = p.root([i], [leaves[i]], total)
                    row.append(r is not None and r == t.root())
            mine["verify"].append(row)
        bad = [k for k in mine if mine[k] != nat.get(k)]
        if bad:
            chk.replays_bad += 1
            chk.inconclusive.append("merkle model differs from rs_merkle on %r: fields %s (model %r, native %r)" % (
                (batches, nrb), bad, {k: mine[k] for k in bad}, {k: nat.get(k) for k in bad}))
        else:
            n_ok += 1
            chk.replays_ok += 1
    return n_ok, len(cases)


# ------------------------------------------------------------------ symbolic part

def mk_leaves(ctx, name, n):
    ids = [z3.BitVec("%s%d" % (name, i), 16) for i in range(n)]
    return ids, [MK.HashV("leaf", x) for x in ids]


def build_tree(eng, hashes):
    tree = Cell(eng.call_named("CommitTree::new", [], None))
    vec = Cell(VecV("[u8; 32]", [Cell(h) for h in hashes]))
    eng.call_named("CommitTree::append", [Ref(tree), Ref(vec)], None)
    eng.call_named("CommitTree::commit", [Ref(tree)], None)
    return tree


def unwrap_ok(r, what):
    if not isinstance(r, EnumV) or r.variant != "Ok":
        raise Inconclusive("%s returned %r" % (what, r))
    return r.fields[0].v


def pair_thunk(eng, na, nb):
    def thunk(ctx):
        ida, ha = mk_leaves(ctx, "a", na)
        idb, hb = mk_leaves(ctx, "b", nb)
        ctx.ids = (ida, idb)
        ta = build_tree(eng, ha)
        tb = build_tree(eng, hb)
        head = unwrap_ok(eng.call_named("CommitTree::head", [Ref(tb)], None), "head")
        cmp_ = unwrap_ok(eng.call_named("CommitTree::compare", [Ref(ta), Ref(Cell(head))], None), "compare")
        # single-leaf proofs of B verified against A's leaves
        leaves_a = Cell(VecV("[u8; 32]", [Cell(h) for h in ha]))
        vl = []
        for i in range(nb):
            idx = Cell(Agg("array", None, [Cell(Int(i, 64))]))
            pr = unwrap_ok(eng.call_named("CommitTree::proof", [Ref(tb), Ref(idx)], None), "proof")
            r = eng.call_named("CommitProof::verify_leaves", [Ref(Cell(pr)), Ref(leaves_a)], None)
            vl.append(r.fields[0].v)
        # compare against single-leaf proofs of B (what the ancestor scan sends)
        sc = []
        for i in range(nb):
            idx = Cell(Agg("array", None, [Cell(Int(i, 64))]))
            pr = unwrap_ok(eng.call_named("CommitTree::proof", [Ref(tb), Ref(idx)], None), "proof")
            sc.append(unwrap_ok(eng.call_named("CommitTree::compare", [Ref(ta), Ref(Cell(pr))], None), "compare(single)"))
        ctx.single = sc
        return (cmp_, vl)
    return thunk


def seq_eq(ida, idb, upto):
    return z3.And(*[ida[i] == idb[i] for i in range(upto)]) if upto else z3.BoolVal(True)


def classify_compare(cmp_):
    if cmp_.variant == "Contains":
        v = cmp_.fields[0].v
        idx = []
        for c in v.items:
            x = c.v
            idx.append(x.v if isinstance(x, Int) and x.concrete else None)
        return "Contains", idx
    return cmp_.variant, None


def run_pair(prog, na, nb):
    out = {"pair": [na, nb], "states": 0, "queries": 0, "solver_s": 0.0, "obligations": 0, "discharged": 0,
           "cex": [], "gaps": {}, "inconclusive": [], "stubs": []}
    eng = H.new_engine(prog, loop_bound=64)
    _c0 = H.cross_begin()
    ida = idb = None

    def check(res, cond, what, expect):
        """cond must be valid on this path; returns a counterexample model or None"""
        out["obligations"] += 1
        s = z3.SolverFor("QF_ABV")
        for c in res.pc:
            s.add(bz3(c))
        s.add(z3.Not(bz3(cond)))
        t = time.time()
        r = s.check()
        out["solver_s"] += time.time() - t
        if not H.cross_check(s, r, what if "what" in dir() else ""):
            out["inconclusive"].append("second solver disagrees: %s" % H.CROSS["disagree"][-1])
        out["queries"] += 1
        if r == z3.unsat:
            out["discharged"] += 1
            return
        if r != z3.sat:
            out["inconclusive"].append("pair %s: solver unknown on %s" % ((na, nb), what))
            return
        m = s.model()
        a = [m.eval(x, model_completion=True).as_long() for x in res.ctx.ids[0]]
        b = [m.eval(x, model_completion=True).as_long() for x in res.ctx.ids[1]]
        out["cex"].append({"what": what, "a": a, "b": b, "expect": expect})

    def on_result(res):
        out["states"] += 1
        if res.kind == "untranslatable":
            k = res.err[0]
            out["gaps"][k + " @ " + str(res.err[1])[:160]] = out["gaps"].get(k, 0) + 1
            return
        if res.kind != "ret":
            out["inconclusive"].append("pair %s: path ended with %s %r" % ((na, nb), res.kind, res.err))
            return
        ida, idb = res.ctx.ids
        cmp_, vl = res.value
        kind, idx = classify_compare(cmp_)
        eqseq = z3.And(na == nb, seq_eq(ida, idb, min(na, nb))) if na == nb else z3.BoolVal(False)
        prefix = seq_eq(ida, idb, nb) if nb < na else z3.BoolVal(False)
        if kind == "Equal":
            check(res, eqseq, "compare=Equal", "Equal only when both logs hold the same sequence")
        elif kind == "Contains":
            check(res, prefix, "compare=Contains", "Contains only when the other log is a proper prefix")
            if idx != [nb - 1]:
                mm = H.witness_for(res)
                if mm is not None:
                    out["obligations"] += 1
                    out["cex"].append({"what": "compare=Contains indices", "expect": "indices == [len(B)-1], got %r" % (idx,),
                                       "a": [mm.eval(x, model_completion=True).as_long() for x in ida],
                                       "b": [mm.eval(x, model_completion=True).as_long() for x in idb]})
        elif kind == "Unknown":
            check(res, z3.Not(z3.Or(eqseq, prefix)), "compare=Unknown", "Unknown only when neither equal nor prefix")
        else:
            out["inconclusive"].append("compare returned %r" % (cmp_,))
        for i, c1 in enumerate(getattr(res.ctx, "single", [])):
            k1, ix1 = classify_compare(c1)
            agree = (ida[i] == idb[i]) if i < na else z3.BoolVal(False)
            if k1 == "Equal":
                check(res, eqseq, "compare(single[%d])=Equal" % i, "Equal only when both logs hold the same sequence")
            elif k1 == "Contains":
                check(res, agree, "compare(single[%d])=Contains" % i, "Contains for a single-leaf proof only when that position agrees")
                if ix1 != [i]:
                    mm = H.witness_for(res)
                    if mm is not None:
                        out["obligations"] += 1
                        out["cex"].append({"what": "compare(single[%d])=Contains indices" % i, "expect": "indices == [%d], got %r" % (i, ix1),
                                           "a": [mm.eval(x, model_completion=True).as_long() for x in ida],
                                           "b": [mm.eval(x, model_completion=True).as_long() for x in idb]})
            elif k1 == "Unknown":
                check(res, z3.Not(z3.Or(eqseq, agree)), "compare(single[%d])=Unknown" % i, "Unknown only when the proven position does not agree")
        for i, r in enumerate(vl):
            if i >= na:
                continue
            agree = ida[i] == idb[i]
            check(res, z3.Implies(agree, bz3(r)), "verify_leaves[%d] completeness" % i,
                  "a proof of index %d of B verifies against A when A[%d] == B[%d]" % (i, i, i))
            check(res, z3.Implies(bz3(r), agree), "verify_leaves[%d] soundness" % i,
                  "verification succeeds only when the proven position agrees")

    try:
        eng.explore(pair_thunk(eng, na, nb), on_result=on_result)
    except Inconclusive as e:
        out["inconclusive"].append("pair %s: %s" % ((na, nb), e))
    st = eng.stats
    out["queries"] += st.queries
    out["solver_s"] += st.solver_s
    out["blocks"] = {prog.pretty(k[1]): len(v) for k, v in st.blocks_hit.items()}
    out["stubs"] = sorted(set(c.split("::<")[0][:80] for c in st.calls_modelled))
    out["cross"] = H.cross_end(_c0)
    return out


def leaf_hex(sym):
    return hashlib.sha256(b"id-%d" % sym).hexdigest()


def finding_key(cex, nat):
    """role-based key of a confirmed counterexample (not the concrete ids)"""
    a, b = cex["a"], cex["b"]
    what = cex["what"]
    if what == "compare=Contains indices":
        return "compare=Contains|reported position is not the other log's last index"
    if what.startswith("compare(single"):
        kind = what.split("=")[1]
        return "compare(single-leaf proof)=%s" % kind
    if what.startswith("compare="):
        last_match = len(a) >= len(b) and len(b) > 0 and a[len(b) - 1] == b[len(b) - 1]
        rel = "lenA>lenB" if len(a) > len(b) else ("lenA=lenB" if len(a) == len(b) else "lenA<lenB")
        return "%s|not-in-relation|last-leaf-of-B-%s-in-A|%s" % (what, "matches" if last_match else "differs", rel)
    rel = "same-length" if len(a) == len(b) else "different-length"
    return "%s|%s" % (what.split("[")[0] + " " + what.split("] ")[1], rel)


def run(tier, regenerate=True):
    chk = Check(PROP, tier)
    max_n = 4 if tier == "quick" else 7
    chk.bounds = {"max_len_A": max_n, "max_len_B": max_n, "leaf_ids": "symbolic 16-bit identifiers",
                  "hash": "ideal (free term algebra)"}
    prog = H.load_program(CRATES, regenerate=regenerate)
    chk.extra["mir_regeneration_s"] = prog.timings
    rep = Replayer("dev")
    rep.build()
    ok_n, total = validate_model(chk, rep, 8)
    chk.extra["merkle_model_validation"] = {"scripts_agreeing": ok_n, "scripts": total}
    pairs = [(a, b) for a in range(1, max_n + 1) for b in range(1, max_n + 1)]
    pairs.sort(key=lambda p: -(p[0] + p[1]))
    results = par.map_entries(lambda p: run_pair(prog, p[0], p[1]), pairs)
    blocks = {}
    for out in results:
        if isinstance(out, Exception) or out is None:
            chk.inconclusive.append("worker failed: %r" % (out,))
            continue
        chk.add_cross(out)
        chk.states += out["states"]
        chk.transitions += out["queries"]
        chk.solver_s += out["solver_s"]
        chk.obligations += out["obligations"]
        chk.discharged += out["discharged"]
        chk.inconclusive.extend(out["inconclusive"])
        chk.stubs.update(out["stubs"])
        for k, n in out["gaps"].items():
            chk.gaps[k] = chk.gaps.get(k, 0) + n
        for k, n in out.get("blocks", {}).items():
            blocks[k] = max(blocks.get(k, 0), n)
        for cex in out["cex"]:
            if cex["a"] is None:
                chk.inconclusive.append("pair %s: %s (%s)" % (out["pair"], cex["what"], cex["expect"]))
                continue
            case = {"op": "compare", "a": [leaf_hex(x) for x in cex["a"]], "b": [leaf_hex(x) for x in cex["b"]]}
            nat = rep.run(case)
            confirmed = confirm(cex, nat)
            if confirmed:
                chk.replays_ok += 1
                key = finding_key(cex, nat)
                desc = "%s violated: A=%s B=%s (leaf ids); native: %s; expected: %s" % (
                    cex["what"], cex["a"], cex["b"], json.dumps(nat.get("compare")) if cex["what"].startswith("compare") else
                    json.dumps(nat.get("verify_leaves")), cex["expect"])
                chk.report(key, desc, dict(case, what=cex["what"], expect=cex["expect"], ids_a=cex["a"], ids_b=cex["b"]))
                if len(chk.samples) < 8:
                    chk.samples.append({"A": cex["a"], "B": cex["b"], "obligation": cex["what"], "native": nat.get("compare")})
            else:
                chk.replays_bad += 1
                chk.inconclusive.append("counterexample %r not reproduced natively: %r" % (cex, nat))
    chk.functions = {k: {"mir_blocks_executed": v} for k, v in sorted(blocks.items())}
    if not chk.samples:
        chk.samples.append({"pairs": pairs[:6], "note": "every obligation discharged (unsat)"})
    rep.close()
    chk.assumptions = [
        "SHA-256 is collision free (hashes are terms of a free algebra)",
        "rs_merkle 1.5 behaves as mirsym/merkle.py (checked against the real crate on every run for sizes <= 8, "
        "multi-batch commits and rollbacks)",
        "sequence lengths <= %d; trees built by one append+commit (batched commits are covered by the model validation only)" % max_n,
    ]
    return chk.finish(rule="one state = one path of compare/verify_leaves for one (|A|,|B|) pair with symbolic leaves; "
                           "obligations = oracle implications decided by z3 per path")


def confirm(cex, nat):
    """does the native result violate the oracle the same way?"""
    if nat.get("outcome") != "ok":
        return False
    a, b = cex["a"], cex["b"]
    what = cex["what"]
    eqseq = a == b
    prefix = len(b) < len(a) and a[:len(b)] == b
    if what == "compare=Contains indices":
        return nat["compare"]["kind"] == "Contains" and nat["compare"].get("indices") != [len(b) - 1]
    if what.startswith("compare(single"):
        i = int(what.split("[")[1].split("]")[0])
        c1 = nat.get("compare_single", [])[i]
        agree = i < len(a) and a[i] == b[i]
        if "indices" in what:
            return c1["kind"] == "Contains" and c1.get("indices") != [i]
        k = c1["kind"]
        if k == "Equal":
            return not eqseq
        if k == "Contains":
            return not agree
        if k == "Unknown":
            return eqseq or agree
        return False
    if what.startswith("compare="):
        k = nat["compare"]["kind"]
        if k == "Equal":
            return not eqseq
        if k == "Contains":
            return not prefix
        if k == "Unknown":
            return eqseq or prefix
        return False
    i = int(what.split("[")[1].split("]")[0])
    v = nat["verify_leaves"][i]["verified"]
    agree = i < len(a) and a[i] == b[i]
    if "completeness" in what:
        return agree and not v
    return v and not agree


def replay(path):
    case = json.load(open(path))
    rep = Replayer("dev")
    nat = rep.run({"op": "compare", "a": case["a"], "b": case["b"]})
    rep.close()
    print(json.dumps(nat))
    cex = {"a": case["ids_a"], "b": case["ids_b"], "what": case["what"]}
    if confirm(cex, nat):
        print("VIOLATION property=%s replay=%s" % (PROP, path))
        return 1
    return 0
