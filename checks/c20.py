"""C20 — the search index always matches what the folders contain (index bookkeeping kernel).

`SearchIndex::{prepare, commit, add, update, remove, remove_vault}` and
`DocumentCount::{add, remove}` are executed from the MIR of sos-search on every history of
up to N operations over two folders x two secret ids, starting from the empty index, with
symbolic kind / tag / favourite attributes and an optional archive folder.  After the
history, on every feasible path: `documents()` holds exactly one entry per live
(folder, id); the per-folder, per-kind, per-tag and favourites counters equal a recount of
`documents()`; the keys handed to the text index are the document keys.
"""
import itertools
import json
import os
import time
import z3

from .common import Check, Replayer
from . import par
from mirsym import harness as H
from mirsym import models as M
from mirsym.engine import (Cell, Ref, Int, EnumV, Agg, VecV, Inconclusive, Untranslatable, bz3, deep_copy,
                           bytes_from_concrete)

PROP = "C20"
CRATES = ["sos_core", "sos_vault", "sos_search"]
KINDS = [("Note", 1), ("Account", 3)]


def uuid(n):
    return Agg("struct", "Uuid", [Cell(Agg("array", None, [Cell(Int(n if i == 0 else 0, 8)) for i in range(16)]))])


def uuid_b0(u):
    x = M.deref(u)
    return x.fields[0].v.fields[0].v.v


def op_choices():
    out = []
    for f in (0, 1):
        for i in (0, 1):
            out.append(("add", f, i))
            out.append(("update", f, i))
            out.append(("remove", f, i))
        out.append(("remove_vault", f, None))
    return out


def make_meta(eng, ctx, tag, prog, sym_kind=True, sym_tag=True):
    """SecretMeta with symbolic kind (Note|Account), symbolic tag set ({} or {"t"}), symbolic favourite"""
    meta = eng.call_named("<SecretMeta as Default>::default", [], None)
    kind_sel = ctx.branch(z3.Bool(tag + "_kind")) if sym_kind else False
    kname, _ = KINDS[1 if kind_sel else 0]
    d = prog.enum_variant("SecretType", kname)
    meta.fields[0].v = EnumV("SecretType", kname, d, [])
    k8 = eng.call_named("<u8 as From<&SecretType>>::from", [Ref(Cell(EnumV("SecretType", kname, d, [])))], None)
    meta.fields[2].v = bytes_from_concrete(("L" + tag).encode(), utf8=True)
    tags = M.SetV("HashSet")
    has_tag = ctx.branch(z3.Bool(tag + "_tag")) if sym_tag else True
    if has_tag:
        tags.items.append(bytes_from_concrete(b"t", utf8=True))
    meta.fields[3].v = tags
    fav = ctx.branch(z3.Bool(tag + "_fav"))
    meta.fields[4].v = fav
    return meta, {"kind": kname, "kind_u8": k8.v, "tag": has_tag, "favorite": fav}


def run_shape(prog, shape):
    archive, ops = shape
    name = "archive=%s %s" % (archive, " ".join("%s(%s%s)" % (o[0], o[1], "" if o[2] is None else ",%d" % o[2]) for o in ops))
    out = {"entry": name, "states": 0, "queries": 0, "solver_s": 0.0, "obligations": 0, "discharged": 0,
           "inconclusive": [], "gaps": {}, "reports": [], "samples": [], "stubs": [], "kinds": {}}
    eng = H.new_engine(prog, loop_bound=64)

    def thunk(ctx):
        idx = Cell(eng.call_named("SearchIndex::new", [], None))
        if archive is not None:
            eng.call_named("SearchIndex::set_archive_id", [Ref(idx), M.some(uuid(archive))], None)
        secret = Cell(eng.call_named("<Secret as Default>::default", [], None))
        live = {}
        attrs = []
        for n, (op, f, i) in enumerate(ops):
            fid, sid = Ref(Cell(uuid(f))), (Ref(Cell(uuid(i))) if i is not None else None)
            if op in ("add", "update"):
                meta, a = make_meta(eng, ctx, "op%d" % n, prog)
                attrs.append(a)
                eng.call_named("SearchIndex::%s" % op, [Ref(idx), fid, sid, Ref(Cell(meta)), Ref(secret)], None)
                if op == "add":
                    live.setdefault((f, i), a)
                else:
                    live[(f, i)] = a
            elif op == "remove":
                attrs.append(None)
                eng.call_named("SearchIndex::remove", [Ref(idx), fid, sid], None)
                live.pop((f, i), None)
            else:
                attrs.append(None)
                eng.call_named("SearchIndex::remove_vault", [Ref(idx), fid], None)
                for k in [k for k in live if k[0] == f]:
                    live.pop(k)
        return (idx.v, live, attrs)

    def b0(u):
        x = M.deref(u)
        return x.fields[0].v.fields[0].v.v

    def on_result(res):
        out["states"] += 1
        out["kinds"][res.kind] = out["kinds"].get(res.kind, 0) + 1
        if res.kind == "untranslatable":
            k = "%s @ %s" % (res.err[0], str(res.err[1])[:200])
            out["gaps"][k] = out["gaps"].get(k, 0) + 1
            return
        if res.kind != "ret":
            out["inconclusive"].append("%s: path ended with %s %r" % (name, res.kind, res.err))
            return
        index, live, attrs = res.value
        kind_u8 = {a["kind"]: a["kind_u8"] for a in attrs if a}
        text_index, docs, stats = index.fields[0].v, index.fields[1].v, index.fields[2].v
        count = stats.fields[0].v
        vaults, kinds, tags, favs = count.fields[0].v, count.fields[1].v, count.fields[2].v, count.fields[3].v

        def bad(what, detail):
            out["reports"].append(("index|%s" % what, "%s: %s (%s)" % (name, what, detail),
                                   {"op": "search_history", "what": what, "archive": archive,
                                    "ops": [{"op": o[0], "folder": o[1], "id": o[2], "attrs": a} for o, a in zip(ops, attrs)]}))

        # documents == live set
        out["obligations"] += 1
        have = sorted((b0(k.fields[1].v), b0(k.fields[2].v)) for k, _ in docs.entries)
        if have != sorted(live.keys()):
            bad("documents differ from the live secrets", "documents=%s live=%s" % (have, sorted(live)))
        else:
            out["discharged"] += 1
        # every document carries the attributes last written for its secret
        out["obligations"] += 1
        stale = []
        for k, c in docs.entries:
            key = (b0(k.fields[1].v), b0(k.fields[2].v))
            a = live.get(key)
            if a is None:
                continue
            meta = c.v.fields[2].v
            got = (meta.fields[0].v.variant, len(meta.fields[3].v.items) > 0, meta.fields[4].v is True)
            if got != (a["kind"], bool(a["tag"]), bool(a["favorite"])):
                stale.append((key, got, (a["kind"], a["tag"], a["favorite"])))
        if stale:
            bad("a document does not carry its secret's current kind / tags / favourite flag", "stale=%s" % (stale,))
        else:
            out["discharged"] += 1
        # recount
        rec_v, rec_k, rec_t, rec_f = {}, {}, {}, 0
        for k, c in docs.entries:
            d = c.v
            f = b0(d.fields[0].v)
            meta = d.fields[2].v
            rec_v[f] = rec_v.get(f, 0) + 1
            kd = kind_u8[meta.fields[0].v.variant]
            if archive is None or f != archive:
                rec_k[kd] = rec_k.get(kd, 0) + 1
            for t in meta.fields[3].v.items:
                rec_t["t"] = rec_t.get("t", 0) + 1
            if meta.fields[4].v is True:
                rec_f += 1
        got_v = {b0(k): c.v.v for k, c in vaults.entries}
        got_k = {k.v: c.v.v for k, c in kinds.entries}
        got_t = {"t": c.v.v for k, c in tags.entries}
        for what, got, want in (("per-folder counters", got_v, rec_v), ("per-kind counters", got_k, rec_k), ("per-tag counters", got_t, rec_t)):
            out["obligations"] += 1
            keys = set(got) | set(want)
            if any(got.get(k, 0) != want.get(k, 0) for k in keys):
                bad("%s differ from a recount" % what, "counters=%s recount=%s" % (got, want))
            else:
                out["discharged"] += 1
        out["obligations"] += 1
        if not (favs.concrete and favs.v == rec_f):
            bad("favourites counter differs from a recount", "counter=%s recount=%d" % (favs, rec_f))
        else:
            out["discharged"] += 1
        out["obligations"] += 1
        tkeys = sorted((b0(k.fields[0].v), b0(k.fields[1].v)) for k in text_index.keys)
        if tkeys != have:
            bad("text index keys differ from the documents", "text=%s documents=%s" % (tkeys, have))
        else:
            out["discharged"] += 1
        if not out["samples"]:
            out["samples"].append({"history": name, "attrs": attrs, "documents": have, "folder_counters": got_v})

    try:
        eng.explore(thunk, on_result=on_result)
    except Inconclusive as e:
        out["inconclusive"].append("%s: %s" % (name, e))
    st = eng.stats
    out["queries"] += st.queries
    out["solver_s"] += st.solver_s
    out["blocks"] = {prog.pretty(kk[1]): len(vv) for kk, vv in st.blocks_hit.items()}
    out["stubs"] = sorted(set(c.split("::<")[0][:80] for c in st.calls_modelled))
    return out


def violated(case, nat):
    if nat.get("outcome") != "ok":
        return False
    return bool(nat.get("mismatch"))


def run(tier, regenerate=True):
    chk = Check(PROP, tier)
    max_n = 2 if tier == "quick" else 3
    chk.bounds = {"operations_max": max_n, "folders": 2, "secret_ids": 2, "archive_folder": [None, 0],
                  "attributes": "kind in {Note, Account}, tags in {{}, {t}}, favourite symbolic"}
    prog = H.load_program(CRATES, regenerate=regenerate)
    chk.extra["mir_regeneration_s"] = prog.timings
    shapes = []
    for arch in (None, 0):
        for n in range(1, max_n + 1):
            for ops in itertools.product(op_choices(), repeat=n):
                shapes.append((arch, ops))
    if tier == "quick":
        # a slice of the three-operation histories: two documents are indexed, then any operation (counters that
        # only go wrong when two documents share a folder, a tag or a kind need two adds first)
        for second in (("add", 0, 1), ("add", 1, 0)):
            for third in op_choices():
                shapes.append((None, (("add", 0, 0), second, third)))
        # ... and with an archive folder: one document outside it, one inside, then any operation (counters that
        # treat archived documents differently need a sibling of the same kind outside the archive)
        for third in op_choices():
            shapes.append((0, (("add", 1, 0), ("add", 0, 1), third)))
        chk.bounds["three_operation_slice"] = "add(0,0); add(other document); any operation; with archive folder 0: add(1,0); add(0,1); any operation"
    only = os.environ.get("VERIF_ONLY")
    if only:
        shapes = shapes[:int(only)]
    results = par.map_entries(lambda s: run_shape(prog, s), shapes)
    rep = None
    blocks = {}
    for out in results:
        if isinstance(out, Exception) or out is None:
            chk.inconclusive.append("worker failed: %r" % (out,))
            continue
        chk.states += out["states"]
        chk.transitions += out["queries"]
        chk.solver_s += out["solver_s"]
        chk.obligations += out["obligations"]
        chk.discharged += out["discharged"]
        chk.inconclusive.extend(out["inconclusive"])
        chk.stubs.update(out["stubs"])
        if len(chk.samples) < 6:
            chk.samples.extend(out["samples"])
        for kk, n in out["gaps"].items():
            chk.gaps[kk] = chk.gaps.get(kk, 0) + n
        for kk, n in out.get("blocks", {}).items():
            blocks[kk] = max(blocks.get(kk, 0), n)
        for key, desc, case in out["reports"]:
            if chk.findings.lookup(PROP, key) is not None and key in chk.known_hits:
                continue
            if any(k == key for k, _, _ in chk.violations):
                continue
            if rep is None:
                rep = Replayer("dev")
                rep.build()
            nat = rep.run(case)
            if violated(case, nat):
                chk.replays_ok += 1
                chk.report(key, desc + "; native: " + json.dumps(nat)[:300], case)
            else:
                chk.replays_bad += 1
                chk.inconclusive.append("not reproduced natively: %s :: %s" % (desc, json.dumps(nat)[:300]))
    if rep is not None:
        rep.close()
    chk.functions = {kk: {"mir_blocks_executed": v} for kk, v in sorted(blocks.items())}
    # ---- the merge path: <Folder as FolderMerge>::merge replays received events onto the served folder and the index
    from . import merge_replay as MR
    mprog = H.load_program(MR.CRATES, regenerate=regenerate)
    chk.extra["mir_regeneration_s"].update(mprog.timings)
    msh = MR.shapes(tier)
    chk.bounds["merge_replay"] = {"patches": len(msh), "events_per_patch_max": 2 if tier == "quick" else 3,
                                  "quick_slice": "plus three-event patches touching one id three times",
                                  "well_formed": "create of a non-live id, update/delete of a live id, rename, re-flag; merged into an empty folder"}
    mres = par.map_entries(lambda s: MR.run_shape(mprog, s), msh)
    MR.collect(chk, mres, "C20")
    chk.assumptions = [
        "index bookkeeping, and the merge replay of folder_sync.rs (<Folder as FolderMerge>::merge with the Search "
        "option, real SearchIndex, harness access point and event log); tokenisation and ranking (probly-search) are a "
        "membership set; the LocalAccount plumbing that drives the index for local edits is outside this check",
        "histories of at most %d operations from the empty index over 2 folders x 2 ids" % max_n,
    ]
    return chk.finish(rule="one state = one path of an operation history with symbolic document attributes")


def replay(path):
    case = json.load(open(path))
    if case.get("op") == "model_only":
        from . import merge_replay as MR
        if MR.replay_model(case, PROP):
            print("VIOLATION property=%s replay=%s" % (PROP, path))
            return 1
        return 0
    rep = Replayer("dev")
    nat = rep.run(case)
    rep.close()
    print(json.dumps(nat))
    if violated(case, nat):
        print("VIOLATION property=%s replay=%s" % (PROP, path))
        return 1
    return 0
