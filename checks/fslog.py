"""Harness pieces for the file-system event log (C06 per-operation, C07, C13): a FileSystemEventLog value
over the vfs model, symbolic records, calling the real trait methods from MIR."""
import z3

from mirsym import harness as H
from mirsym import models as M
from mirsym import vfs as VF
from mirsym.engine import (Cell, Ref, Int, EnumV, Agg, VecV, Opaque, Inconclusive, Untranslatable, int_binop, bz3,
                           bytes_from_ints, deep_copy)

LOG = "FileSystemEventLog<WriteEvent, Error>"
TRAIT = "<%s as EventLog<WriteEvent>>::" % LOG
PATH = "folder.events"


def identity_bytes(eng):
    v = eng.eval_const(None, "sos_core::constants::FOLDER_EVENT_LOG_IDENTITY")
    return v


def new_vfs(ctx, eng):
    vfs = VF.Vfs()
    ident = identity_bytes(eng)
    data = VF.FileData()
    for i, c in enumerate(ident.fields):
        data.arr = z3.Store(data.arr, z3.BitVecVal(i, 64), c.v.z3())
    data.length = Int(len(ident.fields), 64)
    vfs.files[PATH] = data
    ctx.vfs = vfs
    return vfs


def new_log(eng, ctx):
    """a FileSystemEventLog<WriteEvent, E> value as `new_folder` builds it (fields in declaration order)"""
    tree = eng.call_named("CommitTree::new", [], None)
    d = eng.program.enum_variant("EventLogType", "Folder")
    uuid = Agg("struct", "Uuid", [Cell(Agg("array", None, [Cell(Int(7, 8)) for _ in range(16)]))])
    return Agg("struct", "FileSystemEventLog", [
        Cell(Agg("struct", "AccountId", [Cell(Agg("array", None, [Cell(Int(0, 8)) for _ in range(20)]))])),
        Cell(EnumV("EventLogType", "Folder", d, [Cell(uuid)])),
        Cell(tree),
        Cell(VF.PathV(PATH)),
        Cell(Ref(Cell(identity_bytes(eng)))),
        Cell(M.none()),
        Cell(Agg("struct", "PhantomData", [])),
    ])


def sym_record(ctx, tag, plen=1, commit_pool=3):
    """EventRecord with symbolic time, a commit chosen symbolically from a small pool (so that byte-identical
    events occur), symbolic payload"""
    secs = z3.BitVec("%s_s" % tag, 64)
    nanos = z3.BitVec("%s_n" % tag, 32)
    ctx.add(z3.And(secs >= 0, secs <= 4000000000, z3.ULT(nanos, 10 ** 9)))
    t = Agg("struct", "UtcDateTime", [Cell(M.odt(Int(secs, 64, True), Int(nanos, 32)))])
    c = z3.BitVec("%s_c" % tag, 8)
    ctx.add(z3.ULT(c, commit_pool))
    commit = Agg("struct", "CommitHash", [Cell(Agg("array", None, [Cell(Int(c if j == 0 else 0x11, 8)) for j in range(32)]))])
    last = Agg("struct", "CommitHash", [Cell(Agg("array", None, [Cell(Int(0, 8)) for _ in range(32)]))])
    payload = bytes_from_ints([Int(z3.BitVec("%s_p%d" % (tag, j), 8), 8) for j in range(plen)])
    rec = Agg("struct", "EventRecord", [Cell(t), Cell(last), Cell(commit), Cell(payload)])
    return rec, {"secs": secs, "nanos": nanos, "commit": c}


def call(eng, ctx, log_cell, method, args):
    fut = eng.call_named(TRAIT + method + "::<'_, '_>", [Ref(log_cell)] + list(args), None)
    return H.poll_to_result(eng, ctx, fut)


def tree_of(log_value):
    return log_value.fields[2].v


def tree_state(eng, tree):
    """(leaves list, root) of a CommitTree value"""
    mt = tree.fields[0].v
    return (mt.leaves() or []), mt.root()


def reopen(eng, ctx):
    """what a restart does: a fresh log value over the same file, then load_tree"""
    log = Cell(new_log(eng, ctx))
    r = call(eng, ctx, log, "load_tree", [])
    return log, r
