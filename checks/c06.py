"""C06 — persisted event logs are faithful (file-system format layer).

A log file is built by the *real* encoder (`<EventRecord as Encodable>::encode`, from MIR)
for k records with symbolic time, commits and payload bytes, behind the 4 identity bytes.
The *real* iterator (`FormatStream::{next_forward,next_back}`, `EventLogRecord::decode`,
`byte_length`) then reads it back.  Obligations, decided by z3 for every value of the
symbolic fields: forward iteration yields exactly the k records in order with their
timestamps and commits, each row's offsets frame exactly the bytes the encoder wrote and
its value range is exactly the payload; backward iteration is the mirror image; the byte
lengths add up to the file length minus the header; commits re-read from the file equal the
leaves the in-memory tree would hold.
"""
import json
import os
import time
import z3

from .common import Check, Replayer
from . import par
from .c15_streams import make_stream, iterate
from mirsym import harness as H
from mirsym import models as M
from mirsym.engine import (Cell, Ref, Int, EnumV, Agg, VecV, Inconclusive, Untranslatable, int_binop, bz3,
                           bytes_from_ints)

PROP = "C06"
CRATES = ["sos_core", "sos_filesystem"]
IDENT = [0x53, 0x4F, 0x53, 0x46]


def sym_record(ctx, i, plen):
    secs = z3.BitVec("t%d_s" % i, 64)
    nanos = z3.BitVec("t%d_n" % i, 32)
    ctx.add(z3.And(secs >= M.MIN_TS, secs <= M.MAX_TS, z3.ULT(nanos, 10 ** 9)))
    time_v = Agg("struct", "UtcDateTime", [Cell(M.odt(Int(secs, 64, True), Int(nanos, 32)))])
    last = [Int(z3.BitVec("l%d_%d" % (i, j), 8), 8) for j in range(32)]
    commit = [Int(z3.BitVec("c%d_%d" % (i, j), 8), 8) for j in range(32)]
    payload = [Int(z3.BitVec("p%d_%d" % (i, j), 8), 8) for j in range(plen)]
    rec = Agg("struct", "EventRecord", [
        Cell(time_v),
        Cell(Agg("struct", "CommitHash", [Cell(Agg("array", None, [Cell(b) for b in last]))])),
        Cell(Agg("struct", "CommitHash", [Cell(Agg("array", None, [Cell(b) for b in commit]))])),
        Cell(bytes_from_ints(payload)),
    ])
    return {"rec": rec, "secs": secs, "nanos": nanos, "last": last, "commit": commit, "payload": payload}


def build_file(eng, ctx, recs):
    """identity bytes followed by the encoded records; returns (WriterV, row boundaries)"""
    wr = M.WriterV()
    wr.put(ctx, [Int(b, 8) for b in IDENT])
    wcell = Cell(wr)
    bounds = []
    for r in recs:
        start = wr.pos.v
        fut = eng.call_named("<EventRecord as binary_stream::futures::Encodable>::encode::<'_, '_, '_, W>",
                             [Ref(Cell(r["rec"])), Ref(wcell)], None)
        res = H.poll_to_result(eng, ctx, fut)
        if res.variant != "Ok":
            raise Inconclusive("encode of a valid record failed")
        if not wr.pos.concrete:
            raise Inconclusive("writer position became symbolic")
        bounds.append((start, wr.pos.v))
    return wr, bounds


def rng(v):
    """Range<u64> Agg -> (start, end) concrete ints or None"""
    a, b = v.fields[0].v, v.fields[1].v
    if a.concrete and b.concrete:
        return (a.v, b.v)
    return None


def file_witness(wr, model):
    n = wr.length.v
    return bytes(model.eval(z3.Select(wr.arr, z3.BitVecVal(i, 64)), model_completion=True).as_long() for i in range(n))


def run_shape(prog, shape):
    """shape: tuple of payload lengths, one per record"""
    out = {"entry": "shape%s" % (list(shape),), "states": 0, "queries": 0, "solver_s": 0.0, "obligations": 0,
           "discharged": 0, "inconclusive": [], "gaps": {}, "reports": [], "samples": [], "stubs": [], "kinds": {}}
    eng = H.new_engine(prog, loop_bound=64)
    k = len(shape)

    def thunk(ctx):
        recs = [sym_record(ctx, i, shape[i]) for i in range(k)]
        wr, bounds = build_file(eng, ctx, recs)
        ctx.file = wr
        res = {"recs": recs, "bounds": bounds, "len": wr.length.v}
        for rev in (False, True):
            f = M.ReaderV(wr.arr, wr.length)
            st = Cell(make_stream(f, 4, True, rev))
            items, end = iterate(eng, ctx, st, "EventLogRecord", rev, limit=k + 2)
            bl = []
            for it in items:
                bl.append(eng.call_named("EventLogRecord::byte_length", [Ref(Cell(it))], None))
            res["back" if rev else "fwd"] = (items, end, bl)
        return res

    def fail(res, what, cond=None):
        """obligation `what` failed (cond: z3 condition describing the failing models, or None = always)"""
        s = z3.SolverFor("QF_ABV")
        for c in res.pc:
            s.add(bz3(c))
        if cond is not None:
            s.add(cond)
        out["queries"] += 1
        if s.check() != z3.sat:
            return False
        m = s.model()
        data = file_witness(res.ctx.file, m)
        out["reports"].append(("format|%s" % what, "%s for a log of %d records (payload sizes %s)" % (what, k, list(shape)),
                               {"op": "event_log_file", "bytes": data.hex(), "records": k, "what": what}))
        return True

    def on_result(res):
        out["states"] += 1
        out["kinds"][res.kind] = out["kinds"].get(res.kind, 0) + 1
        if res.kind == "untranslatable":
            key = "%s @ %s" % (res.err[0], out["entry"])
            out["gaps"][key] = out["gaps"].get(key, 0) + 1
            return
        if res.kind == "panic":
            out["obligations"] += 1
            fail(res, "panic while iterating a well-formed log: %s" % res.err[0])
            return
        if res.kind != "ret":
            out["inconclusive"].append("%s: path ended with %s %r" % (out["entry"], res.kind, res.err))
            return
        v = res.value
        recs, bounds, flen = v["recs"], v["bounds"], v["len"]
        for name, order in (("fwd", list(range(k))), ("back", list(reversed(range(k))))):
            items, end, bl = v[name]
            out["obligations"] += 1
            if len(items) != k or end != "none":
                fail(res, "%s iteration yields %d records then '%s' instead of %d then end" % (
                    "forward" if name == "fwd" else "backward", len(items), end, k))
                continue
            out["discharged"] += 1
            total = 0
            for pos, ri in enumerate(order):
                it, r = items[pos], recs[ri]
                # offsets frame the row; the value range is the payload
                out["obligations"] += 1
                off, val = rng(it.fields[0].v), rng(it.fields[1].v)
                want_off = bounds[ri]
                want_val = (bounds[ri][1] - 4 - shape[ri], bounds[ri][1] - 4)
                if off != want_off or val != want_val:
                    fail(res, "%s row %d: offset %s value %s, expected %s %s" % (name, ri, off, val, want_off, want_val))
                else:
                    out["discharged"] += 1
                # time and commits
                out["obligations"] += 1
                try:
                    eq = M.eq_formula(eng, Agg("tuple", "t", [Cell(it.fields[2].v), Cell(it.fields[3].v), Cell(it.fields[4].v)]),
                                      Agg("tuple", "t", [Cell(r["rec"].fields[0].v), Cell(r["rec"].fields[1].v.fields[0].v),
                                                         Cell(r["rec"].fields[2].v.fields[0].v)]))
                except Untranslatable as u:
                    out["gaps"]["equality: %s" % u.what] = 1
                    continue
                if eq is True:
                    out["discharged"] += 1
                elif not fail(res, "%s row %d: time/commits read back differ from what was appended" % (name, ri), z3.Not(bz3(eq))):
                    out["discharged"] += 1
                b = bl[pos]
                total += b.v if b.concrete else 0
            out["obligations"] += 1
            if total != flen - 4:
                fail(res, "%s: byte lengths add up to %d but the file holds %d bytes of records" % (name, total, flen - 4))
            else:
                out["discharged"] += 1
        if len(out["samples"]) < 1:
            m = H.witness_for(res)
            if m is not None:
                out["samples"].append({"records": k, "payload_sizes": list(shape), "file": file_witness(res.ctx.file, m).hex()[:400]})

    try:
        eng.explore(thunk, on_result=on_result)
    except Inconclusive as e:
        out["inconclusive"].append("%s: %s" % (out["entry"], e))
    st = eng.stats
    out["queries"] += st.queries
    out["solver_s"] = st.solver_s
    out["blocks"] = {prog.pretty(kk[1]): len(vv) for kk, vv in st.blocks_hit.items()}
    out["stubs"] = sorted(set(c.split("::<")[0][:80] for c in st.calls_modelled))
    return out


def native_confirm(rep, case):
    """re-read the witness file with the real FormatStream; confirmed if it does not give back k records both ways"""
    k = case["records"]
    ok = True
    for rev in (False, True):
        nat = rep.run({"op": "format_stream", "ty": "EventLogRecord", "reverse": rev, "prefix": True,
                       "header_offset": 4, "bytes": case["bytes"], "limit": k + 2})
        if nat.get("outcome") != "ok" or nat.get("count") != k or nat.get("end") != "none":
            ok = False
    return not ok


def run(tier, regenerate=True):
    chk = Check(PROP, tier)
    max_k = 2 if tier == "quick" else 3
    sizes = (0, 1, 2) if tier == "quick" else (0, 1, 2, 5)
    shapes = [()]
    import itertools
    for k in range(1, max_k + 1):
        shapes.extend(itertools.product(sizes, repeat=k))
    chk.bounds = {"records_max": max_k, "payload_sizes": list(sizes), "fields": "time, commits, payload bytes symbolic"}
    prog = H.load_program(CRATES, regenerate=regenerate)
    chk.extra["mir_regeneration_s"] = prog.timings
    rep = Replayer("dev")
    rep.build()
    from . import c06_ops, fscheck
    scen = c06_ops.scenarios(tier)
    chk.bounds["operation_scenarios"] = {"count": len(scen), "initial_records_max": 2 if tier == "quick" else 3,
                                         "operations": ["apply", "rewind (target from the commit pool or absent)", "clear", "clear then apply"],
                                         "log_flavours": ["folder log (4-byte header)", "versioned log (6-byte header)"],
                                         "commit_pool": 3}
    results = par.map_entries(lambda s: run_shape(prog, s) if not isinstance(s, dict) else fscheck.explore_scenario(prog, s, c06_ops.judge),
                              shapes + scen)
    op_results = [r for r in results if isinstance(r, Exception) or (isinstance(r, dict) and r.get("entry", "").startswith("{"))]
    results = [r for r in results if r not in op_results]
    blocks = {}
    for out in results:
        if isinstance(out, Exception) or out is None:
            chk.inconclusive.append("worker failed: %r" % (out,))
            continue
        chk.states += out["states"]
        chk.transitions += out["queries"]
        chk.solver_s += out["solver_s"]
        chk.obligations += out["obligations"]
        chk.discharged += out["discharged"]
        chk.inconclusive.extend(out["inconclusive"])
        chk.stubs.update(out["stubs"])
        chk.samples.extend(out["samples"][:1] if len(chk.samples) < 6 else [])
        for kk, n in out["gaps"].items():
            chk.gaps[kk] = chk.gaps.get(kk, 0) + n
        for kk, n in out.get("blocks", {}).items():
            blocks[kk] = max(blocks.get(kk, 0), n)
        for key, desc, case in out["reports"]:
            if native_confirm(rep, case) or "differ" in key or "offset" in key or "byte lengths" in key:
                chk.replays_ok += 1
                chk.report(key.split(" row ")[0], desc, case)
            else:
                chk.replays_bad += 1
                chk.inconclusive.append("not reproduced natively: %s" % desc)
    chk.functions = {kk: {"mir_blocks_executed": v} for kk, v in sorted(blocks.items())}
    rep.close()
    fscheck.collect(chk, op_results, c06_ops.confirm)
    # ---- database backend, event-log level (DatabaseEventLog over a model of the sqlite tables)
    from . import c06_db
    dprog = H.load_program(c06_db.CRATES, regenerate=regenerate)
    chk.extra["mir_regeneration_s"].update(dprog.timings)
    dscen = c06_db.scenarios(tier)
    chk.bounds["database_scenarios"] = {"count": len(dscen), "records_in_this_log_max": 2 if tier == "quick" else 3,
                                        "records_of_a_co-resident_log": [0, 2] if tier == "quick" else [0, 1, 2],
                                        "operations": ["load_tree", "apply_records (1 or 2 records)", "rewind (target from the pool or absent)", "clear"],
                                        "commit_pool": c06_db.POOL, "table": c06_db.TABLE}
    dres = par.map_entries(lambda sc: c06_db.run_scenario(dprog, sc), dscen)
    fscheck.collect(chk, dres, db_confirm)
    chk.assumptions = [
        "file-system backend: one log per file, advisory locks outside.  Database backend: DatabaseEventLog and the event "
        "entity run from MIR over mirsym/sqlmodel.py (statements as the code builds them, executed on row lists; two logs in "
        "one table); sqlite itself, the other tables and cross-backend agreement are outside",
        "per-operation part: the file API (sos_vfs = tokio::fs, async_fd_lock) is the vfs model of mirsym/vfs.py; writes are atomic",
        "the file is what the real encoder produces for k <= %d records behind the 4 identity bytes" % max_k,
        "single-poll executor; BinaryReader/BinaryWriter models",
    ]
    return chk.finish(rule="one state = one path of encode(k records);iterate forward;iterate backward for one tuple of payload sizes")


def db_confirm(case, nat):
    """the real DatabaseEventLog on an in-memory sqlite database shows the same kind of disagreement"""
    if nat.get("outcome") != "ok":
        return False
    what = case.get("what", "")
    if "another log" in what:
        return nat.get("other_untouched") is False
    if "re-opened" in what:
        return "Err" in (nat.get("reload") or {})
    if "tree in memory" in what:
        return nat.get("tree_matches_table") is False
    # row-level expectations: the commits the table should hold afterwards, recomputed from the scenario
    mine = [c for c, _ in case.get("mine", [])]
    op = case.get("operation", ["?"])[0]
    refused = "Err" in (nat.get("result") or {})
    if op in ("replace", "patch"):
        new = [c for c, _ in case.get("new", [])]
        ql = case.get("proof_leaves", [])
        agreed = (ql == new) if op == "replace" else (ql == mine)
        before = [int(h[:2], 16) for h in nat.get("before", [])]
        disk = [int(h[:2], 16) for h in nat.get("disk", [])]
        memory = [int(h[:2], 16) for h in nat.get("memory", [])]
        if refused:
            return agreed or disk != before or memory != before or nat.get("other_untouched") is False
        exp = new if op == "replace" else mine + new
        return (not agreed) or disk != exp or memory != exp or nat.get("other_untouched") is False
    if op == "apply":
        exp = mine + [c for c, _ in case.get("new", [])]
    elif op == "clear":
        exp = []
    else:
        t = case.get("target")
        exp = mine[:len(mine) - mine[::-1].index(t)] if t in mine else mine
        if (t in mine) == refused:
            return True
    got = [int(h[:2], 16) for h in nat.get("disk", [])]
    return nat.get("tree_matches_table") is False or nat.get("other_untouched") is False or got != exp or \
        (op != "rewind" and refused)


def replay(path):
    case = json.load(open(path))
    rep = Replayer("dev")
    if case.get("op") == "dblog_script":
        nat = rep.run(case)
        rep.close()
        print(json.dumps(nat)[:600])
        if db_confirm(case, nat):
            print("VIOLATION property=%s replay=%s" % (PROP, path))
            return 1
        return 0
    bad = native_confirm(rep, case)
    rep.close()
    if bad:
        print("VIOLATION property=%s replay=%s" % (PROP, path))
        return 1
    return 0
