"""C06, per-operation part: after apply / rewind / clear on the file-system event log, a restart
(`load_tree` on a fresh instance) yields exactly the tree held in memory; `rewind(c)` keeps the
prefix up to the LAST occurrence of c and returns the removed records in append order."""
import z3

from . import fsops as O
from . import fscheck as FC


def scenarios(tier):
    ks = (0, 1, 2) if tier == "quick" else (0, 1, 2, 3)
    out = []
    for versioned in (False, True):
        for k in ks:
            out.append({"versioned": versioned, "k": k, "op": ("apply", 1)})
            if tier != "quick":
                out.append({"versioned": versioned, "k": k, "op": ("apply", 2)})
            out.append({"versioned": versioned, "k": k, "op": ("clear",)})
            if k:
                out.append({"versioned": versioned, "k": k, "op": ("rewind",)})
        # clear then append is the sequence that exposes a wrong header length: clear is followed by a restart
        # whose tree must be empty, and the next scenario starts from such a file
    # sequences: clear followed by an append (two operations)
    for versioned in (False, True):
        out.append({"versioned": versioned, "k": 1, "op": ("clear",), "then_apply": 1})
    return out


def judge(sc, res, h, out):
    v = res.value
    op = sc["op"]
    key = "fslog|%s|" % op[0]
    if v["reopen"] != "Ok":
        h.check(res, False, "restart after %s fails to load the log" % op[0], key + "reopen fails")
        return
    h.check(res, O.leaves_eq(v["mem_leaves"], v["reopen_leaves"]),
            "tree in memory differs from the tree re-read from the file after %s (memory %d leaves, file %d)" % (
                op[0], len(v["mem_leaves"]), len(v["reopen_leaves"])), key + "memory tree differs from storage")
    pre = v["pre_leaves"]
    if op[0] == "rewind":
        t = v["target"]
        r = v["op_result"]
        n_new = len(v["mem_leaves"])
        present = z3.Or(*[O.leaf_byte(x) == t for x in pre]) if pre else z3.BoolVal(False)
        if r.variant == "Ok":
            removed = r.fields[0].v.items
            h.check(res, present, "rewind succeeded for a commit that is not in the log", key + "ok for absent commit")
            if 0 < n_new <= len(pre):
                last = z3.And(O.leaf_byte(pre[n_new - 1]) == t, *[O.leaf_byte(x) != t for x in pre[n_new:]])
                h.check(res, last, "rewind did not cut after the last occurrence of the target commit", key + "wrong cut position")
            h.check(res, len(removed) == len(pre) - n_new, "rewind returned %d records for %d removed leaves" % (len(removed), len(pre) - n_new),
                    key + "removed count")
            h.check(res, O.leaves_eq(v["mem_leaves"], pre[:n_new]), "rewind kept something other than a prefix", key + "not a prefix")
        else:
            h.check(res, z3.Not(present), "rewind failed although the commit is in the log", key + "err for present commit")
    elif op[0] == "apply" and v["op_result"].variant == "Ok":
        want = [O.leaf_byte(x) for x in pre] + [m["commit"] for m in v["nmeta"]]
        h.check(res, O.leaves_are(v["mem_leaves"], want), "tree after append is not the old leaves followed by the new commits",
                key + "append order")
        # the appended rows carry the records' own timestamps
        (arr, ln), (_, pl) = v["post_file"], v["pre_file"]
        if ln.concrete and pl.concrete and ln.v == pl.v + len(v["nmeta"]) * (ROW_FIXED + 1):
            off = pl.v
            conds = []
            for m in v["nmeta"]:
                secs = z3.Concat(*[z3.Select(arr, z3.BitVecVal(off + 4 + j, 64)) for j in range(7, -1, -1)])
                nanos = z3.Concat(*[z3.Select(arr, z3.BitVecVal(off + 12 + j, 64)) for j in range(3, -1, -1)])
                conds.append(z3.And(secs == m["secs"], nanos == m["nanos"]))
                off += ROW_FIXED + 1
            h.check(res, z3.And(*conds) if conds else True, "an appended record is stored with a timestamp other than its own", key + "stored time differs")
        else:
            h.check(res, False, "append of %d records grew the file by %s bytes" % (len(v["nmeta"]), (ln.v - pl.v) if (ln.concrete and pl.concrete) else "?"),
                    key + "appended size")
    elif op[0] == "clear" and v["op_result"].variant == "Ok":
        h.check(res, len(v["mem_leaves"]) == 0, "tree not empty after clear", key + "not empty")
        if "then_apply_result" in v:
            h.check(res, v["then_reopen"] == "Ok" and v["then_ok"], "append after clear is not readable after a restart",
                    key + "append after clear unreadable")


ROW_FIXED = 4 + 12 + 32 + 32 + 4 + 4      # length, time, last commit, commit, payload length, trailing length


def parse_rows(data, header_len):
    """(secs, nanos, first commit byte) of every row of an event log file (layout decided by the format layer check)"""
    out = []
    off = header_len
    while off + ROW_FIXED <= len(data):
        rl = int.from_bytes(data[off:off + 4], "little")
        secs = int.from_bytes(data[off + 4:off + 12], "little", signed=True)
        nanos = int.from_bytes(data[off + 12:off + 16], "little")
        out.append((secs, nanos, data[off + 16 + 32]))
        off += rl + 8
    return out


def expected_records(case):
    """what the log must hold after the script: apply appends, rewind keeps the prefix ending at the last
    occurrence of the target, clear empties (refused operations change nothing)"""
    recs = []
    for st in case.get("steps", []):
        if "apply" in st:
            recs += [(r["secs"], r["nanos"], r["commit"]) for r in st["apply"]]
        elif "rewind" in st:
            cs = [c for _, _, c in recs]
            if st["rewind"] in cs:
                recs = recs[:len(cs) - cs[::-1].index(st["rewind"])]
        elif "clear" in st:
            recs = []
        else:
            return None
    return recs


def confirm(case, nat):
    if nat.get("outcome") != "ok":
        return False
    if isinstance(nat.get("reopened"), str):
        return True          # restart failed
    if nat.get("memory") != nat.get("reopened"):
        return True
    exp = expected_records(case)
    if exp is None:
        return False
    try:
        data = bytes.fromhex(nat.get("file_after", ""))
    except ValueError:
        return False
    got = parse_rows(data, 6 if case.get("versioned") else 4)
    return got != exp
