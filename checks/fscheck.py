"""Shared driver for the three file-system event-log checks (C06 per-operation, C07, C13)."""
import json
import time
import z3

from .common import Check, Replayer
from . import par
from . import fsops as O
from mirsym import harness as H
from mirsym import models as M
from mirsym.engine import Inconclusive, bz3

CRATES = ["sos_core", "sos_filesystem"]


def explore_scenario(prog, sc, judge):
    """run one scenario; judge(res_dict, path_result, helpers) appends obligations/reports to `out`"""
    name = json.dumps({k: v for k, v in sc.items()}, sort_keys=True)
    out = {"entry": name, "states": 0, "queries": 0, "solver_s": 0.0, "obligations": 0, "discharged": 0,
           "inconclusive": [], "gaps": {}, "reports": [], "samples": [], "stubs": [], "kinds": {}}
    eng = H.new_engine(prog, loop_bound=64)
    _c0 = H.cross_begin()

    def thunk(ctx):
        return O.run_scenario(eng, ctx, sc)

    class Helpers:
        def check(self, res, cond, what, key, native=True, extra=None):
            """cond must hold on this path; otherwise a counterexample is recorded"""
            out["obligations"] += 1
            if cond is True:
                out["discharged"] += 1
                return True
            s = z3.SolverFor("QF_ABV")
            for c in res.pc:
                s.add(bz3(c))
            if cond is not False:
                s.add(z3.Not(bz3(cond)))
            t = time.time()
            r = s.check()
            out["solver_s"] += time.time() - t
            if not H.cross_check(s, r, what):
                out["inconclusive"].append("second solver disagrees: %s" % H.CROSS["disagree"][-1])
                out["queries"] += 1
            if r == z3.unsat:
                out["discharged"] += 1
                return True
            if r != z3.sat:
                out["inconclusive"].append("%s: solver unknown (%s)" % (name, what))
                return True
            m = s.model()
            v = res.value
            case = O.native_script(sc, v, m)
            case.update({"what": what, "scenario": sc})
            if extra:
                case.update(extra(m))
            out["reports"].append((key, "%s [%s]" % (what, name), case))
            return False

    helpers = Helpers()

    def on_result(res):
        out["states"] += 1
        out["kinds"][res.kind] = out["kinds"].get(res.kind, 0) + 1
        if res.kind == "untranslatable":
            k = "%s @ %s" % (res.err[0], str(res.err[1])[:200])
            out["gaps"][k] = out["gaps"].get(k, 0) + 1
            return
        if res.kind == "panic":
            out["obligations"] += 1
            out["reports"].append(("panic|%s" % res.err[0], "panic %s in %s" % (res.err[0], name), {"op": "none", "scenario": sc, "what": "panic"}))
            return
        if res.kind != "ret":
            out["inconclusive"].append("%s: path ended with %s %r" % (name, res.kind, res.err))
            return
        judge(sc, res, helpers, out)
        if not out["samples"]:
            v = res.value
            out["samples"].append({"scenario": sc, "file_operations": v["vfs_log"][-4:], "reopen": v["reopen"],
                                   "memory_leaves": len(v["mem_leaves"]),
                                   "reopened_leaves": None if v["reopen_leaves"] is None else len(v["reopen_leaves"])})

    try:
        eng.explore(thunk, on_result=on_result)
    except Inconclusive as e:
        out["inconclusive"].append("%s: %s" % (name, e))
    st = eng.stats
    out["queries"] += st.queries
    out["solver_s"] += st.solver_s
    out["blocks"] = {prog.pretty(kk[1]): len(vv) for kk, vv in st.blocks_hit.items()}
    out["stubs"] = sorted(set(c.split("::<")[0][:80] for c in st.calls_modelled))
    out["cross"] = H.cross_end(_c0)
    return out


def collect(chk, results, confirm):
    """merge worker outputs into the Check; confirm(case, native_result) -> bool"""
    rep = None
    blocks = {}
    for out in results:
        if isinstance(out, Exception) or out is None:
            chk.inconclusive.append("worker failed: %r" % (out,))
            continue
        chk.add_cross(out)
        chk.states += out["states"]
        chk.transitions += out["queries"]
        chk.solver_s += out["solver_s"]
        chk.obligations += out["obligations"]
        chk.discharged += out["discharged"]
        chk.inconclusive.extend(out["inconclusive"])
        chk.stubs.update(out["stubs"])
        if len(chk.samples) < 8:
            chk.samples.extend(out["samples"])
        for kk, n in out["gaps"].items():
            chk.gaps[kk] = chk.gaps.get(kk, 0) + n
        for kk, n in out.get("blocks", {}).items():
            blocks[kk] = max(blocks.get(kk, 0), n)
        for key, desc, case in out["reports"]:
            if key in chk.known_hits or any(k == key for k, _, _ in chk.violations):
                continue
            if rep is None:
                rep = Replayer("dev")
                rep.build()
            nat = rep.run(case) if case.get("op") != "none" else {"outcome": "skip"}
            if confirm(case, nat):
                chk.replays_ok += 1
                chk.report(key, desc + "; native: " + json.dumps(nat)[:400], case)
            else:
                chk.replays_bad += 1
                chk.inconclusive.append("not reproduced natively: %s :: %s" % (desc, json.dumps(nat)[:400]))
    if rep is not None:
        rep.close()
    for kk, v in sorted(blocks.items()):
        chk.functions.setdefault(kk, {"mir_blocks_executed": v})
