"""C12, storage level — `sos_backend::compact_folder` on a file-system folder log.

A folder log is built by the real `FileSystemEventLog::apply` from `CreateVault(header) . e1 .. en` with symbolic
arguments (the events are really encoded into the file of the vfs model; a record's commit is the ideal SHA-256 of
its bytes).  Then `compact_folder` (MIR of sos-backend: reduce, compact, a temporary event log to compute the
checkpoint, `replace_all_events`) runs, and a fresh instance re-opens the file and replays it through the real
`event_stream` + `FolderReducer`.  Obligations per path: the folder built from the re-opened log equals the folder
before compaction (name, flags, meta, id -> entry), the log holds exactly 1 + #live-secrets records, and the tree in
memory equals the tree loaded from the file.
"""
import json
import re as _re
import time
import z3

from . import vaultlib as V
from . import fslog as F
from . import fsops as O
from mirsym import harness as H
from mirsym import models as M
from mirsym import vfs as VF
from mirsym import plumbing as PL      # noqa: F401
from mirsym.models import ok, err, some, none, deref, future
from mirsym.engine import (Cell, Ref, Int, EnumV, Agg, VecV, Opaque, Inconclusive, Untranslatable, bz3, to_bool)

CRATES = ["sos_core", "sos_vault", "sos_reducers", "sos_filesystem", "sos_backend"]
TEMP = "compact.tmp"


def model(pattern):
    def deco(f):
        M.MODELS.insert(0, (_re.compile(pattern), f))
        return f
    return deco


class TempV:
    def clone(self):
        return self


@model(r"^(tempfile::)?NamedTempFile::new$")
def m_tempfile_new(engine, ctx, args, callee, frame):
    vfs = VF.vfs_of(ctx)
    vfs.files[TEMP] = VF.FileData()
    return ok(TempV())


@model(r"^(tempfile::)?NamedTempFile::<.*>::path$|^(tempfile::)?NamedTempFile::path$")
def m_tempfile_path(engine, ctx, args, callee, frame):
    return Ref(Cell(VF.PathV(TEMP)))


@model(r"^(tempfile::)?NamedTempFile::<.*>::close$|^(tempfile::)?NamedTempFile::close$")
def m_tempfile_close(engine, ctx, args, callee, frame):
    VF.vfs_of(ctx).files.pop(TEMP, None)
    return ok(M.unit())


def reduce_real(eng, ctx, log_cell):
    red = eng.call_named("FolderReducer::new", [], None)
    fut = eng.call_named("FolderReducer::reduce::<FileSystemEventLog<WriteEvent, Error>, Error>", [red, Ref(log_cell)], None)
    return V.unwrap(H.poll_to_result(eng, ctx, fut), "FolderReducer::reduce")


def run_shape(prog, shape):
    with_meta, kinds = shape
    name = "compact_folder header%s.%s" % ("+meta" if with_meta else "", ".".join(kinds) or "(no events)")
    out = {"entry": name, "states": 0, "queries": 0, "solver_s": 0.0, "obligations": 0, "discharged": 0,
           "inconclusive": [], "gaps": {}, "reports": [], "samples": [], "stubs": [], "kinds": {}}
    eng = H.new_engine(prog, loop_bound=96)

    def thunk(ctx):
        ctx.sha_bytes = True
        F.new_vfs(ctx, eng)
        log = Cell(F.new_log(eng, ctx))
        v0 = V.base_vault(eng, ctx, with_meta)
        ev0 = V.create_event(eng, ctx, v0)
        events = [ev0] + [V.sym_event(eng, ctx, k, "e%d" % i) for i, k in enumerate(kinds)]
        ctx.wevents = events
        r = F.call(eng, ctx, log, "apply", [Ref(Cell(VecV("WriteEvent", [Cell(e) for e in events])))])
        if r.variant != "Ok":
            raise Inconclusive("building the log failed: %r" % (r,))
        before = V.build(eng, ctx, reduce_real(eng, ctx, log))
        files_before = sorted(VF.vfs_of(ctx).files)
        d = eng.program.enum_variant("BackendEventLog", "FileSystem")
        blog = Cell(EnumV("BackendEventLog", "FileSystem", d, [Cell(log.v)]))
        aid = Agg("struct", "AccountId", [Cell(Agg("array", None, [Cell(Int(0, 8)) for _ in range(20)]))])
        fid = Agg("struct", "Uuid", [Cell(Agg("array", None, [Cell(Int(7, 8)) for _ in range(16)]))])
        fut = eng.call_named("compact_folder", [Ref(Cell(aid)), Ref(Cell(fid)), Ref(blog)], None)
        res = H.poll_to_result(eng, ctx, fut)
        log_after = blog.v.fields[0]
        mem_leaves = list(F.tree_state(eng, F.tree_of(log_after.v))[0])
        fresh, r2 = F.reopen(eng, ctx)
        disk_leaves = list(F.tree_state(eng, F.tree_of(fresh.v))[0]) if r2.variant == "Ok" else None
        after = V.build(eng, ctx, reduce_real(eng, ctx, fresh)) if r2.variant == "Ok" else None
        conds = {}
        if disk_leaves is not None and res.variant == "Ok":
            # equalities are formed while the path is alive (ideal hash values are tied to the path's constraints)
            if len(mem_leaves) != len(disk_leaves):
                conds["tree"] = False
            else:
                c = True
                for a, b in zip(mem_leaves, disk_leaves):
                    c = M.b_and(c, M.eq_formula(eng, a, b, 40))
                conds["tree"] = c
            n0, f0, m0, c0 = V.vault_parts(before)
            n1, f1, m1, c1 = V.vault_parts(after)
            for a, b, what in ((n0, n1, "name"), (f0, f1, "flags"), (m0, m1, "meta"), (c0, c1, "secrets")):
                try:
                    conds[what] = M.eq_formula(eng, a, b, 8)
                except Untranslatable as u:
                    conds[what] = ("gap", u.what)
            conds["live"] = len(c0.entries)
        return {"result": res, "conds": conds, "mem": mem_leaves, "disk": disk_leaves,
                "files": sorted(VF.vfs_of(ctx).files), "files_before": files_before}

    def check(res, cond, what, key):
        out["obligations"] += 1
        if cond is True or (z3.is_expr(cond) and z3.is_true(z3.simplify(cond))):
            out["discharged"] += 1
            return
        if cond is False:
            cond = z3.BoolVal(False)
        s = z3.SolverFor("QF_ABV")
        for c in res.pc:
            s.add(bz3(c))
        s.add(z3.Not(bz3(cond)))
        t = time.time()
        r = s.check()
        out["solver_s"] += time.time() - t
        out["queries"] += 1
        if r == z3.unsat:
            out["discharged"] += 1
            return
        if r != z3.sat:
            out["inconclusive"].append("%s: solver unknown (%s)" % (name, what))
            return
        m = s.model()
        case = {"op": "compact_folder", "what": what, "header": V.concrete_header(m, with_meta),
                "events": [V.concrete_event(k, "e%d" % i, m) for i, k in enumerate(kinds)]}
        out["reports"].append(("compact_folder|%s" % key, "%s: %s; events=%s" % (name, what, json.dumps(case["events"])[:300]), case))

    def on_result(res):
        out["states"] += 1
        out["kinds"][res.kind] = out["kinds"].get(res.kind, 0) + 1
        if res.kind == "untranslatable":
            k = "%s @ %s" % (res.err[0], str(res.err[1])[:200])
            out["gaps"][k] = out["gaps"].get(k, 0) + 1
            return
        if res.kind != "ret":
            out["inconclusive"].append("%s: path ended with %s %r" % (name, res.kind, res.err))
            return
        v = res.value
        if v["result"].variant != "Ok":
            check(res, False, "compact_folder fails on a well-formed folder log", "fails")
            return
        if v["disk"] is None:
            check(res, False, "the compacted log cannot be re-opened", "reopen fails")
            return
        cd = v["conds"]
        check(res, cd["tree"], "tree in memory differs from the tree re-read from the file after compaction", "memory tree differs from storage")
        for what in ("name", "flags", "meta", "secrets"):
            if isinstance(cd[what], tuple):
                out["gaps"]["equality: %s" % cd[what][1]] = out["gaps"].get("equality: %s" % cd[what][1], 0) + 1
                continue
            check(res, cd[what], "%s of the folder differs after compact_folder" % what, "%s differs" % what)
        live = cd["live"]
        check(res, z3.BoolVal(len(v["disk"]) == 1 + live),
              "the compacted log holds %d records for %d live secrets (expected %d)" % (len(v["disk"]), live, 1 + live), "record count")
        check(res, z3.BoolVal(TEMP not in v["files"]), "the temporary event log is left behind", "temp file left")
        extra = [f for f in v["files"] if f not in v["files_before"]]
        check(res, z3.BoolVal(not extra), "compaction leaves a stray file next to the log: %s" % ", ".join(extra), "stray file left")
        if not out["samples"]:
            out["samples"].append({"shape": name, "records_after": len(v["disk"]), "live_secrets": live})

    try:
        eng.explore(thunk, on_result=on_result)
    except Inconclusive as e:
        out["inconclusive"].append("%s: %s" % (name, e))
    st = eng.stats
    out["queries"] += st.queries
    out["solver_s"] += st.solver_s
    out["blocks"] = {prog.pretty(kk[1]): len(vv) for kk, vv in st.blocks_hit.items()}
    out["stubs"] = sorted(set(c.split("::<")[0][:80] for c in st.calls_modelled))
    return out
