"""C15 entries beyond the plain decoders: record iteration over arbitrary file bytes
(FormatStream, both directions), executed from the MIR of sos-filesystem."""
import z3

from mirsym import harness as H
from mirsym import models as M
from mirsym.engine import Cell, Ref, Int, EnumV, Agg, Inconclusive

MAX_ITEMS = 4


def make_stream(file_obj, header_offset, prefix, reverse):
    """a FormatStream<T, R> value (fields in declaration order)"""
    return Agg("struct", "FormatStream", [
        Cell(Int(header_offset, 64)),      # header_offset
        Cell(prefix),                      # data_length_prefix
        Cell(file_obj),                    # read_stream
        Cell(M.none()),                    # forward
        Cell(M.none()),                    # backward
        Cell(reverse),                     # reverse
        Cell(Agg("struct", "PhantomData", [])),
    ])


def iterate(eng, ctx, stream_cell, ty, reverse, limit=MAX_ITEMS):
    """call next_forward / next_back until None, Err or `limit` items; returns (items, end)"""
    fn = "FormatStream::<%s, File>::%s" % (ty, "next_back" if reverse else "next_forward")
    items = []
    while True:
        if len(items) >= limit:
            return items, "limit"
        fut = eng.call_named(fn, [Ref(stream_cell)], None)
        r = H.poll_to_result(eng, ctx, fut)
        if r.variant == "Err":
            return items, "err"
        opt = r.fields[0].v
        if opt.variant == "None":
            return items, "none"
        items.append(opt.fields[0].v)


class StreamEntry:
    def __init__(self, ty, reverse, prefix, max_len, header_offset=4):
        self.ty = ty
        self.reverse = reverse
        self.prefix = prefix
        self.header_offset = header_offset
        self.max_len = max_len
        self.name = "format_stream:%s:%s" % (ty, "backward" if reverse else "forward")

    def thunk(self, eng):
        def thunk(ctx):
            inp = H.SymInput(ctx, self.max_len)
            ctx.inp = inp
            f = inp.reader()
            st = Cell(make_stream(f, self.header_offset, self.prefix, self.reverse))
            items, end = iterate(eng, ctx, st, self.ty, self.reverse)
            return (len(items), end)
        return thunk

    def case(self, data):
        return {"op": "format_stream", "ty": self.ty, "reverse": self.reverse, "prefix": self.prefix,
                "header_offset": self.header_offset, "bytes": data.hex(), "limit": MAX_ITEMS}

    def outcome(self, value):
        n, end = value
        return "%d:%s" % (n, end)

    def native_outcome(self, nat):
        if nat.get("outcome") != "ok":
            return nat.get("outcome")
        return "%d:%s" % (nat.get("count"), nat.get("end"))


def entries(tier):
    ml = 104 if tier == "quick" else 130
    out = []
    for ty, prefix in (("EventLogRecord", True), ("VaultRecord", True), ("FileRecord", False)):
        for rev in (False, True):
            out.append(StreamEntry(ty, rev, prefix, ml))
    return out
