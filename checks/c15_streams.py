"""C15 entries beyond the plain decoders (filled in below as the models land)."""


def entries(tier):
    return []
