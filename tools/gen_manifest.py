#!/usr/bin/env python3
"""Regenerates /verif/MANIFEST.json from the table below (single source of truth)."""
import json, os
HERE = os.path.dirname(os.path.dirname(os.path.abspath(__file__)))
props = [json.loads(l) for l in open(os.path.join(HERE, "properties.jsonl"))]

TECH = "bounded symbolic execution of rustc MIR (mirsym) decided by z3; counterexamples replayed natively"

CLAIMED = {
 "C02": dict(
   text="Bounded model checking of one inductive step of 'the vault equals the replay of its log': from every log CreateVault . e1..en (n <= 2 quick / 3 thorough, symbolic arguments, ids from a pool of two) let V = build(reduce(L)); apply one real in-memory vault operation (EncryptedEntry for Vault: set name/flags/meta, insert/update/delete, from MIR) with arbitrary arguments, append the event it reports, and z3 decides per path that build(reduce(L.event)) equals the operated vault on name, flags, meta and the id->entry map; plus new_until_commit(k) equals the fold of the first k+1 events. Counterexamples are replayed on a real file-system event log.",
   note="Kernel only. Trusted: rustc MIR, mirsym models (IndexMap as association list, harness event log stream), z3. Outside: merges and force merges, the mirrored vault file / sqlite rows, encryption (blobs are opaque bytes), both backends.",
   design="DESIGN.md section 3, C02"),
 "C05": dict(
   text="Bounded model checking of the merge kernel: AutoMerge::merge_patches (provided trait method, from MIR) runs on local and remote suffixes of up to 2 (quick) / 3 (thorough, local+remote <= 5) records each with symbolic timestamps (ties, skew) and symbolic commit ids (any equality pattern across the sides). z3 decides per path: local subset of remote => RewindLocal(remote) unchanged; otherwise PushRemote(p) with p ordered by time, containing every local and remote commit, each exactly once, and nothing else. Counterexamples are replayed natively through a do-nothing AutoMerge implementor.",
   note="Kernel only. Trusted: rustc MIR, mirsym models (HashSet as list, stable insertion sort executing the closure's MIR), ideal commit ids, z3. Outside: rewind/patch I/O on client and server, sync orders, three devices, convergence (C04).",
   design="DESIGN.md section 3, C05"),
 "C06": dict(
   text="Bounded model checking of the file-system event log at two layers, both from the MIR of the current tree. Format layer: the real encoder (<EventRecord as Encodable>::encode) writes k <= 2 (quick) / 3 (thorough) records with symbolic time, commits and payload bytes behind the identity bytes and the real iterator (FormatStream::next_forward / next_back, EventLogRecord::decode, byte_length) reads them back; z3 decides that forward iteration yields exactly the appended records in order, that offsets frame exactly the encoder's bytes, that backward iteration is the mirror image and that byte lengths add up. Operation layer: FileSystemEventLog::{apply_records, rewind, clear/truncate, load_tree, patch_unchecked} run over a model of the file API from a log of symbolic records (commits from a small pool so byte-identical events occur; plain and versioned headers); after every operation the in-memory tree equals the tree a fresh instance loads from the file, record count and order match, and a rewind removes exactly the suffix. Counterexamples are replayed on a real FolderEventLog in a temp directory. Database backend: DatabaseEventLog::{load_tree, apply_records, rewind, clear, record_stream} and the event entity (the statements the code builds with sql_query_builder) run from the MIR of sos-database over a model of the sqlite tables holding two co-resident logs with commits from a pool of three; z3 decides that the reloaded tree equals the tree in memory, that this log's rows are the expected ones in order and that the other log's rows are untouched; counterexamples are replayed on a real in-memory sqlite database with the project's migrations.",
   note="File-system backend, and the sqlite event log at the level of its statements (mirsym/sqlmodel.py: clause texts parsed, rows as lists, transactions as snapshots; sqlite itself is not executed). Trusted: rustc MIR, mirsym and its reader/writer and vfs models (atomic file operations, no I/O errors), the ideal-hash rs_merkle model (validated in C08), z3. Outside: sqlite itself and the other tables, replace_all_events / patch / diff on the database backend, cross-backend agreement, advisory locks; that stored commit hashes are SHA-256 of the event bytes (C16 kernel).",
   design="DESIGN.md section 3, C06"),
 "C12": dict(
   text="Bounded model checking of the reducer/compaction kernel: FolderReducer::{reduce,compact,build}, Vault::{into_event,set_name,flags_mut,insert_entry,...} and the vault codec they call run from the MIR of the current tree on every sequence of <= 2 (quick) / 3 (thorough) event kinds after CreateVault, with symbolic names, flags, meta blobs, ids from a pool of two and entries. z3 decides per path that build(reduce(compact(reduce(L)))) equals build(reduce(L)) on name, flags, meta and the id->entry map and that the compacted log has 1 + #live-secrets events; counterexamples are replayed on a real file-system event log.",
   note="Kernel only. Trusted: rustc MIR, mirsym models (IndexMap as association list, streams from a harness event log), z3. Outside: replace_all_events I/O, password/cipher changes through LocalAccount (and the claim that old keys stop working), both storage backends; encryption is opaque.",
   design="DESIGN.md section 3, C12"),
 "C14": dict(
   text="Bounded model checking of the binary codecs: for every Encodable/Decodable pair of sos-core and sos-vault the real decoder and encoder run from the MIR of the current tree as decode(b) -> v1, encode(v1) -> e1, decode(e1) -> v2 over symbolic bytes b, so v1 ranges over every value within the stated bounds (free-length fields <= 16 bytes, <= 2 collection elements; smaller for composite types in the quick tier). z3 decides per path that encode succeeds, decode(e1) succeeds and consumes exactly the bytes written, v2 == v1 field by field, and that encode consults neither clock nor RNG; counterexamples are replayed natively (decode/encode/decode/encode must be stable). Wire part: for the 30 compiled protobuf bindings of sos-protocol the real TryFrom<WireT> / From<T> conversions run as w -> v1 -> w1 -> v2 over a symbolic prost message built from the generated definitions (canonical fully populated message plus every combination of <= 2 (3) structural deviations: absent optional, other oneof variant, 0/2 repeated elements, free byte-string length); z3 decides that the second conversion succeeds and v2 == v1; counterexamples are encoded to protobuf bytes and replayed through the public WireEncodeDecode.",
   note="Trusted: rustc MIR, mirsym with its rope writer/reader and std models, z3. Assumed: external text formats (url, urn, age, pem, vcard, JSON bodies) parse/print as inverses. prost's byte encoder/decoder are external and assumed inverse. Outside: the database row mapping, values larger than the bounds, wire messages further than the variation budget from the canonical message or lacking a field the receiver unwraps, SecretRow and Vault containers in the quick tier (thorough only).",
   design="DESIGN.md section 3, C14"),
 "C20": dict(
   text="Bounded model checking of the index bookkeeping: SearchIndex::{prepare,commit,add,update,remove,remove_vault} and DocumentCount::{add,remove} run from the MIR of the current tree on every history of <= 2 (quick) / 3 (thorough) operations over two folders x two secret ids from the empty index, with symbolic kind / tag / favourite attributes and an optional archive folder. On every feasible path documents() holds exactly one entry per live (folder,id), the per-folder, per-kind, per-tag and favourites counters equal a recount of documents(), and the keys given to the text index equal the document keys; counterexamples are replayed on a real SearchIndex.",
   note="Bookkeeping kernel only. Trusted: rustc MIR, mirsym models (BTreeMap/HashMap/HashSet as lists, probly-search as a key set), z3. Outside: tokenisation and ranking, queries, the merge replay in folder_sync.rs, the LocalAccount plumbing that drives the index, equality with an index rebuilt from decrypted folders.",
   design="DESIGN.md section 3, C20"),
 "C07": dict(
   text="Bounded model checking of the refusal paths of the file-system event log: FileSystemEventLog::{patch_checked, rewind, replace_all_events} with the snapshot/rollback code run from the MIR of the current tree over a model of the file API, from a log of k <= 2 (quick) / 3 records with commits from a pool of three (byte-identical events included), against the head proof of an arbitrary other log (symbolic leaves: matching, stale, diverged) and symbolic patches. z3 decides per path: the patch is appended iff the proof is the head of exactly this log; on every refusal (conflict, absent rewind target, wrong replace-all checkpoint, also on an empty log) the file bytes and the tree equal the pre-state, a restart reads the pre-state back and no stray file is left; counterexamples are replayed on a real FolderEventLog in a temp directory. Database backend: DatabaseEventLog::{replace_all_events, patch_checked} over the table model of mirsym/sqlmodel.py (two co-resident logs) against the head proof of an arbitrary log of 1..3 leaves: accepted iff the checkpoint is the agreed one, every refusal leaves rows and tree unchanged; replayed on a real in-memory sqlite database.",
   note="File-system backend, and the sqlite event log at the level of its statements (sqlite itself not executed). Trusted: rustc MIR, mirsym, the vfs model (atomic file operations, no I/O errors), the ideal-hash rs_merkle model (validated in C08), z3. Outside: the sqlite implementation, the server-side event_patch / rollback_rewind and the client rewind_local orchestration, folder contents derived from the log.",
   design="DESIGN.md section 3, C07"),
 "C13": dict(
   text="Bounded model checking with the crash point as a variable: apply_records, rewind, clear and replace_all_events of FileSystemEventLog run from the MIR of the current tree over the vfs model; the process dies before the j-th mutating file operation of the call (every j) or an append is torn at a solver-chosen byte offset, then the restart path (fresh instance + load_tree) runs on what is left. Obligation: the restart succeeds and the log equals its state before or after the interrupted operation. Violations are confirmed by writing the predicted disk image and re-opening it with the real code. Database backend: the same operations of DatabaseEventLog over the table model of mirsym/sqlmodel.py, dying before each durability point (commit, or statement outside a transaction) of the call, then fresh instance + load_tree: the log equals pre or post and the co-resident log is untouched (model-level counterexamples).",
   note="File-system event log, and the sqlite event log at statement level (a transaction is atomic, rolled back if the process dies before its commit); each modelled file operation is atomic and torn writes are modelled for appends. Known findings (torn tail is not recovered; replace_all_events is not crash-atomic) are listed in known_findings.txt. Outside: sqlite transactions, vault-file rewrites, multi-file operations of LocalAccount, the OS's real write atomicity, 'the folder served equals the replay of its log' after restart.",
   design="DESIGN.md section 3, C13"),
 "C11": dict(
   text="Bounded model checking of the server's decision functions from the MIR of sos-server: (A) AccessControlConfig::is_allowed_access for every configuration of <= 2 (quick) / 3 allow and deny entries (each list present or absent) with symbolic account ids - an id on the deny list or absent from a configured allow list is refused, everything else admitted; counterexamples replayed natively. (B) authenticate_endpoint with bearer(), BearerToken::new and Backend::verify_device: over header id present/absent, token with/without the legacy '.' form, account existing or not, 0..2 trusted device keys each verifying or not, four access configurations - a caller is returned only if the token has the current form, the access check passed and, for an existing account, a trusted key verified the signature over exactly the signed bytes it was given. (C) the trusted-device cache that verify_device consults: <SyncImpl<T> as Merge>::merge_device and ForceMerge::force_merge_device (override or provided method) with DeviceReducer::reduce, from the MIR of sos-server-storage / sos-sync / sos-reducers, over every trust/revoke sequence of 1..2 log events and 1..2 (3) patch events with symbolic keys - after every call that changed the device log the set given to set_devices equals the keys trusted by replaying the new log; counterexamples replayed on a real file-system ServerStorage.",
   note="Decision functions only. Trusted: rustc MIR, mirsym, harness models (Ed25519 verify as an uninterpreted predicate per key, bs58/signature decoding nondeterministic, uncontended locks), z3. Part B counterexamples are model-level (the function is private, only reachable through HTTP). Part C: the device log is the harness's record list (patch_checked / replace_all_events succeed or fail nondeterministically), T of SyncImpl<T> abstract. Outside (the larger part of C11): that each route calls authenticate_endpoint with the right bytes, side effects of refused requests, the sqlite server storage.",
   design="DESIGN.md section 3, C11"),
 "C08": dict(
   text="Bounded model checking of the real comparison code: CommitTree::{append,commit,head,proof,compare} and CommitProof::verify_leaves are executed from the MIR of the current tree for every pair of sequence lengths up to the bound (4x4 quick, 7x7 thorough) with symbolic leaf identifiers, so one solver query covers every equality pattern between the two logs (repeats, equal leaves over different prefixes). The oracle is the prefix relation on the raw sequences; z3 decides each implication per path, counterexamples are replayed on the real CommitTree. The tests use one pair of trees with unique leaves where one extends the other.",
   note="Trusted: rustc MIR, the mirsym interpreter, the ideal-hash port of rs_merkle 1.5 (compared with the real crate on every run: roots, leaves, proofs, verification matrix for sizes <= 8, batched commits, rollbacks), collision-freeness of SHA-256, z3. Bounds: sequence lengths. Outside: proof (de)serialisation (C14/C15), the network around the ancestor scan.",
   design="DESIGN.md section 3, C08"),
 "C16": dict(
   text="Bounded model checking of the comparison kernels of the integrity report: vault_integrity / vault_stream (file-system and database branch) and event_integrity run from the MIR of sos-integrity. Storage is symbolic: k <= 2 (quick) / 3 rows or records with symbolic content bytes (<= 4 per field) and 32 symbolic checksum bytes - for the database the rusqlite statement is a nondeterministic stub yielding such rows, for the file system a vault file on the vfs model read by the real FormatStream, for the event log its record sequence. SHA-256 is an ideal hash (Ackermann-encoded: well defined and injective), so 'intact' is checksum == sha(content) and 'any byte of content or checksum changed' is its negation. z3 decides per path: one report item per row, in order, and item i is a failure iff sha(content_i) != checksum_i. Counterexamples are translated to real SHA-256 witnesses and replayed on real storage (an in-memory sqlite database with the project's migrations, a vault file, a FolderEventLog).",
   note="Kernel only. Trusted: rustc MIR, mirsym, harness stubs (tokio mpsc channel and spawn run sequentially, ReceiverStream / try_filter_map evaluated eagerly, rusqlite as row source), ideal SHA-256, z3. Outside: account_integrity's folder loop and cancellation, file_integrity (streaming SHA-256 of blobs under tokio::select!), missing vault/log/blob detection, real histories, sqlite itself.",
   design="DESIGN.md section 3, C16"),
 "C15": dict(
   text="Bounded model checking of the real decoders: every binary Decodable entry point is executed symbolically from the MIR rustc emits for the current tree over an input buffer of symbolic length (<=64 quick / <=200 thorough) and unconstrained content; z3 decides every branch, so 'no panic, no oversized allocation' holds for every byte string within the bound or a concrete witness is produced and replayed against the natively built crates. Unit tests only decode what they just encoded; the solver reaches the tags and lengths no encoder emits.",
   note="Trusted: rustc's MIR for the nightly in this image, the mirsym interpreter and its library models (BinaryReader/Writer, std collections, time, uuid; each path's witness is re-run natively and must agree), z3. Bounds: input length, loop bound 48. Outside: zip archives, URLs, JSON bodies, the HTTP server loop, prost.",
   design="DESIGN.md section 3, C15"),
}

NA = {
 "C01": "Read-your-writes over whole account histories runs through LocalAccount, client storage, AEAD encryption, tokio file I/O and sqlite (FFI): no bounded symbolic encoding of that stack is within reach of the MIR executor (Kani/CBMC measured infeasible on far smaller slices, DESIGN.md 1.1). The encodable slices are claimed separately (C02 vault/reducer step, C06 log persistence, C14 codecs).",
 "C03": "'No plaintext anywhere' is an information-flow (non-interference) claim over every sink of client, server, sqlite pages and the wire, not an assertion over the inputs of a function; a solver query over the real code would need the whole I/O stack and the ciphers encoded.",
 "C04": "Convergence of 2-3 devices and a server is a liveness-style claim over histories x sync orders of networked async programs (reqwest/axum/tokio); the executor has no network or scheduler model. The encodable kernels are claimed as C08 (comparison) and C05 (merge_patches).",
 "C09": "Quantifies over interleavings of concurrent requests; the single-poll executor models no concurrency and Kani does not handle concurrent code.",
 "C10": "Authenticity, key separation and nonce freshness are computational properties of AES-GCM, XChaCha20-Poly1305, Argon2 and the OS RNG (loops over input, 64-bit multiplications, FFI randomness): out of reach of bit-precise solving; the AeadPack framing is covered by C14/C15.",
 "C17": "Content addressing of uploads depends on streaming SHA-256 over real bytes plus file-system and HTTP state on two machines (axum body streams, tokio::fs); no function-level kernel carries the property.",
 "C18": "Archive export/import runs through async_zip, sanitize_filename (regex) and directory extraction on a real file system; none of these has MIR in the workspace nor a model in the executor.",
 "C19": "The upgrader copies real account directories into sqlite through rusqlite (FFI); its oracle needs both backends executing the same history.",
}
DEFAULT_NA = "no solver-based check of the real code could be built for this property (see DESIGN.md section 4)"

checks = []
for pid, c in CLAIMED.items():
    checks.append({
        "property_id": pid,
        "quick_cmd": "./check %s --tier quick" % pid,
        "thorough_cmd": "./check %s --tier thorough" % pid,
        "evidence_file": "/verif/evidence/%s.json" % pid,
        "replay_cmd_template": "./check %s --replay {path}" % pid,
        "engine": "mirsym",
        "level_claimed": {"category": "model_checking", "text": c["text"], "design_ref": c["design"]},
        "level_note": c["note"],
        "technique": TECH,
    })
na = []
for p in props:
    if p["id"] not in CLAIMED:
        na.append({"property_id": p["id"], "reason": NA.get(p["id"], DEFAULT_NA)})
m = {
 "version": 1,
 "setup_cmd": "./setup.sh",
 "hooks": {"guard": "saveoursecrets_sdk_verif",
           "enable": "none needed: mirsym reads the MIR of the unmodified crates and the replay driver uses public API only",
           "baseline_off_cmd": "cd /repo && cargo nextest run --workspace --no-fail-fast --offline || cargo test --workspace --no-fail-fast --offline",
           "source_commits": [], "add_only": True},
 "engines": [
   {"name": "mirsym", "path": "/verif/mirsym", "serves_properties": sorted(CLAIMED),
    "kind_free_text": "symbolic executor for rustc MIR (Python) + z3; MIR regenerated from /repo's working tree on every run"},
   {"name": "replay", "path": "/verif/replay", "serves_properties": sorted(CLAIMED),
    "kind_free_text": "native replay driver (stable toolchain, path dependencies on /repo/crates) used to confirm every counterexample and to validate the translator"},
 ],
 "checks": checks,
 "not_applicable": na,
 "notes": "Exit 0: property held on everything explored. Exit 1 + VIOLATION line: natively reproduced counterexample not listed in known_findings.txt. Exit 2: inconclusive (solver unknown, engine/native disagreement).",
}
json.dump(m, open(os.path.join(HERE, "MANIFEST.json"), "w"), indent=1)
print("claimed:", sorted(CLAIMED), "not applicable:", len(na))
