#!/usr/bin/env python3
"""Write /verif/seeded/<id>/meta.json from the table below plus confirm.json (tools/confirm_seed.py)."""
import json
import os

HERE = os.path.dirname(os.path.dirname(os.path.abspath(__file__)))
SEEDED = os.path.join(HERE, "seeded")

PROCEDURE = [
    "sub-agent given only the property text and a scratch git worktree of /repo under /tmp/seed/ (nothing from /verif)",
    "tools/confirm_seed.py: scratch worktree /tmp/confirm/wt at /repo HEAD, `git apply patch.diff`, full baseline "
    "nextest suite (only the three tests that already fail on the pinned tree may fail), demo.rs added as a unit test: "
    "fails with the change, passes without it",
    "`git -C /repo apply patch.diff`; `./check <property> --tier quick` (MIR regenerated from the mutated tree); "
    "`git -C /repo checkout -- .`; check re-run on the clean tree with regenerated MIR exits 0",
]

# id -> (property, changed function, what it needs to manifest, caught by, first outcome / strengthening)
T = {
    "C15-row-span-u32": (
        "C15", "FormatStream row-length arithmetic (crates/filesystem/src/formats/stream.rs)",
        "a row length marker >= 0xFFFF_FFF8 in an untrusted event-log/vault file",
        ["C15 format_stream:* (arithmetic-overflow assertion reachable; native replay panics)"], "caught at first run"),
    "C15-duration-new": (
        "C15", "UtcDateTime::decode builds Duration::new(seconds, nanos) (crates/core/src/date_time.rs)",
        "encoded timestamp with seconds = i64::MAX and nanos >= 1_000_000_000",
        ["C15 decode:UtcDateTime (and every type that embeds a timestamp)"],
        "MISSED at first (Duration::new had no model -> UNCOVERED line, not a violation); model of time::Duration::new "
        "including its overflow panic added; now a replayed violation"),
    "C14-datetime-pre-epoch-nanos": (
        "C14", "UtcDateTime::encode splits unix_timestamp_nanos with / and % (crates/core/src/date_time.rs)",
        "a timestamp before 1970-01-01 with a non-zero fractional second",
        ["C14 roundtrip:UtcDateTime", "C14 roundtrip:EventRecord"],
        "MISSED at first (i128::MIN constant and OffsetDateTime::unix_timestamp_nanos unmodelled); models added; caught"),
    "C14-auth-seed-length-prefix": (
        "C14", "Header/Auth encode writes a length prefix for auth.seed that decode does not read (crates/vault/src/encoding.rs)",
        "a vault header whose auth.seed is Some",
        ["C14 roundtrip:Header (three distinct violations)"], "caught at first run"),
    "C08-contains-first-occurrence-index": (
        "C08", "CommitTree::compare returns the first index at which the other head's leaf occurs (crates/core/src/commit/tree.rs)",
        "replica B's last leaf hash also occurs earlier in A (byte-identical events)",
        ["C08 compare: Contains index obligation"],
        "first surfaced only as INCONCLUSIVE (model/native mismatch); the index obligation is now decided by the solver "
        "and replayed natively with its own finding key"),
    "C08-verify-leaves-truncated-length": (
        "C08", "CommitTree proof verification uses a truncated leaf count (crates/core/src/commit/tree.rs)",
        "a replica strictly shorter than the log it is compared against",
        ["C08 verify_leaves completeness"],
        "MISSED at first (slice range Index unmodelled -> UNCOVERED); model added; caught"),
    "C06-rewind-first-occurrence": (
        "C06", "FileSystemEventLog::rewind stops at the first record whose hash matches (crates/filesystem/src/event_log.rs)",
        "two byte-identical events in one log and a rewind to that commit",
        ["C06 per-operation: rewind (tree has 1 leaf, file has 2 records)"],
        "MISSED by the format-layer check alone; this is why the vfs model and the per-operation harness over the real "
        "FileSystemEventLog MIR were built"),
    "C06-truncate-header-len": (
        "C06", "FileSystemEventLog::clear truncates to the identity length only (crates/filesystem/src/event_log.rs)",
        "a versioned log (identity + version byte), clear, then append",
        ["C06 per-operation: clear then apply on a versioned log"], "caught once the per-operation harness existed"),
    "C12-compact-flags-insert": (
        "C12", "compact_folder applies SetVaultFlags with flags.insert instead of assignment (crates/reducers/src/folder.rs)",
        "a vault flag that was set at creation and cleared later",
        ["C12 compaction equivalence (flags differ)"], "caught at first run"),
    "C12-tombstone-recreate": (
        "C12", "FolderReducer keeps tombstones and uses entry().or_insert on create (crates/reducers/src/folder.rs)",
        "create, delete, then re-create the same secret id",
        ["C02 (create.delete => insert: reducer and vault disagree)"],
        "NOT caught by C12 (original and compacted log go through the same reducer and stay equal); caught by C02, whose "
        "oracle compares the reducer with the vault's own step function"),
    "C02-update-absent-inserts": (
        "C02", "<Vault as EncryptedEntry>::update_secret inserts unconditionally (crates/vault/src/vault.rs)",
        "update_secret for an id that is not in the vault",
        ["C02 vault step vs. event/reducer (vault gains an entry without an event)"], "caught at first run"),
    "C02-until-first-commit": (
        "C02", "FolderReducer::reduce drops the until-commit test for record 0 (crates/reducers/src/folder.rs)",
        "FolderReducer::new_until_commit(hash of the CreateVault record)",
        ["C02 replay-until-commit obligation (k = 0)"], "caught at first run"),
    "C05-subset-by-head-only": (
        "C05", "AutoMerge::merge_patches tests only the local head against the remote (crates/remote_sync/src/auto_merge.rs)",
        "local suffix of >= 2 records whose last record also exists on the remote while an earlier one does not",
        ["C05 RewindLocal although a local commit is missing from the remote suffix"],
        "first ended INCONCLUSIVE/UNCOVERED (slice::last, Iterator::any on slice iter unmodelled); models added; caught"),
    "C05-linear-merge-assumes-monotonic": (
        "C05", "AutoMerge::merge_patches uses a linear two-way merge instead of extend+stable sort (crates/remote_sync/src/auto_merge.rs)",
        "one suffix whose timestamps are not monotonic (clock stepped backwards)",
        ["C05 merged patch is not ordered by time"],
        "first UNCOVERED (Peekable and the PartialOrd provided methods unmodelled); models added; caught"),
    "C16-fs-decode-before-hash": (
        "C16", "vault_stream (file-system branch) decodes each row value as a VaultEntry before hashing; the error is lost in the detached task (crates/integrity/src/vault_integrity.rs)",
        "a corrupted framing byte (nonce/ciphertext length) inside a row value",
        ["C16 vault-fs: reader task ends with an error on well-formed storage / fewer report items than rows"], "caught at first run"),
    "C16-skip-seen-commit": (
        "C16", "event_integrity skips hashing records whose stored commit was already verified (crates/integrity/src/event_integrity.rs)",
        "two records with the same stored commit, the later one's payload corrupted",
        ["C16 events: a record whose content was changed is reported as intact"], "caught at first run"),
    "C20-remove-by-id-only": (
        "C20", "SearchIndex::remove finds the document by secret id only (crates/search/src/search.rs)",
        "the same secret id indexed in two folders, then remove/update in the second",
        ["C20 documents differ from the live secrets; per-folder counters differ from a recount"], "caught at first run"),
    "C20-archive-favorite-early-return": (
        "C20", "DocumentCount::remove returns early for the archive folder before decrementing favourites (crates/search/src/search.rs)",
        "an archive folder is configured and a favourite document is removed from it",
        ["C20 favourites counter differs from a recount"], "caught at first run"),
    "C07-contains-last-leaf-shortcut": (
        "C07", "patch_checked accepts a patch when the proved leaf is our last leaf (crates/filesystem/src/event_log.rs)",
        "a diverged sender log of the same length whose last event is byte-identical to ours",
        ["C07 patch accepted although the checkpoint is not the head of this log"],
        "MISSED at first (`<&usize as Add<usize>>::add` had no model -> UNCOVERED); integer operator-trait models added; caught"),
    "C07-rollback-write-without-truncate": (
        "C07", "try_rollback_snapshot writes the snapshot back into the existing file without truncating (crates/filesystem/src/event_log.rs)",
        "a refused replace_all_events whose diff is longer in bytes than the current log",
        ["C07 file bytes / reloaded tree differ from the pre-state after a refusal"],
        "MISSED at first (sos_vfs::read had no model -> UNCOVERED); whole-file read/write added to the vfs model; caught"),
    "C13-rewind-rewrite-prefix": (
        "C13", "rewind rewrites the kept prefix (truncating open, then write) instead of one set_len (crates/filesystem/src/event_log.rs)",
        "the process dies between the truncating open and the write",
        ["C13 crash|rewind: the reopened log is neither the state before nor after"], "caught at first run"),
    "C11-empty-allow-list-admits": (
        "C11", "AccessControlConfig::is_allowed_access treats an empty allow list like no allow list (crates/server/src/config.rs)",
        "access.allow = [] (configured but empty)",
        ["C11 part A: an id absent from a configured allow list is admitted"], "caught at first run"),
    "C11-force-merge-device-keeps-trust": (
        "C11", "the server's ForceMerge::force_merge_device override is removed, the trait default does not refresh the trusted-device set (crates/storage/server/src/sync.rs)",
        "a device revoked through a force update (UpdateSet with a device diff)",
        ["C11 part C: the device log changed but the trusted-device set was not refreshed"],
        "MISSED at first: outside the decision-function kernel.  Part C (trusted-device cache follows the device log, "
        "merge_device / force_merge_device from MIR, replayed on a real ServerStorage) was built because of this seed; caught"),
    "C14-identity-expiry-flag": (
        "C14", "Secret::Identity encoder writes issue_date.is_some() as the presence flag of expiry_date (crates/vault/src/encoding/secret.rs)",
        "an identity secret with exactly one of issue_date / expiry_date set",
        ["C14 roundtrip:Secret[byte0=13]"], "caught at first run"),
    "C14-meta-empty-tags-count": (
        "C14", "SecretMeta encoder skips empty tags but writes the full count (crates/vault/src/encoding/secret.rs)",
        "a tag set containing the empty string",
        ["C14 roundtrip:SecretMeta: decode fails on the encoder's output"],
        "MISSED by the quick tier at first (SecretMeta had zero collection elements in the quick bounds; thorough had one); "
        "the quick bound was raised to one element for SecretMeta; caught.  The same run exposed a model imprecision "
        "(an opaque text parser could accept a string in the first decode and reject the same string in the second); "
        "parsers are now functions of their text"),
    "C15-embedded-file-u32-add": (
        "C15", "FileContent decoder adds an input-controlled length and the checksum length in u32 (crates/vault/src/encoding/secret.rs)",
        "an embedded-file buffer length prefix in 0xFFFFFFE0..=0xFFFFFFFF",
        ["C15 decode:Secret / FileContent: attempt to add with overflow"], "caught at first run"),
    "C14-wire-datetime-nanos-split": (
        "C14", "From<UtcDateTime> for WireUtcDateTime splits unix_timestamp_nanos with / and % (crates/protocol/src/bindings/common.rs)",
        "a timestamp before 1970 with a non-zero sub-second part, sent over the wire",
        ["C14 wire:UtcDateTime / wire:EventRecord: value changes in a wire round trip"], "caught at first run of the wire part"),
    "C14-wire-syncdiff-filter-compare-none": (
        "C14", "From<SyncDiff> for WireSyncDiff drops folder entries that are MaybeDiff::Compare(None) (crates/protocol/src/bindings/sync.rs)",
        "a SyncDiff whose folders map holds a Compare entry with the inner state absent",
        ["C14 wire:SyncDiff / wire:SyncPacket: value changes in a wire round trip"],
        "MISSED at first: two structural deviations (other oneof arm + its optional payload absent) exceeded the variation budget "
        "of large messages in the quick tier; one further deviation inside a non-canonical oneof arm is now free; caught"),
    "C14-wire-tracked-file-deleted-as-created": (
        "C14", "TryFrom<WireTrackedFileChange> builds Created in the Deleted arm (crates/protocol/src/bindings/sync.rs)",
        "a TrackedFileChange::Deleted sent over the wire",
        ["C14 wire:TrackedFileChange / TrackedChanges / MergeOutcome: a oneof arm changes in a wire round trip"],
        "MISSED at first: the decoder's image no longer contains the value, so decode(encode(v)) == v over decoded values "
        "cannot see it; the obligation that the sender's encoder puts the decoded value back into the oneof arms of the "
        "message was added (count-preserving multiset comparison, so set de-duplication and map reordering do not alarm); caught"),
    "C06-apply-skips-adjacent-identical": (
        "C06", "apply_records skips a record whose commit equals the running head (crates/filesystem/src/event_log.rs)",
        "two byte-identical events in adjacent positions",
        ["C06 per-operation: tree after append is not the old leaves followed by the new commits"],
        "first INCONCLUSIVE: the solver found it but the native confirmation only compared memory with the reloaded tree (both "
        "lose the record); the native side now recomputes the expected records from the script; caught"),
    "C06-apply-clamps-time": (
        "C06", "apply_records clamps a record's time to the previous record's (crates/filesystem/src/event_log.rs)",
        "records whose timestamps are not monotonic",
        ["C06 per-operation: an appended record is stored with a timestamp other than its own"],
        "MISSED at first (the per-operation harness compared trees only); the stored timestamp of every appended row is now an "
        "obligation, natively the rows are parsed from the file; caught"),
    "C08-contains-reports-head-position": (
        "C08", "CommitTree::compare returns Contains([proof.length - 1]) instead of the proven indices (crates/core/src/commit/tree.rs)",
        "compare against a single-leaf proof at a non-head index (what the ancestor scan sends)",
        ["C08 compare(single-leaf proof)=Contains indices"],
        "MISSED at first (compare was only exercised with head proofs); compare against every single-leaf proof of the other log "
        "was added (verdict and reported index); caught"),
    "C08-verify-leaves-shorter-replica-early-return": (
        "C08", "CommitProof::verify_leaves returns false when the replica is shorter than the prover's tree (crates/core/src/commit/proof.rs)",
        "a replica strictly shorter than the log the proof came from, the proven position inside it",
        ["C08 verify_leaves completeness"], "caught at first run"),
    "C02-insert-keeps-old-entry": (
        "C02", "Vault::insert_secret keeps an existing entry (or_insert_with) but reports the new one (crates/vault/src/vault.rs)",
        "creating a secret under an id that is currently live",
        ["C02 vault step vs. reducer: entry differs"], "caught at first run"),
    "C02-until-commit-skips-header-events": (
        "C02", "FolderReducer::reduce `continue`s past the until-commit test for header events (crates/reducers/src/folder.rs)",
        "new_until_commit(c) where c is a rename / flags / description event that is not the last record",
        ["C02 replay-until-commit"], "caught at first run"),
    "C12-compact-empty-folder-shortcut": (
        "C12", "FolderReducer::compact returns the original CreateVault when no secret is live (crates/reducers/src/folder.rs)",
        "a folder without live secrets whose log holds a rename, flags or description change",
        ["C12 compaction equivalence (name / flags / meta differ)"], "caught at first run"),
    "C12-compact-skip-off-by-one": (
        "C12", "compact_folder skips the rewrite when compacted_len + 1 >= current_len (crates/backend/src/compact.rs)",
        "a log with exactly one redundant record",
        ["C12 storage level: the compacted log holds 2 records for 0 live secrets"],
        "MISSED at first: crates/backend/src/compact.rs was outside the kernel.  The storage-level part was built for it: the "
        "real compact_folder (file-system branch) over the vfs model on a log written by the real apply and read back by "
        "the real event_stream; caught"),
    "C20-prepare-guard-by-key": (
        "C20", "SearchIndex::prepare guards duplicates with documents.contains_key(key) (the key includes the label) (crates/search/src/search.rs)",
        "the same (folder, id) added again under a different label",
        ["C20 documents differ from the live secrets / counters differ from a recount"], "caught at first run"),
    "C20-tag-counter-threshold": (
        "C20", "DocumentCount::remove drops a tag entry when the count goes 2 -> 1 (crates/search/src/search.rs)",
        "a tag shared by exactly two documents, then one of them removed or updated",
        ["C20 per-tag counters differ from a recount"],
        "MISSED by the quick tier at first (needs add, add, remove: three operations; quick explored two); a slice of the "
        "three-operation histories (two adds, then any operation) joined the quick tier; caught (thorough had it)"),
    "C05-dedup-adjacent-only": (
        "C05", "merge_patches de-duplicates with sort + dedup_by(commit) (adjacent copies only) (crates/remote_sync/src/auto_merge.rs)",
        "the same event on both sides with different timestamps and another event sorting between the copies",
        ["C05 a commit made identically on both sides appears twice in the merged patch"],
        "first UNCOVERED (Vec::dedup_by unmodelled); model added and validated by the self-test; caught"),
    "C05-tie-break-by-hash": (
        "C05", "merge_patches breaks timestamp ties by commit hash (crates/remote_sync/src/auto_merge.rs)",
        "two records of one device with exactly equal timestamps whose hash order differs from their log order",
        ["C05 two records of one side with the same timestamp come out in the opposite of their log order"],
        "MISSED at first twice: Ordering::then_with and the ordering of hash values were unmodelled, and the oracle had no "
        "obligation about ties; both added (the first version of the obligation alarmed on the clean tree for a record "
        "de-duplicated against a copy with another timestamp and was narrowed to records unique to their side); caught"),
    "C06-db-rewind-range-delete-other-logs": (
        "C06", "DatabaseEventLog::rewind issues one `DELETE .. WHERE event_id > (SELECT MAX ..)` whose outer condition is not restricted to the log's owner (crates/database/src/{event_log.rs,entity/event.rs})",
        "two logs in the same table, the other log has rows stored after the rewind target",
        ["C06 database part: an operation on one log changed the rows of another log"],
        "first UNCOVERED (the SQL subset of the table model had only `=`); ordering comparisons, subqueries in any comparison, "
        "[NOT] EXISTS and INSERT .. SELECT were added to mirsym/sqlmodel.py; caught"),
    "C07-db-replace-accepts-contains": (
        "C07", "DatabaseEventLog::replace_all_events verifies with tree.compare and refuses only Unknown",
        "a replace-all of >= 2 records whose checkpoint is the head of a proper prefix of them",
        ["C07 database part: replace_all_events succeeds although the checkpoint is not the head of the new events"], "caught at first run"),
    "C13-db-rewind-autocommit": (
        "C13", "DatabaseEventLog::rewind runs its deletions outside a transaction (each autocommits)",
        "a rewind that removes two or more records, the process dying between two deletions",
        ["C13 database part: after a crash during rewind the log is neither its state before nor after"],
        "MISSED by the quick tier at first (logs of <= 2 records: a rewind removes at most one); a three-record rewind with "
        "crash points joined the quick tier; caught"),
    "C11-device-retrust-revoke-first-only": (
        "C11", "DeviceReducer::reduce collects trust events in a Vec, a revoke removes only the first matching entry (crates/reducers/src/device.rs)",
        "a device key trusted twice and revoked once",
        ["C11 part C: trusted-device set differs from the replay of the device log"],
        "first INCONCLUSIVE twice over: IndexSet::replace was unmodelled, and the native confirmation compared the server's "
        "set with the (equally broken) reducer; model added, the native side now recomputes the trusted keys from the scenario; caught"),
    "C11-verify-device-empty-set-ok": (
        "C11", "Backend::verify_device returns the last attempt's result, Ok(()) when there is no trusted key (crates/server/src/backend.rs)",
        "an existing account whose trusted-device set is empty",
        ["C11 part B: a caller is returned although no trusted key verified the signature"], "caught at first run"),
    "C12-replace-all-early-return-leaves-snapshot": (
        "C12", "FileSystemEventLog::replace_all_events returns early for an unchanged log after creating the snapshot (crates/filesystem/src/event_log.rs)",
        "compacting an already compact folder",
        ["C12 storage level: compaction leaves a stray file next to the log"],
        "MISSED at first (only the temporary log file was checked); the directory listing after compaction must equal the one "
        "before; caught"),
    "C12-compact-meta-operands-reversed": (
        "C12", "FolderReducer::compact picks the header's meta before the reduced one (crates/reducers/src/folder.rs)",
        "a description change before compaction",
        ["C12 compaction equivalence: meta differs"], "caught at first run"),
    "C15-commit-proof-chunks-copy": (
        "C15", "CommitProof decoder builds the proof with chunks(32) + copy_from_slice (crates/core/src/encoding/v1/commit.rs)",
        "a proof section whose length is not a multiple of 32",
        ["C15 decode:CommitProof: copy_from_slice length mismatch panic"],
        "first UNCOVERED (slice::chunks, copy_from_slice unmodelled); models added and validated by the self-test; caught"),
    "C15-account-url-slice-first-byte": (
        "C15", "Secret::Account decoder inspects &s[..1] of the website string (crates/vault/src/encoding/secret.rs)",
        "an empty website string, or one starting with a multi-byte character",
        ["C15 decode:Secret[byte0=1]: slice index / char boundary panic"], "caught at first run"),
    "C16-db-paging-skips-rows": (
        "C16", "sqlite branch of vault_stream reads pages of 8 rows and advances the offset by 9 (crates/integrity/src/vault_integrity.rs)",
        "a folder with more than 8 secrets",
        [],
        "NOT caught: needs at least 9 rows, the check's bound is 2 (quick) / 3 rows; the new builder calls (order_by/limit/offset "
        "on the stubbed statement) end the path as UNCOVERED.  Outside the stated bounds"),
    "C16-event-large-payload-chunks": (
        "C16", "event_integrity hashes payloads above 8192 bytes block-wise and drops the remainder (crates/integrity/src/event_integrity.rs)",
        "an event record larger than 8 KiB whose length is not a multiple of 8192",
        [],
        "NOT caught: needs a payload of more than 8192 bytes, the check's bound is 4 content bytes.  Outside the stated bounds"),
    "C06-rewind-tree-first-position": (
        "C06", "FileSystemEventLog::rewind truncates the in-memory tree at the FIRST leaf equal to the target (crates/filesystem/src/event_log.rs)",
        "byte-identical events in one log, a rewind to the repeated commit with another record between the occurrences",
        ["C06 per-operation: rewind (memory tree shorter than the file)"], "caught at first run"),
    # ---- round 4 (server request handlers, merge replay, database vault mirror, open path)
    "C07-server-rollback-skipped-when-contains": (
        "C07", "server_helpers::event_patch rolls the rewind back only for Conflict { contains: None } (crates/storage/server/src/server_helpers.rs)",
        "a rewind that removes records, with a checkpoint that is the head of a strictly shorter prefix of the rewound log (stale or forged, or byte-identical events)",
        ["C07 server part: conflict => file / tree / restart state differ from before"],
        "caught by the server part of C07, which was built in the same round (event_patch was outside before); needs the 3-record scenario of the quick tier"),
    "C07-patch-checked-empty-log-accepts": (
        "C07", "FileSystemEventLog::patch_checked treats a log without commits as Comparison::Equal (crates/filesystem/src/event_log.rs)",
        "a log with zero commits (file event log before the first upload) and any non-default checkpoint",
        ["C07 file-system part: patch applied although the checkpoint is not the head of this log (k = 0 scenario)"],
        "the k = 0 patch_checked scenario was added for it (an error on an empty log is now judged as a refusal that must change nothing)"),
    "C20-archive-kind-decrement": (
        "C20", "DocumentCount::remove folded into a helper that lost the !is_archived guard of the kind counter (crates/search/src/search.rs)",
        "an archive folder, a document leaving it while another non-archived document of the same kind exists",
        ["C20 per-kind counters differ from a recount"],
        "MISSED by the quick tier at first (needs three operations with an archive folder; the thorough tier covers them): the "
        "slice add(outside); add(into the archive); any operation joined the quick tier; caught"),
    "C20-merge-skip-reindex-same-text": (
        "C20", "FolderMerge::merge keeps the old index document when label/tags/comment/websites are unchanged (crates/storage/client/src/folder_sync.rs)",
        "an UpdateSecret received through a merge that changes only the favourite flag (or kind) of a secret",
        ["C20 merge replay: a document does not carry its secret's current kind / tags / favourite flag"],
        "MISSED at first (folder_sync.rs was outside; then every update carried a new label; then HashSet == was unmodelled -> "
        "UNCOVERED): the merge-replay check, a same-or-new label choice for updates, the document-attribute obligation and a set "
        "equality model were added; caught"),
    "C02-merge-skips-recreated-secret": (
        "C02", "FolderMerge::merge skips every event of an id that is created and later deleted in the same patch (crates/storage/client/src/folder_sync.rs)",
        "one merged patch in which an id is created, deleted and created again",
        ["C02 merge replay: the served folder differs from the replay of its log (create.delete.create)"],
        "caught by the merge-replay check built in the same round (folder_sync.rs was outside before); needs the three-event slice of the quick tier"),
    "C02-db-replace-vault-skips-header": (
        "C02", "VaultDatabaseWriter::replace_vault returns early when the (id, commit) sequence of the secrets is unchanged (crates/database/src/vault_writer.rs)",
        "database backend, a force merge whose replacement history has the same secrets but different name / flags / description",
        [], "NOT CAUGHT: the sqlite vault mirror (folders / secrets tables) is outside every check; only the event tables are modelled"),
    "C13-db-replace-all-two-transactions": (
        "C13", "DatabaseEventLog::replace_all_events = clear() then insert_records() in two transactions (crates/database/src/event_log.rs)",
        "a crash (or insert error) after the delete committed and before the insert commits",
        ["C13 database part: crash before the second durability point: the log equals neither before nor after"], "caught at first run"),
    "C13-folder-open-skips-reinit-of-empty-log": (
        "C13", "Folder::from_path decides needs_init from the existence of the log file instead of the loaded tree (crates/backend/src/folder.rs)",
        "a crash between clear() and apply_records() of create_folder_entry(reset_events = true): log file with only its header, vault with content",
        [], "NOT CAUGHT: the folder open path (vault -> events re-initialisation) and multi-file operations are outside C13, which covers the event log's own operations"),
    "C14-link-url-validated-on-decode": (
        "C14", "Secret::Link decode parses the url as url::Url and fails otherwise; encode unchanged (crates/vault/src/encoding/secret.rs)",
        "a Link secret whose url text is not an absolute URL (no scheme, relative path, empty)",
        [], "NOT CAUGHT: the round-trip domain of C14 is the image of the decoder (v1 = decode(b)), so a value the encoder accepts but the "
            "decoder refuses is never generated; the url parser is an opaque accepted/rejected model. Encode-first generation of Secret values is not built"),
}


def main():
    for sid in sorted(os.listdir(SEEDED)):
        d = os.path.join(SEEDED, sid)
        if not os.path.isdir(d):
            continue
        if sid not in T:
            print("no table entry for", sid)
            continue
        prop, fn, needs, caught, story = T[sid]
        meta = {"id": sid, "property": prop, "changed": fn, "needs_to_manifest": needs,
                "caught_by": caught if caught else "not caught (recorded gap)", "history": story, "procedure": PROCEDURE,
                "files": sorted(f for f in os.listdir(d) if f != "meta.json")}
        cj = os.path.join(d, "confirm.json")
        if os.path.exists(cj):
            c = json.load(open(cj))
            meta["confirmation"] = {k: c.get(k) for k in ("repo_head", "applies", "compiles", "suite_passes", "demo_with_change",
                                                          "demo_without_change", "confirmed")}
            meta["confirmation"]["suite_summary"] = c.get("suite", {}).get("summary")
            meta["confirmation"]["unexpected_failures"] = c.get("suite", {}).get("unexpected_failures")
        else:
            meta["confirmation"] = "pending"
        rj = os.path.join(d, "check_result.json")
        if os.path.exists(rj):
            meta["check_runs"] = json.load(open(rj))
        json.dump(meta, open(os.path.join(d, "meta.json"), "w"), indent=1)
        print("wrote", sid, "confirmed" if isinstance(meta["confirmation"], dict) and meta["confirmation"].get("confirmed") else "pending")


if __name__ == "__main__":
    main()
