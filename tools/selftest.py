#!/usr/bin/env python3
"""Differential validation of the executor's std models (not a property check).

/verif/modeltest holds small functions `fn(u64, u64, u64) -> u64` that use the standard-library helpers mirsym
models by hand.  For each function every path is explored symbolically from its MIR; for every finished path a
witness (a, b, c) is taken from the solver, the function is run natively on it, and the native result must equal
the value (or the panic) the executor computed on that path.  Exit 0: all paths agree.  Exit 1: a disagreement
(printed) — a model is wrong.  Usage: tools/selftest.py [function-name-substring ...]"""
import os
import re
import subprocess
import sys
import time

HERE = os.path.dirname(os.path.dirname(os.path.abspath(__file__)))
sys.path.insert(0, HERE)
import z3                                            # noqa: E402
from mirsym import harness as H                      # noqa: E402
from mirsym.engine import Program, Int, Inconclusive  # noqa: E402

CR = os.path.join(HERE, "modeltest")
WORK = os.path.join(HERE, ".work")


def build():
    env = dict(os.environ, CARGO_NET_OFFLINE="true", CARGO_TARGET_DIR=os.path.join(WORK, "modeltest-target"))
    env.pop("RUSTFLAGS", None)
    os.utime(os.path.join(CR, "src", "lib.rs"), None)
    out = os.path.join(WORK, "mir", "modeltest.mir")
    os.makedirs(os.path.dirname(out), exist_ok=True)
    with open(out, "w") as fo:
        r = subprocess.run(["cargo", "+nightly", "rustc", "--offline", "--lib", "--", "-Zunpretty=mir", "-C", "debug-assertions=off",
                            "-C", "overflow-checks=on"], cwd=CR, env=env, stdout=fo, stderr=subprocess.PIPE, text=True)
    if r.returncode != 0:
        print(r.stderr[-3000:])
        raise SystemExit(2)
    r = subprocess.run(["cargo", "build", "--offline", "--bin", "modeltest-native"], cwd=CR, env=env, stdout=subprocess.PIPE,
                       stderr=subprocess.STDOUT, text=True)
    if r.returncode != 0:
        print(r.stdout[-3000:])
        raise SystemExit(2)
    return out, os.path.join(WORK, "modeltest-target", "debug", "modeltest-native")


def main():
    filt = sys.argv[1:]
    mir, native = build()
    prog = Program(CR)
    prog.load_enums([os.path.join(CR, "src")])
    prog.load_crate("modeltest", mir, CR)
    names = re.findall(r"pub fn (t_\w+)\(", open(os.path.join(CR, "src", "lib.rs")).read())
    if filt:
        names = [n for n in names if any(f in n for f in filt)]
    proc = subprocess.Popen([native], stdin=subprocess.PIPE, stdout=subprocess.PIPE, text=True, bufsize=1)
    bad = 0
    total_paths = 0
    t0 = time.time()
    for name in names:
        eng = H.new_engine(prog, loop_bound=64)
        stats = {"paths": 0, "agree": 0, "gaps": {}, "bad": []}
        a, b, c = (z3.BitVec(x, 64) for x in "abc")

        def thunk(ctx):
            return eng.call_named(name, [Int(a, 64), Int(b, 64), Int(c, 64)], None)

        def on_result(res):
            stats["paths"] += 1
            if res.kind == "untranslatable":
                k = "%s @ %s" % (res.err[0], str(res.err[1])[:120])
                stats["gaps"][k] = stats["gaps"].get(k, 0) + 1
                return
            if res.kind not in ("ret", "panic"):
                stats["bad"].append("path ended with %s %r" % (res.kind, res.err))
                return
            m = H.witness_for(res)
            if m is None:
                stats["bad"].append("no witness for a finished path")
                return
            vals = [m.eval(x, model_completion=True).as_long() for x in (a, b, c)]
            proc.stdin.write("%s %d %d %d\n" % (name, *vals))
            proc.stdin.flush()
            nat = proc.stdout.readline().strip()
            if res.kind == "panic":
                mine = "panic"
            else:
                v = res.value
                if isinstance(v, bool):
                    v = Int(1 if v else 0, 64)
                mine = "ok %d" % (v.v if v.concrete else m.eval(v.z3(), model_completion=True).as_long())
            if mine == nat:
                stats["agree"] += 1
            else:
                stats["bad"].append("inputs %s: executor says '%s', native says '%s'" % (vals, mine, nat))

        try:
            eng.explore(thunk, on_result=on_result)
        except Inconclusive as e:
            stats["bad"].append("inconclusive: %s" % e)
        total_paths += stats["paths"]
        status = "ok" if not stats["bad"] and not stats["gaps"] else ("GAP" if not stats["bad"] else "MISMATCH")
        print("%-34s %-8s paths=%d agree=%d" % (name, status, stats["paths"], stats["agree"]), flush=True)
        for k, n in stats["gaps"].items():
            print("    uncovered: %s (%d paths)" % (k, n))
        for x in stats["bad"][:5]:
            print("    " + x)
        if stats["bad"]:
            bad += 1
    proc.stdin.close()
    print("selftest: %d functions, %d paths, %d with disagreements, %.1fs" % (len(names), total_paths, bad, time.time() - t0))
    return 1 if bad else 0


if __name__ == "__main__":
    sys.exit(main())
