#!/usr/bin/env python3
"""Confirm a seeded change in a scratch worktree of /repo (never in /repo itself):
   1. the change applies and the workspace test binaries build,
   2. the existing suite (nextest, same command as the baseline) passes as on the unchanged tree,
   3. the demonstration fails with the change and passes without it.
usage: confirm_seed.py <seed_dir> <demo_dest_relpath> <mod_file_relpath> <mod_line> <test_filter>
env: CONFIRM_TEST="-p sos-integration-tests --test main" (default: -p sos-unit-tests), CONFIRM_DEMO=demo_unit.rs
(default demo.rs), CONFIRM_HARNESS=test-harness.diff (dev-dependency diff applied only for the demonstration).
Writes <seed_dir>/confirm.json and confirm.log."""
import json, os, re, subprocess, sys, time

seed, demo_dest, mod_file, mod_line, filt = sys.argv[1:6]
WT = "/tmp/confirm/wt"
TARGET = "/tmp/confirm/target"
KNOWN_FAIL = {"sos-command-line-tests::main command_line",
              "sos-unit-tests tests::not_authenticated::not_authenticated_local_account",
              "sos-unit-tests tests::not_authenticated::not_authenticated_network_account"}
env = dict(os.environ, CARGO_TARGET_DIR=TARGET, CARGO_NET_OFFLINE="true")
log = open(os.path.join(seed, "confirm.log"), "w")


def sh(cmd, timeout=3600):
    log.write("$ %s\n" % cmd); log.flush()
    r = subprocess.run(cmd, shell=True, cwd=WT, env=env, stdout=subprocess.PIPE, stderr=subprocess.STDOUT, text=True, timeout=timeout)
    log.write(r.stdout[-6000:] + "\n[rc=%d]\n" % r.returncode); log.flush()
    return r.returncode, r.stdout


os.makedirs("/tmp/confirm", exist_ok=True)
if not os.path.exists(WT):
    subprocess.run("git -C /repo worktree add --detach %s HEAD" % WT, shell=True, check=True)
sh("git checkout -q --detach $(git -C /repo rev-parse HEAD) && git checkout -- . && git clean -fdq -e target")
os.makedirs(os.path.join(WT, "tests/unit/target"), exist_ok=True)
res = {"seed": seed, "repo_head": subprocess.check_output("git -C /repo rev-parse --short HEAD", shell=True, text=True).strip()}
t0 = time.time()
rc, _ = sh("git apply %s/patch.diff" % seed)
res["applies"] = rc == 0
# 2. existing suite with the change (demo not installed)
rc, out = sh("cargo nextest run --workspace --no-fail-fast --tool-config-file pb:/w/lib/nextest.toml --profile pb --test-threads 8 --offline 2>&1 | tail -40", timeout=5400)
m = re.search(r"(\d+) tests run: (\d+) passed(?:, (\d+) failed)?(?:, (\d+) timed out)?", out)
fails = set(re.findall(r"(?:FAIL|TIMEOUT) \[[^\]]*\] \([^)]*\) (.*)", out))
fails = set(f.strip() for f in fails)
res["suite"] = {"summary": m.group(0) if m else None, "failed": sorted(fails), "unexpected_failures": sorted(fails - KNOWN_FAIL)}
res["compiles"] = m is not None
# rerun unexpected failures once alone (load-induced timeouts)
still = []
for f in sorted(fails - KNOWN_FAIL):
    name = f.split()[-1]
    rc2, out2 = sh("cargo nextest run --workspace --offline --tool-config-file pb:/w/lib/nextest.toml --profile pb -E 'test(=%s)' 2>&1 | tail -8" % name, timeout=1200)
    if "1 passed" not in out2:
        still.append(f)
res["suite"]["fail_again_alone"] = still
res["suite_passes"] = m is not None and not still
# 3. demo with the change
TEST = os.environ.get("CONFIRM_TEST", "-p sos-unit-tests")
DEMO = os.environ.get("CONFIRM_DEMO", "demo.rs")
HARN = os.environ.get("CONFIRM_HARNESS")
if HARN:
    rc, _ = sh("git apply %s/%s" % (seed, HARN))
    res["harness_applies"] = rc == 0
sh("cp %s/%s %s" % (seed, DEMO, demo_dest))
if mod_line.strip():
    sh("echo '%s' >> %s" % (mod_line, mod_file))
for pair in filter(None, os.environ.get("CONFIRM_EXTRA_COPY", "").split(",")):
    a, b = pair.split(":")
    sh("cp %s %s" % (a, b))
rc, out = sh("cargo test %s --offline %s 2>&1 | tail -30" % (TEST, filt), timeout=3000)
res["demo_with_change"] = "BUILD-ERROR" if "could not compile" in out else ("FAILED" if ("test result: FAILED" in out or "panicked" in out) else "ok")
# demo without the change
sh("git apply -R %s/patch.diff" % seed)
rc, out = sh("cargo test %s --offline %s 2>&1 | tail -30" % (TEST, filt), timeout=3000)
res["demo_without_change"] = "BUILD-ERROR" if "could not compile" in out else ("ok" if ("test result: ok" in out and "test result: FAILED" not in out and not re.search(r"test result: ok\. 0 passed", out)) else "FAILED")
sh("git checkout -- . && git clean -fdq -e target")
res["seconds"] = round(time.time() - t0)
res["confirmed"] = bool(res["applies"] and res["compiles"] and res["suite_passes"] and res["demo_with_change"] == "FAILED" and res["demo_without_change"] == "ok")
json.dump(res, open(os.path.join(seed, "confirm.json"), "w"), indent=1)
print(json.dumps(res))
