#!/usr/bin/env python3
"""Apply every /verif/seeded/<id>/patch.diff to /repo in turn, run the quick check(s) that should catch it
(MIR regenerated from the mutated tree), record exit code and VIOLATION / UNCOVERED / INCONCLUSIVE lines in
seeded/<id>/check_result.json, and restore /repo (`git checkout -- .`).  Afterwards the MIR cache is regenerated
from the clean tree.  Usage: tools/seed_regress.py [seed-id ...]"""
import json
import os
import subprocess
import sys
import time

HERE = os.path.dirname(os.path.dirname(os.path.abspath(__file__)))
SEEDED = os.path.join(HERE, "seeded")
REPO = "/repo"
EXTRA = {"C12-tombstone-recreate": ["C12", "C02"]}


def sh(cmd, **kw):
    return subprocess.run(cmd, shell=True, stdout=subprocess.PIPE, stderr=subprocess.STDOUT, text=True, **kw)


def main():
    ids = sys.argv[1:] or sorted(d for d in os.listdir(SEEDED) if os.path.isdir(os.path.join(SEEDED, d)))
    if sh("git -C %s status --porcelain" % REPO).stdout.strip():
        print("refusing: /repo working tree is not clean")
        return 2
    head = sh("git -C %s rev-parse --short HEAD" % REPO).stdout.strip()
    for sid in ids:
        d = os.path.join(SEEDED, sid)
        props = EXTRA.get(sid, [sid.split("-")[0]])
        res = {"repo_head": head, "runs": []}
        a = sh("git -C %s apply %s/patch.diff" % (REPO, d))
        if a.returncode != 0:
            res["error"] = "patch does not apply: " + a.stdout[-400:]
        else:
            try:
                for p in props:
                    t = time.time()
                    r = sh("cd %s && timeout 3000 ./check %s --tier quick" % (HERE, p))
                    lines = [l for l in r.stdout.split("\n") if l.startswith(("VIOLATION", "UNCOVERED", "INCONCLUSIVE", "KNOWN-FINDING"))]
                    details = [l for l in r.stdout.split("\n") if l.startswith("  violation") or "violation:" in l][:12]
                    res["runs"].append({"check": p, "cmd": "./check %s --tier quick" % p, "exit": r.returncode,
                                        "seconds": round(time.time() - t), "lines": lines[:20], "details": details,
                                        "caught": r.returncode == 1 and any(l.startswith("VIOLATION property=%s " % p) for l in lines)})
            finally:
                sh("git -C %s checkout -- ." % REPO)
        res["caught"] = any(x.get("caught") for x in res["runs"])
        json.dump(res, open(os.path.join(d, "check_result.json"), "w"), indent=1)
        print(sid, "CAUGHT" if res["caught"] else "MISSED", [(x["check"], x["exit"], x["seconds"]) for x in res["runs"]], flush=True)
    sh("git -C %s checkout -- ." % REPO)
    r = sh("cd %s && ./setup.sh" % HERE)
    print("MIR regenerated from the clean tree: exit", r.returncode)
    return 0


if __name__ == "__main__":
    sys.exit(main())
