//! Native replay driver: runs cases produced by the solver against the real crates
//! (public API, dev or release profile) and prints one JSON line per case.
use serde_json::{json, Value};
use std::io::{BufRead, Write};
use std::panic::{catch_unwind, AssertUnwindSafe};

mod cases;

/// Counting allocator: lets a case report the peak number of bytes requested while it ran.
pub mod alloc_count {
    use std::alloc::{GlobalAlloc, Layout, System};
    use std::sync::atomic::{AtomicUsize, Ordering};
    pub static CUR: AtomicUsize = AtomicUsize::new(0);
    pub static PEAK: AtomicUsize = AtomicUsize::new(0);
    pub static MAX_SINGLE: AtomicUsize = AtomicUsize::new(0);
    pub struct Counting;
    unsafe impl GlobalAlloc for Counting {
        unsafe fn alloc(&self, l: Layout) -> *mut u8 {
            let c = CUR.fetch_add(l.size(), Ordering::Relaxed) + l.size();
            PEAK.fetch_max(c, Ordering::Relaxed);
            MAX_SINGLE.fetch_max(l.size(), Ordering::Relaxed);
            System.alloc(l)
        }
        unsafe fn dealloc(&self, p: *mut u8, l: Layout) {
            CUR.fetch_sub(l.size(), Ordering::Relaxed);
            System.dealloc(p, l)
        }
        unsafe fn alloc_zeroed(&self, l: Layout) -> *mut u8 {
            let c = CUR.fetch_add(l.size(), Ordering::Relaxed) + l.size();
            PEAK.fetch_max(c, Ordering::Relaxed);
            MAX_SINGLE.fetch_max(l.size(), Ordering::Relaxed);
            System.alloc_zeroed(l)
        }
        unsafe fn realloc(&self, p: *mut u8, l: Layout, new: usize) -> *mut u8 {
            if new > l.size() {
                let c = CUR.fetch_add(new - l.size(), Ordering::Relaxed) + (new - l.size());
                PEAK.fetch_max(c, Ordering::Relaxed);
                MAX_SINGLE.fetch_max(new, Ordering::Relaxed);
            } else {
                CUR.fetch_sub(l.size() - new, Ordering::Relaxed);
            }
            System.realloc(p, l, new)
        }
    }
    pub fn reset() {
        PEAK.store(CUR.load(Ordering::Relaxed), Ordering::Relaxed);
        MAX_SINGLE.store(0, Ordering::Relaxed);
    }
    pub fn max_single() -> usize {
        MAX_SINGLE.load(Ordering::Relaxed)
    }
}

#[global_allocator]
static GLOBAL: alloc_count::Counting = alloc_count::Counting;

fn panic_message(e: Box<dyn std::any::Any + Send>) -> String {
    if let Some(s) = e.downcast_ref::<&str>() {
        s.to_string()
    } else if let Some(s) = e.downcast_ref::<String>() {
        s.clone()
    } else {
        "<non-string panic payload>".to_string()
    }
}

fn main() {
    std::panic::set_hook(Box::new(|_| {}));
    let rt = tokio::runtime::Builder::new_current_thread()
        .enable_all()
        .build()
        .unwrap();
    let stdin = std::io::stdin();
    let stdout = std::io::stdout();
    for line in stdin.lock().lines() {
        let line = line.unwrap();
        if line.trim().is_empty() {
            continue;
        }
        let case: Value = match serde_json::from_str(&line) {
            Ok(v) => v,
            Err(e) => {
                println!("{}", json!({"outcome":"bad-case","detail":e.to_string()}));
                continue;
            }
        };
        let id = case.get("id").cloned().unwrap_or(Value::Null);
        alloc_count::reset();
        let res = catch_unwind(AssertUnwindSafe(|| {
            rt.block_on(async { cases::run(&case).await })
        }));
        let mut out = match res {
            Ok(v) => v,
            Err(e) => json!({"outcome":"panic","detail":panic_message(e)}),
        };
        out["id"] = id;
        out["max_single_alloc"] = json!(alloc_count::max_single());
        let mut lock = stdout.lock();
        writeln!(lock, "{}", out).unwrap();
        lock.flush().unwrap();
    }
}
