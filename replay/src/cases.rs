use binary_stream::futures::{Decodable, Encodable};
use serde_json::{json, Value};
use sos_core::{
    commit::{CommitHash, CommitProof, CommitState, Comparison},
    crypto::{AeadPack, Cipher, KeyDerivation},
    decode, encode,
    events::{
        AccountEvent, DeviceEvent, EventKind, EventRecord, FileEvent,
        WriteEvent,
    },
    UtcDateTime, VaultCommit, VaultEntry,
};
use sos_vault::{
    secret::{Secret, SecretMeta, SecretRow},
    Header, SharedAccess, Summary, Vault, VaultMeta,
};

fn hexbytes(case: &Value, key: &str) -> Vec<u8> {
    hex::decode(case.get(key).and_then(|v| v.as_str()).unwrap_or("")).unwrap()
}

async fn dec<T>(bytes: &[u8]) -> Value
where
    T: Decodable + Encodable + Default,
{
    match decode::<T>(bytes).await {
        Ok(v) => {
            match encode(&v).await {
                Ok(b) => {
                    json!({"outcome":"ok","reenc":hex::encode(b)})
                }
                Err(e) => {
                    json!({"outcome":"ok","reenc_err":e.to_string()})
                }
            }
        }
        Err(e) => json!({"outcome":"err","detail":e.to_string()}),
    }
}

fn hash32(v: &Value) -> [u8; 32] {
    let b = hex::decode(v.as_str().unwrap()).unwrap();
    let mut out = [0u8; 32];
    out.copy_from_slice(&b);
    out
}

fn leaves_of(case: &Value, key: &str) -> Vec<[u8; 32]> {
    case.get(key)
        .and_then(|v| v.as_array())
        .map(|a| a.iter().map(hash32).collect())
        .unwrap_or_default()
}

fn tree_of(leaves: &[[u8; 32]]) -> sos_core::commit::CommitTree {
    let mut t = sos_core::commit::CommitTree::new();
    let mut l = leaves.to_vec();
    t.append(&mut l);
    t.commit();
    t
}

fn comparison_json(c: &Comparison) -> Value {
    match c {
        Comparison::Equal => json!({"kind":"Equal"}),
        Comparison::Contains(ix) => json!({"kind":"Contains","indices":ix}),
        Comparison::Unknown => json!({"kind":"Unknown"}),
    }
}

/// rs_merkle behaviour used to validate the ideal-hash model: a script of
/// append/commit/rollback steps, then root, leaves, single-index proofs and
/// verification of each proof against every claimed total.
fn merkle_script(case: &Value) -> Value {
    use rs_merkle::{algorithms::Sha256, MerkleProof, MerkleTree};
    let mut t = MerkleTree::<Sha256>::new();
    for step in case.get("steps").and_then(|v| v.as_array()).unwrap() {
        if let Some(a) = step.get("append").and_then(|v| v.as_array()) {
            let mut l: Vec<[u8; 32]> = a.iter().map(hash32).collect();
            t.append(&mut l);
        } else if step.get("commit").is_some() {
            t.commit();
        } else if step.get("rollback").is_some() {
            t.rollback();
        }
    }
    let leaves = t.leaves().unwrap_or_default();
    let n = leaves.len();
    let mut proofs = vec![];
    let mut verify = vec![];
    for i in 0..n {
        let p = t.proof(&[i]);
        let bytes = p.to_bytes();
        proofs.push(hex::encode(&bytes));
        let p2 = MerkleProof::<Sha256>::from_bytes(&bytes).unwrap();
        let mut row = vec![];
        if let Some(root) = t.root() {
            for total in 1..=(n + 2) {
                row.push(p2.verify(root, &[i], &[leaves[i]], total));
            }
        }
        verify.push(row);
    }
    json!({
        "outcome":"ok",
        "root": t.root().map(hex::encode),
        "len": t.leaves_len(),
        "leaves": leaves.iter().map(hex::encode).collect::<Vec<_>>(),
        "proofs": proofs,
        "verify": verify,
    })
}

/// decode(b) -> v1, encode(v1) -> e1, decode(e1) -> v2, encode(v2) -> e2
async fn roundtrip<T>(bytes: &[u8]) -> Value
where
    T: Decodable + Encodable + Default,
{
    let v1 = match decode::<T>(bytes).await {
        Ok(v) => v,
        Err(e) => return json!({"outcome":"err","stage":"decode1","detail":e.to_string()}),
    };
    let e1 = match encode(&v1).await {
        Ok(b) => b,
        Err(e) => return json!({"outcome":"err","stage":"encode1","detail":e.to_string()}),
    };
    tokio::time::sleep(std::time::Duration::from_millis(2)).await;
    let v2 = match decode::<T>(&e1).await {
        Ok(v) => v,
        Err(e) => return json!({"outcome":"err","stage":"decode2","e1":hex::encode(&e1),"detail":e.to_string()}),
    };
    let e2 = match encode(&v2).await {
        Ok(b) => b,
        Err(e) => return json!({"outcome":"err","stage":"encode2","e1":hex::encode(&e1),"detail":e.to_string()}),
    };
    json!({"outcome":"ok","e1":hex::encode(&e1),"e2":hex::encode(&e2),"stable": e1 == e2})
}

macro_rules! by_type {
    ($f:ident, $ty:expr, $bytes:expr) => {
        match $ty {
            "EventKind" => $f::<EventKind>($bytes).await,
            "UtcDateTime" => $f::<UtcDateTime>($bytes).await,
            "CommitHash" => $f::<CommitHash>($bytes).await,
            "CommitProof" => $f::<CommitProof>($bytes).await,
            "CommitState" => $f::<CommitState>($bytes).await,
            "Comparison" => $f::<Comparison>($bytes).await,
            "AeadPack" => $f::<AeadPack>($bytes).await,
            "Cipher" => $f::<Cipher>($bytes).await,
            "KeyDerivation" => $f::<KeyDerivation>($bytes).await,
            "VaultEntry" => $f::<VaultEntry>($bytes).await,
            "VaultCommit" => $f::<VaultCommit>($bytes).await,
            "WriteEvent" => $f::<WriteEvent>($bytes).await,
            "AccountEvent" => $f::<AccountEvent>($bytes).await,
            "DeviceEvent" => $f::<DeviceEvent>($bytes).await,
            "FileEvent" => $f::<FileEvent>($bytes).await,
            "EventRecord" => $f::<EventRecord>($bytes).await,
            "VaultMeta" => $f::<VaultMeta>($bytes).await,
            "Summary" => $f::<Summary>($bytes).await,
            "Header" => $f::<Header>($bytes).await,
            "SharedAccess" => $f::<SharedAccess>($bytes).await,
            "Vault" => $f::<Vault>($bytes).await,
            "Secret" => $f::<Secret>($bytes).await,
            "SecretMeta" => $f::<SecretMeta>($bytes).await,
            "SecretRow" => $f::<SecretRow>($bytes).await,
            _ => json!({"outcome":"unsupported","detail":format!("type {}", $ty)}),
        }
    };
}

pub async fn run(case: &Value) -> Value {
    let op = case.get("op").and_then(|v| v.as_str()).unwrap_or("");
    match op {
        "roundtrip" => {
            let ty = case.get("ty").and_then(|v| v.as_str()).unwrap_or("");
            let bytes = hexbytes(case, "bytes");
            by_type!(roundtrip, ty, &bytes)
        }
        "merkle_script" => merkle_script(case),
        "compare" => {
            // compare(A, head(B)) and per-index verify_leaves of B's proofs against A's leaves
            let a = leaves_of(case, "a");
            let b = leaves_of(case, "b");
            let ta = tree_of(&a);
            let tb = tree_of(&b);
            let head = match tb.head() {
                Ok(h) => h,
                Err(e) => return json!({"outcome":"err","detail":e.to_string()}),
            };
            let cmp = match ta.compare(&head) {
                Ok(c) => comparison_json(&c),
                Err(e) => json!({"kind":"Err","detail":e.to_string()}),
            };
            let mut vl = vec![];
            for i in 0..b.len() {
                let p = tb.proof(&[i]).unwrap();
                let (okv, matched) = p.verify_leaves(&a);
                vl.push(json!({"index":i,"verified":okv,"matched":matched.len()}));
            }
            json!({"outcome":"ok","compare":cmp,"verify_leaves":vl})
        }
        "decode" => {
            let ty = case.get("ty").and_then(|v| v.as_str()).unwrap_or("");
            let bytes = hexbytes(case, "bytes");
            match ty {
                "EventKind" => dec::<EventKind>(&bytes).await,
                "UtcDateTime" => dec::<UtcDateTime>(&bytes).await,
                "CommitHash" => dec::<CommitHash>(&bytes).await,
                "CommitProof" => dec::<CommitProof>(&bytes).await,
                "CommitState" => dec::<CommitState>(&bytes).await,
                "Comparison" => dec::<Comparison>(&bytes).await,
                "AeadPack" => dec::<AeadPack>(&bytes).await,
                "Cipher" => dec::<Cipher>(&bytes).await,
                "KeyDerivation" => dec::<KeyDerivation>(&bytes).await,
                "VaultEntry" => dec::<VaultEntry>(&bytes).await,
                "VaultCommit" => dec::<VaultCommit>(&bytes).await,
                "WriteEvent" => dec::<WriteEvent>(&bytes).await,
                "AccountEvent" => dec::<AccountEvent>(&bytes).await,
                "DeviceEvent" => dec::<DeviceEvent>(&bytes).await,
                "FileEvent" => dec::<FileEvent>(&bytes).await,
                "EventRecord" => dec::<EventRecord>(&bytes).await,
                "VaultMeta" => dec::<VaultMeta>(&bytes).await,
                "Summary" => dec::<Summary>(&bytes).await,
                "Header" => dec::<Header>(&bytes).await,
                "SharedAccess" => dec::<SharedAccess>(&bytes).await,
                "Vault" => dec::<Vault>(&bytes).await,
                "Secret" => dec::<Secret>(&bytes).await,
                "SecretMeta" => dec::<SecretMeta>(&bytes).await,
                "SecretRow" => dec::<SecretRow>(&bytes).await,
                _ => json!({"outcome":"unsupported","detail":format!("type {}", ty)}),
            }
        }
        _ => json!({"outcome":"unsupported","detail":format!("op {}", op)}),
    }
}
