use binary_stream::futures::{Decodable, Encodable};
use serde_json::{json, Value};
use sos_core::{
    commit::{CommitHash, CommitProof, CommitState, Comparison},
    crypto::{AeadPack, Cipher, KeyDerivation},
    decode, encode,
    events::{
        AccountEvent, DeviceEvent, EventKind, EventRecord, FileEvent,
        WriteEvent,
    },
    UtcDateTime, VaultCommit, VaultEntry,
};
use sos_vault::{
    secret::{Secret, SecretMeta, SecretRow},
    Header, SharedAccess, Summary, Vault, VaultMeta,
};

fn hexbytes(case: &Value, key: &str) -> Vec<u8> {
    hex::decode(case.get(key).and_then(|v| v.as_str()).unwrap_or("")).unwrap()
}

async fn dec<T>(bytes: &[u8]) -> Value
where
    T: Decodable + Encodable + Default,
{
    match decode::<T>(bytes).await {
        Ok(v) => {
            match encode(&v).await {
                Ok(b) => {
                    json!({"outcome":"ok","reenc":hex::encode(b)})
                }
                Err(e) => {
                    json!({"outcome":"ok","reenc_err":e.to_string()})
                }
            }
        }
        Err(e) => json!({"outcome":"err","detail":e.to_string()}),
    }
}

pub async fn run(case: &Value) -> Value {
    let op = case.get("op").and_then(|v| v.as_str()).unwrap_or("");
    match op {
        "decode" => {
            let ty = case.get("ty").and_then(|v| v.as_str()).unwrap_or("");
            let bytes = hexbytes(case, "bytes");
            match ty {
                "EventKind" => dec::<EventKind>(&bytes).await,
                "UtcDateTime" => dec::<UtcDateTime>(&bytes).await,
                "CommitHash" => dec::<CommitHash>(&bytes).await,
                "CommitProof" => dec::<CommitProof>(&bytes).await,
                "CommitState" => dec::<CommitState>(&bytes).await,
                "Comparison" => dec::<Comparison>(&bytes).await,
                "AeadPack" => dec::<AeadPack>(&bytes).await,
                "Cipher" => dec::<Cipher>(&bytes).await,
                "KeyDerivation" => dec::<KeyDerivation>(&bytes).await,
                "VaultEntry" => dec::<VaultEntry>(&bytes).await,
                "VaultCommit" => dec::<VaultCommit>(&bytes).await,
                "WriteEvent" => dec::<WriteEvent>(&bytes).await,
                "AccountEvent" => dec::<AccountEvent>(&bytes).await,
                "DeviceEvent" => dec::<DeviceEvent>(&bytes).await,
                "FileEvent" => dec::<FileEvent>(&bytes).await,
                "EventRecord" => dec::<EventRecord>(&bytes).await,
                "VaultMeta" => dec::<VaultMeta>(&bytes).await,
                "Summary" => dec::<Summary>(&bytes).await,
                "Header" => dec::<Header>(&bytes).await,
                "SharedAccess" => dec::<SharedAccess>(&bytes).await,
                "Vault" => dec::<Vault>(&bytes).await,
                "Secret" => dec::<Secret>(&bytes).await,
                "SecretMeta" => dec::<SecretMeta>(&bytes).await,
                "SecretRow" => dec::<SecretRow>(&bytes).await,
                _ => json!({"outcome":"unsupported","detail":format!("type {}", ty)}),
            }
        }
        _ => json!({"outcome":"unsupported","detail":format!("op {}", op)}),
    }
}
