use binary_stream::futures::{Decodable, Encodable};
use serde_json::{json, Value};
use sos_core::{
    commit::{CommitHash, CommitProof, CommitState, Comparison},
    crypto::{AeadPack, Cipher, KeyDerivation},
    decode, encode,
    events::{
        AccountEvent, DeviceEvent, EventKind, EventRecord, FileEvent,
        WriteEvent,
    },
    UtcDateTime, VaultCommit, VaultEntry,
};
use sos_vault::{
    secret::{Secret, SecretMeta, SecretRow},
    Header, SharedAccess, Summary, Vault, VaultMeta,
};

fn hexbytes(case: &Value, key: &str) -> Vec<u8> {
    hex::decode(case.get(key).and_then(|v| v.as_str()).unwrap_or("")).unwrap()
}

async fn dec<T>(bytes: &[u8]) -> Value
where
    T: Decodable + Encodable + Default,
{
    match decode::<T>(bytes).await {
        Ok(v) => {
            match encode(&v).await {
                Ok(b) => {
                    json!({"outcome":"ok","reenc":hex::encode(b)})
                }
                Err(e) => {
                    json!({"outcome":"ok","reenc_err":e.to_string()})
                }
            }
        }
        Err(e) => json!({"outcome":"err","detail":e.to_string()}),
    }
}

fn hash32(v: &Value) -> [u8; 32] {
    let b = hex::decode(v.as_str().unwrap()).unwrap();
    let mut out = [0u8; 32];
    out.copy_from_slice(&b);
    out
}

fn leaves_of(case: &Value, key: &str) -> Vec<[u8; 32]> {
    case.get(key)
        .and_then(|v| v.as_array())
        .map(|a| a.iter().map(hash32).collect())
        .unwrap_or_default()
}

fn tree_of(leaves: &[[u8; 32]]) -> sos_core::commit::CommitTree {
    let mut t = sos_core::commit::CommitTree::new();
    let mut l = leaves.to_vec();
    t.append(&mut l);
    t.commit();
    t
}

fn comparison_json(c: &Comparison) -> Value {
    match c {
        Comparison::Equal => json!({"kind":"Equal"}),
        Comparison::Contains(ix) => json!({"kind":"Contains","indices":ix}),
        Comparison::Unknown => json!({"kind":"Unknown"}),
    }
}

/// rs_merkle behaviour used to validate the ideal-hash model: a script of
/// append/commit/rollback steps, then root, leaves, single-index proofs and
/// verification of each proof against every claimed total.
fn merkle_script(case: &Value) -> Value {
    use rs_merkle::{algorithms::Sha256, MerkleProof, MerkleTree};
    let mut t = MerkleTree::<Sha256>::new();
    for step in case.get("steps").and_then(|v| v.as_array()).unwrap() {
        if let Some(a) = step.get("append").and_then(|v| v.as_array()) {
            let mut l: Vec<[u8; 32]> = a.iter().map(hash32).collect();
            t.append(&mut l);
        } else if step.get("commit").is_some() {
            t.commit();
        } else if step.get("rollback").is_some() {
            t.rollback();
        }
    }
    let leaves = t.leaves().unwrap_or_default();
    let n = leaves.len();
    let mut proofs = vec![];
    let mut verify = vec![];
    for i in 0..n {
        let p = t.proof(&[i]);
        let bytes = p.to_bytes();
        proofs.push(hex::encode(&bytes));
        let p2 = MerkleProof::<Sha256>::from_bytes(&bytes).unwrap();
        let mut row = vec![];
        if let Some(root) = t.root() {
            for total in 1..=(n + 2) {
                row.push(p2.verify(root, &[i], &[leaves[i]], total));
            }
        }
        verify.push(row);
    }
    json!({
        "outcome":"ok",
        "root": t.root().map(hex::encode),
        "len": t.leaves_len(),
        "leaves": leaves.iter().map(hex::encode).collect::<Vec<_>>(),
        "proofs": proofs,
        "verify": verify,
    })
}

/// decode(b) -> v1, encode(v1) -> e1, decode(e1) -> v2, encode(v2) -> e2
async fn roundtrip<T>(bytes: &[u8]) -> Value
where
    T: Decodable + Encodable + Default,
{
    let v1 = match decode::<T>(bytes).await {
        Ok(v) => v,
        Err(e) => return json!({"outcome":"err","stage":"decode1","detail":e.to_string()}),
    };
    let e1 = match encode(&v1).await {
        Ok(b) => b,
        Err(e) => return json!({"outcome":"err","stage":"encode1","detail":e.to_string()}),
    };
    tokio::time::sleep(std::time::Duration::from_millis(2)).await;
    let v2 = match decode::<T>(&e1).await {
        Ok(v) => v,
        Err(e) => return json!({"outcome":"err","stage":"decode2","e1":hex::encode(&e1),"detail":e.to_string()}),
    };
    let e2 = match encode(&v2).await {
        Ok(b) => b,
        Err(e) => return json!({"outcome":"err","stage":"encode2","e1":hex::encode(&e1),"detail":e.to_string()}),
    };
    json!({"outcome":"ok","e1":hex::encode(&e1),"e2":hex::encode(&e2),"stable": e1 == e2})
}

macro_rules! by_type {
    ($f:ident, $ty:expr, $bytes:expr) => {
        match $ty {
            "EventKind" => $f::<EventKind>($bytes).await,
            "UtcDateTime" => $f::<UtcDateTime>($bytes).await,
            "CommitHash" => $f::<CommitHash>($bytes).await,
            "CommitProof" => $f::<CommitProof>($bytes).await,
            "CommitState" => $f::<CommitState>($bytes).await,
            "Comparison" => $f::<Comparison>($bytes).await,
            "AeadPack" => $f::<AeadPack>($bytes).await,
            "Cipher" => $f::<Cipher>($bytes).await,
            "KeyDerivation" => $f::<KeyDerivation>($bytes).await,
            "VaultEntry" => $f::<VaultEntry>($bytes).await,
            "VaultCommit" => $f::<VaultCommit>($bytes).await,
            "WriteEvent" => $f::<WriteEvent>($bytes).await,
            "AccountEvent" => $f::<AccountEvent>($bytes).await,
            "DeviceEvent" => $f::<DeviceEvent>($bytes).await,
            "FileEvent" => $f::<FileEvent>($bytes).await,
            "EventRecord" => $f::<EventRecord>($bytes).await,
            "VaultMeta" => $f::<VaultMeta>($bytes).await,
            "Summary" => $f::<Summary>($bytes).await,
            "Header" => $f::<Header>($bytes).await,
            "SharedAccess" => $f::<SharedAccess>($bytes).await,
            "Vault" => $f::<Vault>($bytes).await,
            "Secret" => $f::<Secret>($bytes).await,
            "SecretMeta" => $f::<SecretMeta>($bytes).await,
            "SecretRow" => $f::<SecretRow>($bytes).await,
            _ => json!({"outcome":"unsupported","detail":format!("type {}", $ty)}),
        }
    };
}

fn aead_of(v: &Value) -> AeadPack {
    // {"n": first nonce byte, "c": single ciphertext byte}
    let mut nonce = [0u8; 12];
    nonce[0] = v.get("n").and_then(|x| x.as_u64()).unwrap_or(0) as u8;
    AeadPack {
        nonce: sos_core::crypto::Nonce::Nonce12(nonce),
        ciphertext: vec![v.get("c").and_then(|x| x.as_u64()).unwrap_or(0) as u8],
    }
}

fn uuid_of(sel: u64) -> uuid::Uuid {
    let mut b = [0u8; 16];
    b[0] = sel as u8;
    uuid::Uuid::from_bytes(b)
}

fn commit_of(v: &Value) -> VaultCommit {
    let mut h = [0u8; 32];
    h[0] = v.get("h").and_then(|x| x.as_u64()).unwrap_or(0) as u8;
    VaultCommit(CommitHash(h), VaultEntry(aead_of(&v["m"]), aead_of(&v["s"])))
}

fn write_event_of(v: &Value) -> WriteEvent {
    use sos_core::VaultFlags;
    match v.get("kind").and_then(|x| x.as_str()).unwrap_or("") {
        "name" => WriteEvent::SetVaultName(v["name"].as_str().unwrap().to_string()),
        "flags" => WriteEvent::SetVaultFlags(VaultFlags::from_bits_truncate(v["bits"].as_u64().unwrap())),
        "meta" => WriteEvent::SetVaultMeta(aead_of(&v["aead"])),
        "create" => WriteEvent::CreateSecret(uuid_of(v["id"].as_u64().unwrap()), commit_of(&v["value"])),
        "update" => WriteEvent::UpdateSecret(uuid_of(v["id"].as_u64().unwrap()), commit_of(&v["value"])),
        "delete" => WriteEvent::DeleteSecret(uuid_of(v["id"].as_u64().unwrap())),
        k => panic!("unknown event kind {}", k),
    }
}

fn base_vault(h: &Value) -> Vault {
    use sos_core::VaultFlags;
    let mut vault: Vault = Default::default();
    vault.set_name(h["name"].as_str().unwrap_or("").to_string());
    *vault.flags_mut() = VaultFlags::from_bits_truncate(h["flags"].as_u64().unwrap_or(0));
    if !h["meta"].is_null() {
        vault.header_mut().set_meta(Some(aead_of(&h["meta"])));
    }
    vault
}

async fn vault_summary(v: &Vault) -> Value {
    let meta = match v.header().meta() {
        Some(m) => hex::encode(encode(m).await.unwrap()),
        None => String::new(),
    };
    let mut secrets = vec![];
    for (id, c) in v.iter() {
        secrets.push(format!("{}={}", id, hex::encode(encode(c).await.unwrap())));
    }
    secrets.sort();
    json!({"name": v.name(), "flags": v.flags().bits(), "meta": meta, "secrets": secrets})
}

type FsLog = sos_filesystem::FolderEventLog<sos_filesystem::Error>;

async fn folder_log(events: &[WriteEvent]) -> (std::path::PathBuf, FsLog) {
    use sos_core::events::EventLog;
    let path = tmp_path("log");
    let _ = std::fs::remove_file(&path);
    let mut log = FsLog::new_folder(
        &path,
        sos_core::AccountId::random(),
        sos_core::events::EventLogType::Folder(uuid_of(9)),
    )
    .await
    .unwrap();
    log.apply(events).await.unwrap();
    (path, log)
}

/// reduce+build vs reduce+compact+reduce+build on a real file-system event log
async fn compact_case(case: &Value) -> Value {
    use sos_reducers::FolderReducer;
    let vault = base_vault(&case["header_concrete"]);
    let mut events = vec![vault.into_event().await.unwrap()];
    for e in case["events_concrete"].as_array().unwrap() {
        events.push(write_event_of(e));
    }
    let (p1, log) = folder_log(&events).await;
    let full = FolderReducer::new().reduce(&log).await.unwrap().build(true).await.unwrap();
    let compacted = FolderReducer::new().reduce(&log).await.unwrap().compact().await.unwrap();
    let (p2, log2) = folder_log(&compacted).await;
    let again = FolderReducer::new().reduce(&log2).await.unwrap().build(true).await.unwrap();
    let a = vault_summary(&full).await;
    let b = vault_summary(&again).await;
    let _ = std::fs::remove_file(p1);
    let _ = std::fs::remove_file(p2);
    json!({"outcome":"ok",
        "name_before": a["name"], "name_after": b["name"],
        "flags_before": a["flags"], "flags_after": b["flags"],
        "meta_before": a["meta"], "meta_after": b["meta"],
        "secrets_before": a["secrets"], "secrets_after": b["secrets"],
        "compact_len": compacted.len(), "live": full.len()})
}

/// C02 step: V = build(reduce(L)); apply one EncryptedEntry operation; compare with build(reduce(L . event))
async fn vault_step(case: &Value) -> Value {
    use sos_core::events::EventLog;
    use sos_reducers::FolderReducer;
    use sos_vault::EncryptedEntry;
    let vault = base_vault(&case["header_concrete"]);
    let mut events = vec![vault.into_event().await.unwrap()];
    for e in case["events_concrete"].as_array().unwrap() {
        events.push(write_event_of(e));
    }
    let (p1, mut log) = folder_log(&events).await;
    let mut v = FolderReducer::new().reduce(&log).await.unwrap().build(true).await.unwrap();
    let o = &case["operation"];
    let ev: Option<WriteEvent> = match o["op"].as_str().unwrap() {
        "set_name" => Some(v.set_vault_name(o["name"].as_str().unwrap().to_string()).await.unwrap()),
        "set_flags" => Some(
            v.set_vault_flags(sos_core::VaultFlags::from_bits_truncate(o["bits"].as_u64().unwrap()))
                .await
                .unwrap(),
        ),
        "set_meta" => Some(v.set_vault_meta(aead_of(&o["aead"])).await.unwrap()),
        "insert" => {
            let c = commit_of(&o["value"]);
            Some(v.insert_secret(uuid_of(o["id"].as_u64().unwrap()), c.0, c.1).await.unwrap())
        }
        "update" => {
            let c = commit_of(&o["value"]);
            v.update_secret(&uuid_of(o["id"].as_u64().unwrap()), c.0, c.1).await.unwrap()
        }
        "delete" => v.delete_secret(&uuid_of(o["id"].as_u64().unwrap())).await.unwrap(),
        k => panic!("unknown op {}", k),
    };
    if let Some(ev) = &ev {
        log.apply(std::slice::from_ref(ev)).await.unwrap();
    }
    let replayed = FolderReducer::new().reduce(&log).await.unwrap().build(true).await.unwrap();
    // time travel: for every commit k, new_until_commit(k) == fold of the first k+1 events
    let mut tt_bad = vec![];
    let leaves = log.tree().leaves().unwrap_or_default();
    let mut all_events = events.clone();
    if let Some(ev) = &ev {
        all_events.push(ev.clone());
    }
    for (k, leaf) in leaves.iter().enumerate() {
        let a = FolderReducer::new_until_commit(CommitHash(*leaf)).reduce(&log).await.unwrap().build(true).await.unwrap();
        let (p3, l3) = folder_log(&all_events[..=k]).await;
        let b = FolderReducer::new().reduce(&l3).await.unwrap().build(true).await.unwrap();
        let _ = std::fs::remove_file(p3);
        if vault_summary(&a).await != vault_summary(&b).await {
            tt_bad.push(k);
        }
    }
    let a = vault_summary(&v).await;
    let b = vault_summary(&replayed).await;
    let _ = std::fs::remove_file(p1);
    json!({"outcome":"ok","operated":a,"replayed":b,"event_emitted":ev.is_some(),"time_travel_mismatch":tt_bad})
}

/// A do-nothing AutoMerge implementor: `merge_patches` is a provided method that never touches
/// the client or the account, so nothing here is ever called.
struct Dummy;

#[async_trait::async_trait]
impl sos_remote_sync::RemoteSyncHandler for Dummy {
    type Client = sos_protocol::network_client::HttpClient;
    type Account = sos_account::LocalAccount;
    type Error = sos_net::Error;
    fn client(&self) -> &Self::Client {
        unimplemented!()
    }
    fn origin(&self) -> &sos_core::Origin {
        unimplemented!()
    }
    fn account_id(&self) -> &sos_core::AccountId {
        unimplemented!()
    }
    fn account(&self) -> std::sync::Arc<tokio::sync::Mutex<Self::Account>> {
        unimplemented!()
    }
    fn direction(&self) -> sos_sync::SyncDirection {
        unimplemented!()
    }
    fn file_transfer_queue(&self) -> &sos_protocol::transfer::FileTransferQueueSender {
        unimplemented!()
    }
    async fn execute_sync_file_transfers(&self) -> Result<(), Self::Error> {
        unimplemented!()
    }
}

#[async_trait::async_trait]
impl sos_remote_sync::AutoMerge for Dummy {}

fn record_of(v: &Value) -> EventRecord {
    let secs = v["secs"].as_i64().unwrap();
    let nanos = v["nanos"].as_u64().unwrap() as i64;
    let t = time::OffsetDateTime::from_unix_timestamp(secs).unwrap() + time::Duration::nanoseconds(nanos);
    let mut c = [0u8; 32];
    c[0] = (v["commit"].as_u64().unwrap() & 0xff) as u8;
    c[1] = ((v["commit"].as_u64().unwrap() >> 8) & 0xff) as u8;
    EventRecord::new(t.into(), CommitHash([0u8; 32]), CommitHash(c), vec![])
}

fn record_json(r: &EventRecord) -> Value {
    let c = r.commit().as_ref();
    let t: time::OffsetDateTime = r.time().clone().into();
    json!({"commit": (c[0] as u64) | ((c[1] as u64) << 8),
           "secs": t.unix_timestamp(), "nanos": t.nanosecond()})
}

async fn merge_patches_case(case: &Value) -> Value {
    use sos_remote_sync::{AutoMerge, AutoMergeStatus};
    let local: Vec<EventRecord> = case["local"].as_array().unwrap().iter().map(record_of).collect();
    let remote: Vec<EventRecord> = case["remote"].as_array().unwrap().iter().map(record_of).collect();
    match Dummy.merge_patches(local, remote).await {
        Ok(AutoMergeStatus::RewindLocal(v)) => json!({"outcome":"ok","status":"RewindLocal","records": v.iter().map(record_json).collect::<Vec<_>>()}),
        Ok(AutoMergeStatus::PushRemote(v)) => json!({"outcome":"ok","status":"PushRemote","records": v.iter().map(record_json).collect::<Vec<_>>()}),
        Err(e) => json!({"outcome":"err","detail":e.to_string()}),
    }
}

/// C20: apply a history to a fresh SearchIndex and compare its counters with a recount of documents()
fn search_history(case: &Value) -> Value {
    use sos_search::SearchIndex;
    use sos_vault::secret::{SecretMeta, SecretType};
    use std::collections::{HashMap, HashSet};
    let mut idx = SearchIndex::new();
    if let Some(a) = case["archive"].as_u64() {
        idx.set_archive_id(Some(uuid_of(a)));
    }
    let archive = case["archive"].as_u64().map(uuid_of);
    let secret: Secret = Default::default();
    let mut live: HashSet<(uuid::Uuid, uuid::Uuid)> = HashSet::new();
    let mut attrs: HashMap<(uuid::Uuid, uuid::Uuid), (u8, bool, bool)> = HashMap::new();
    for (n, o) in case["ops"].as_array().unwrap().iter().enumerate() {
        let f = uuid_of(o["folder"].as_u64().unwrap());
        match o["op"].as_str().unwrap() {
            "add" | "update" => {
                let i = uuid_of(o["id"].as_u64().unwrap());
                let a = &o["attrs"];
                let kind = if a["kind"].as_str() == Some("Account") { SecretType::Account } else { SecretType::Note };
                let mut meta = SecretMeta::new(format!("Lop{}", n), kind);
                if a["tag"].as_bool() == Some(true) {
                    let mut t = HashSet::new();
                    t.insert("t".to_string());
                    meta.set_tags(t);
                }
                meta.set_favorite(a["favorite"].as_bool() == Some(true));
                let is_add = o["op"].as_str() == Some("add");
                if is_add {
                    idx.add(&f, &i, &meta, &secret);
                } else {
                    idx.update(&f, &i, &meta, &secret);
                }
                if !(is_add && live.contains(&(f, i))) {
                    attrs.insert((f, i), (meta.kind().into(), !meta.tags().is_empty(), meta.favorite()));
                }
                live.insert((f, i));
            }
            "remove" => {
                let i = uuid_of(o["id"].as_u64().unwrap());
                idx.remove(&f, &i);
                live.remove(&(f, i));
            }
            "remove_vault" => {
                idx.remove_vault(&f);
                live.retain(|k| k.0 != f);
            }
            k => panic!("unknown op {}", k),
        }
    }
    let mut mismatch: Vec<String> = vec![];
    let docs: HashSet<(uuid::Uuid, uuid::Uuid)> = idx.documents().values().map(|d| (*d.folder_id(), *d.id())).collect();
    if docs != live || idx.documents().len() != live.len() {
        mismatch.push("documents".into());
    }
    for d in idx.documents().values() {
        if let Some(a) = attrs.get(&(*d.folder_id(), *d.id())) {
            let got: (u8, bool, bool) = (d.meta().kind().into(), !d.meta().tags().is_empty(), d.meta().favorite());
            if &got != a {
                mismatch.push("stale document".into());
            }
        }
    }
    let mut rv: HashMap<uuid::Uuid, usize> = HashMap::new();
    let mut rk: HashMap<u8, usize> = HashMap::new();
    let mut rt: HashMap<String, usize> = HashMap::new();
    let mut rf = 0usize;
    for d in idx.documents().values() {
        *rv.entry(*d.folder_id()).or_insert(0) += 1;
        if Some(*d.folder_id()) != archive {
            *rk.entry(d.meta().kind().into()).or_insert(0) += 1;
        }
        for t in d.meta().tags() {
            *rt.entry(t.clone()).or_insert(0) += 1;
        }
        if d.meta().favorite() {
            rf += 1;
        }
    }
    let c = idx.statistics().count();
    let keys: HashSet<_> = c.vaults().keys().chain(rv.keys()).cloned().collect();
    if keys.iter().any(|k| c.vaults().get(k).copied().unwrap_or(0) != rv.get(k).copied().unwrap_or(0)) {
        mismatch.push("folders".into());
    }
    let keys: HashSet<_> = c.kinds().keys().chain(rk.keys()).cloned().collect();
    if keys.iter().any(|k| c.kinds().get(k).copied().unwrap_or(0) != rk.get(k).copied().unwrap_or(0)) {
        mismatch.push("kinds".into());
    }
    let keys: HashSet<_> = c.tags().keys().chain(rt.keys()).cloned().collect();
    if keys.iter().any(|k| c.tags().get(k).copied().unwrap_or(0) != rt.get(k).copied().unwrap_or(0)) {
        mismatch.push("tags".into());
    }
    if c.favorites() != rf {
        mismatch.push("favorites".into());
    }
    json!({"outcome":"ok","mismatch":mismatch,"folders":format!("{:?}", c.vaults()),"recount":format!("{:?}", rv)})
}

fn fs_record_of(v: &Value) -> EventRecord {
    let secs = v["secs"].as_i64().unwrap();
    let nanos = v["nanos"].as_u64().unwrap() as i64;
    let t = time::OffsetDateTime::from_unix_timestamp(secs).unwrap() + time::Duration::nanoseconds(nanos);
    let mut c = [0x11u8; 32];
    c[0] = v["commit"].as_u64().unwrap() as u8;
    let payload = hex::decode(v["payload"].as_str().unwrap_or("")).unwrap();
    EventRecord::new(t.into(), CommitHash([0u8; 32]), CommitHash(c), payload)
}

fn commit_of_byte(b: u64) -> CommitHash {
    let mut c = [0x11u8; 32];
    c[0] = b as u8;
    CommitHash(c)
}

fn leaves_hex(t: &sos_core::commit::CommitTree) -> Vec<String> {
    t.leaves().unwrap_or_default().iter().map(hex::encode).collect()
}

/// Run a script of event-log operations on a real file-system event log, then re-open the file with a
/// fresh instance and report both trees and the file bytes around the last operation.
async fn fslog_script(case: &Value) -> Value {
    use sos_core::events::{patch::Patch, EventLog};
    let versioned = case["versioned"].as_bool().unwrap_or(false);
    let path = tmp_path("fslog");
    let _ = std::fs::remove_file(&path);
    let account = sos_core::AccountId::random();
    macro_rules! drive {
        ($log:expr, $reopen:expr, $ev:ty) => {{
            let mut log = $log;
            let mut results = vec![];
            let mut before = vec![];
            for step in case["steps"].as_array().unwrap() {
                before = std::fs::read(&path).unwrap();
                if let Some(a) = step.get("apply") {
                    let recs: Vec<EventRecord> = a.as_array().unwrap().iter().map(fs_record_of).collect();
                    results.push(match log.apply_records(recs).await { Ok(_) => json!("ok"), Err(e) => json!(format!("err: {}", e)) });
                } else if let Some(c) = step.get("rewind") {
                    results.push(match log.rewind(&commit_of_byte(c.as_u64().unwrap())).await {
                        Ok(r) => json!({"removed": r.iter().map(|x| x.commit().as_ref()[0]).collect::<Vec<u8>>()}),
                        Err(e) => json!(format!("err: {}", e)),
                    });
                } else if step.get("clear").is_some() {
                    results.push(match log.clear().await { Ok(_) => json!("ok"), Err(e) => json!(format!("err: {}", e)) });
                } else if let Some(pc) = step.get("patch_checked") {
                    // the proof is the head of a tree built from the given leaf bytes
                    let mut other = sos_core::commit::CommitTree::new();
                    let mut l: Vec<[u8; 32]> = pc["proof_of"].as_array().unwrap().iter().map(|b| commit_of_byte(b.as_u64().unwrap()).0).collect();
                    other.append(&mut l);
                    other.commit();
                    let proof = other.head().unwrap();
                    let recs: Vec<EventRecord> = pc["records"].as_array().unwrap().iter().map(fs_record_of).collect();
                    let patch = Patch::<$ev>::new(recs);
                    results.push(match log.patch_checked(&proof, &patch).await {
                        Ok(sos_core::events::patch::CheckedPatch::Success(_)) => json!("success"),
                        Ok(sos_core::events::patch::CheckedPatch::Conflict { .. }) => json!("conflict"),
                        Err(e) => json!(format!("err: {}", e)),
                    });
                } else if let Some(ra) = step.get("replace_all") {
                    let mut other = sos_core::commit::CommitTree::new();
                    let mut l: Vec<[u8; 32]> = ra["checkpoint_of"].as_array().unwrap().iter().map(|b| commit_of_byte(b.as_u64().unwrap()).0).collect();
                    other.append(&mut l);
                    other.commit();
                    let recs: Vec<EventRecord> = ra["records"].as_array().unwrap().iter().map(fs_record_of).collect();
                    let diff = sos_core::events::patch::Diff::<$ev> { last_commit: None, patch: Patch::new(recs), checkpoint: other.head().unwrap() };
                    results.push(match log.replace_all_events(&diff).await { Ok(_) => json!("ok"), Err(e) => json!(format!("err: {}", e)) });
                }
            }
            let after = std::fs::read(&path).unwrap();
            let memory = leaves_hex(log.tree());
            let mut fresh = $reopen;
            let reopened = match fresh.load_tree().await { Ok(_) => json!(leaves_hex(fresh.tree())), Err(e) => json!(format!("err: {}", e)) };
            json!({"outcome":"ok","results":results,"memory":memory,"reopened":reopened,
                   "file_before_last": hex::encode(before), "file_after": hex::encode(after)})
        }};
    }
    let out = if versioned {
        drive!(
            sos_filesystem::AccountEventLog::<sos_filesystem::Error>::new_account(&path, account).await.unwrap(),
            sos_filesystem::AccountEventLog::<sos_filesystem::Error>::new_account(&path, account).await.unwrap(),
            AccountEvent
        )
    } else {
        let lt = sos_core::events::EventLogType::Folder(uuid_of(7));
        drive!(
            FsLog::new_folder(&path, account, lt).await.unwrap(),
            FsLog::new_folder(&path, account, lt).await.unwrap(),
            WriteEvent
        )
    };
    let _ = std::fs::remove_file(&path);
    out
}

/// Re-open a log file with the given bytes the way a restart does (new_folder + load_tree)
async fn fslog_open(case: &Value) -> Value {
    use sos_core::events::EventLog;
    let path = tmp_path("fsopen");
    let _ = std::fs::remove_file(&path);
    if case["missing"].as_bool() != Some(true) {
        std::fs::write(&path, hexbytes(case, "bytes")).unwrap();
    }
    let lt = sos_core::events::EventLogType::Folder(uuid_of(7));
    let out = match FsLog::new_folder(&path, sos_core::AccountId::random(), lt).await {
        Ok(mut log) => match log.load_tree().await {
            Ok(_) => json!({"outcome":"ok","opened":true,"leaves":leaves_hex(log.tree())}),
            Err(e) => json!({"outcome":"ok","opened":false,"detail":e.to_string()}),
        },
        Err(e) => json!({"outcome":"ok","opened":false,"detail":e.to_string()}),
    };
    let _ = std::fs::remove_file(&path);
    out
}

fn account_of(b: u64) -> sos_core::AccountId {
    let mut a = [0u8; 20];
    a[0] = b as u8;
    a.into()
}

/// C11 part A: AccessControlConfig::is_allowed_access on concrete lists
fn access_control(case: &Value) -> Value {
    use std::collections::HashSet;
    let list = |v: &Value| -> Option<HashSet<sos_core::AccountId>> {
        v.as_array().map(|a| a.iter().map(|x| account_of(x.as_u64().unwrap())).collect())
    };
    let cfg = sos_server::AccessControlConfig { allow: list(&case["allow"]), deny: list(&case["deny"]) };
    let admitted = cfg.is_allowed_access(&account_of(case["who"].as_u64().unwrap()));
    json!({"outcome":"ok","admitted":admitted})
}


fn byte_vec(v: &Value) -> Vec<u8> {
    v.as_array().map(|a| a.iter().map(|x| x.as_u64().unwrap() as u8).collect()).unwrap_or_default()
}

/// C16: build real storage (sqlite table rows, a vault file, or an event log file) from the witness, run the
/// real integrity stream and report per row whether it was flagged and whether it really is intact (real SHA-256).
async fn integrity_case(case: &Value) -> Value {
    use futures::StreamExt;
    use sos_backend::BackendTarget;
    let kind = case["kind"].as_str().unwrap();
    let rows = case["rows"].as_array().unwrap();
    let dir = tmp_path("integrity");
    std::fs::create_dir_all(&dir).unwrap();
    let account_id = account_of(1);
    let folder_id = uuid::Uuid::from_bytes([9u8; 16]);
    let paths = sos_core::Paths::new_client(&dir).with_account_id(&account_id);
    let mut reported: Vec<bool> = Vec::new();
    let mut errors: Vec<String> = Vec::new();
    match kind {
        "vault-db" => {
            let client = sos_database::open_memory().await.unwrap();
            let fid = folder_id.to_string();
            let aid = account_id.to_string();
            let ins: Vec<(String, Vec<u8>, Vec<u8>, Vec<u8>)> = rows
                .iter()
                .enumerate()
                .map(|(i, r)| {
                    (
                        format!("00000000-0000-0000-0000-{:012}", i),
                        byte_vec(&r["commit"]),
                        byte_vec(&r["meta"]),
                        byte_vec(&r["secret"]),
                    )
                })
                .collect();
            client
                .conn(move |conn| {
                    conn.execute(
                        "INSERT INTO accounts (account_id, created_at, modified_at, identifier, name) VALUES (1, '2024-01-01T00:00:00Z', '2024-01-01T00:00:00Z', ?1, 'a')",
                        [&aid],
                    )?;
                    conn.execute(
                        "INSERT INTO folders (folder_id, account_id, created_at, modified_at, identifier, name, version, cipher, kdf, flags) VALUES (1, 1, '2024-01-01T00:00:00Z', '2024-01-01T00:00:00Z', ?1, 'f', 1, 'x_chacha20_poly1305', 'argon_2_id', x'0000000000000000')",
                        [&fid],
                    )?;
                    for (ident, commit, meta, secret) in ins {
                        conn.execute(
                            "INSERT INTO folder_secrets (folder_id, created_at, modified_at, identifier, commit_hash, meta, secret) VALUES (1, '2024-01-01T00:00:00Z', '2024-01-01T00:00:00Z', ?1, ?2, ?3, ?4)",
                            sos_database::async_sqlite::rusqlite::params![ident, commit, meta, secret],
                        )?;
                    }
                    Ok(())
                })
                .await
                .unwrap();
            let target = BackendTarget::Database(paths.clone(), client);
            let mut st = sos_integrity::vault_integrity(&target, &account_id, &folder_id);
            while let Some(item) = st.next().await {
                if let Err(e) = &item {
                    errors.push(e.to_string());
                }
                reported.push(item.is_err());
            }
        }
        "vault-fs" => {
            let path = paths.vault_path(&folder_id);
            std::fs::create_dir_all(path.parent().unwrap()).unwrap();
            let mut bytes: Vec<u8> = sos_core::constants::VAULT_IDENTITY.to_vec();
            bytes.extend_from_slice(&0u32.to_le_bytes());
            for r in rows {
                let id = byte_vec(&r["id"]);
                let commit = byte_vec(&r["commit"]);
                let content = byte_vec(&r["content"]);
                let len = (16 + 32 + 4 + content.len()) as u32;
                bytes.extend_from_slice(&len.to_le_bytes());
                bytes.extend_from_slice(&id);
                bytes.extend_from_slice(&commit);
                bytes.extend_from_slice(&(content.len() as u32).to_le_bytes());
                bytes.extend_from_slice(&content);
                bytes.extend_from_slice(&len.to_le_bytes());
            }
            std::fs::write(&path, &bytes).unwrap();
            let target = BackendTarget::FileSystem(paths.clone());
            let mut st = sos_integrity::vault_integrity(&target, &account_id, &folder_id);
            while let Some(item) = st.next().await {
                if let Err(e) = &item {
                    errors.push(e.to_string());
                }
                reported.push(item.is_err());
            }
        }
        _ => {
            use sos_core::events::EventLog;
            let path = paths.event_log_path(&folder_id);
            std::fs::create_dir_all(path.parent().unwrap()).unwrap();
            let target = BackendTarget::FileSystem(paths.clone());
            {
                let mut log = sos_backend::FolderEventLog::new_folder(target.clone(), &account_id, &folder_id).await.unwrap();
                let recs: Vec<EventRecord> = rows
                    .iter()
                    .enumerate()
                    .map(|(i, r)| {
                        let t = time::OffsetDateTime::from_unix_timestamp(1700000000 + i as i64).unwrap();
                        let mut c = [0u8; 32];
                        c.copy_from_slice(&byte_vec(&r["commit"]));
                        EventRecord::new(t.into(), CommitHash([0u8; 32]), CommitHash(c), byte_vec(&r["content"]))
                    })
                    .collect();
                log.apply_records(recs).await.unwrap();
            }
            let mut st = sos_integrity::event_integrity(&target, &account_id, &folder_id);
            while let Some(item) = st.next().await {
                if let Err(e) = &item {
                    errors.push(e.to_string());
                }
                reported.push(item.is_err());
            }
        }
    }
    let _ = std::fs::remove_dir_all(&dir);
    let out: Vec<Value> = rows
        .iter()
        .zip(reported.iter())
        .map(|(r, rep)| {
            let content = byte_vec(&r["content"]);
            let real = sos_core::commit::CommitTree::hash(&content);
            json!({"reported_failure": rep, "intact": real.to_vec() == byte_vec(&r["commit"])})
        })
        .collect();
    json!({"outcome": "ok", "rows": out, "items": reported.len(), "errors": errors})
}


/// C11 part C: a real file-system ServerStorage whose device log holds `log`, then merge_device /
/// force_merge_device with `patch`; reports the keys the server would verify against and the keys
/// trusted by replaying the device log.
async fn server_devices_case(case: &Value) -> Value {
    use sos_backend::BackendTarget;
    use sos_core::device::{DevicePublicKey, TrustedDevice};
    use sos_core::events::patch::{Diff, Patch};
    use sos_core::events::EventLog;
    use sos_server_storage::{ServerAccountStorage, ServerStorage};
    use sos_sync::{CreateSet, ForceMerge, Merge, MergeOutcome, StorageEventLogs};

    fn key_of(b: u64) -> DevicePublicKey {
        let mut k = [0x22u8; 32];
        k[0] = b as u8;
        k.into()
    }
    async fn records_of(v: &Value) -> Vec<EventRecord> {
        let mut out = Vec::new();
        for e in v.as_array().unwrap() {
            let key = key_of(e[1].as_u64().unwrap());
            let ev = if e[0].as_str().unwrap() == "trust" {
                DeviceEvent::Trust(TrustedDevice::new(key, None, None))
            } else {
                DeviceEvent::Revoke(key)
            };
            out.push(EventRecord::encode_event(&ev).await.unwrap());
        }
        out
    }
    let dir = tmp_path("server-devices");
    std::fs::create_dir_all(&dir).unwrap();
    sos_core::Paths::scaffold(&dir).await.unwrap();
    let account_id = account_of(7);
    let mut storage = ServerStorage::new(BackendTarget::FileSystem(sos_core::Paths::new_server(&dir)), &account_id)
        .await
        .unwrap();
    storage.paths().ensure().await.unwrap();
    let log_records = records_of(&case["log"]).await;
    let patch_records = records_of(&case["patch"]).await;
    let vault = Vault::default();
    let folder_record = EventRecord::encode_event(&WriteEvent::CreateVault(encode(&vault).await.unwrap())).await.unwrap();
    let mut account_data = CreateSet::default();
    account_data.device = Patch::new(log_records.clone());
    account_data.folders.insert(*vault.id(), Patch::new(vec![folder_record]));
    if let Err(e) = storage.import_account(&account_data).await {
        let _ = std::fs::remove_dir_all(&dir);
        return json!({"outcome": "setup_failed", "error": e.to_string()});
    }
    let mut outcome = MergeOutcome::default();
    let call = case["call"].as_str().unwrap();
    let result = if call == "merge" {
        let (checkpoint, last) = {
            let log = storage.device_log().await.unwrap();
            let log = log.read().await;
            (log.tree().head().unwrap_or_default(), log.tree().last_commit())
        };
        let diff = Diff::new(Patch::new(patch_records), checkpoint, last);
        storage.merge_device(diff, &mut outcome).await.map(|c| format!("{:?}", c).chars().take(40).collect::<String>())
    } else {
        let mut tree = sos_core::commit::CommitTree::new();
        for r in &patch_records {
            tree.insert(r.commit().0);
        }
        tree.commit();
        let diff = Diff::new(Patch::new(patch_records), tree.head().unwrap(), None);
        storage.force_merge_device(diff, &mut outcome).await.map(|_| "ok".to_string())
    };
    let mut listed: Vec<String> = storage.list_device_keys().iter().map(|k| k.to_string()).collect();
    listed.sort();
    let mut replay: Vec<String> = {
        let log = storage.device_log().await.unwrap();
        let log = log.read().await;
        sos_reducers::DeviceReducer::new(&*log).reduce().await.unwrap().iter().map(|d| d.public_key().to_string()).collect()
    };
    replay.sort();
    let _ = storage.delete_account().await;
    let _ = std::fs::remove_dir_all(&dir);
    json!({"outcome": "ok", "result": result.map_err(|e| e.to_string()), "listed": listed, "replay": replay,
           "agree": listed == replay})
}


/// C07 server part: `server_helpers::event_patch` (rewind + merge + rollback) on a real file-system
/// `ServerStorage` whose folder log holds CreateVault followed by the scripted records.
async fn server_event_patch_case(case: &Value) -> Value {
    use sos_backend::BackendTarget;
    use sos_core::events::patch::Patch;
    use sos_core::events::{EventLog, EventLogType};
    use sos_server_storage::{ServerAccountStorage, ServerStorage};
    use sos_sync::{CreateSet, StorageEventLogs};

    let dir = tmp_path("server-patch");
    std::fs::create_dir_all(&dir).unwrap();
    sos_core::Paths::scaffold(&dir).await.unwrap();
    let account_id = account_of(7);
    let mut storage = ServerStorage::new(BackendTarget::FileSystem(sos_core::Paths::new_server(&dir)), &account_id)
        .await
        .unwrap();
    storage.paths().ensure().await.unwrap();
    let vault = Vault::default();
    let id = *vault.id();
    let folder_record = EventRecord::encode_event(&WriteEvent::CreateVault(encode(&vault).await.unwrap())).await.unwrap();
    let prefix_leaf = folder_record.commit().0;
    let mut account_data = CreateSet::default();
    account_data.folders.insert(id, Patch::new(vec![folder_record]));
    if let Err(e) = storage.import_account(&account_data).await {
        let _ = std::fs::remove_dir_all(&dir);
        return json!({"outcome": "setup_failed", "error": e.to_string()});
    }
    let identity = case["identity"].as_bool() == Some(true);
    let init: Vec<EventRecord> = case["log"].as_array().unwrap().iter().map(fs_record_of).collect();
    {
        let log = if identity { storage.identity_log().await.unwrap() } else { storage.folder_log(&id).await.unwrap() };
        let mut log = log.write().await;
        if !init.is_empty() {
            log.apply_records(init).await.unwrap();
        }
    }
    let path = if identity { storage.paths().identity_events() } else { storage.paths().event_log_path(&id) };
    let file_before = std::fs::read(&path).unwrap_or_default();
    let before = {
        let log = if identity { storage.identity_log().await.unwrap() } else { storage.folder_log(&id).await.unwrap() };
        let log = log.read().await;
        leaves_hex(log.tree())
    };
    let mut other = sos_core::commit::CommitTree::new();
    let mut l: Vec<[u8; 32]> = if identity { vec![] } else { vec![prefix_leaf] };
    l.extend(case["proof_of"].as_array().unwrap().iter().map(|b| commit_of_byte(b.as_u64().unwrap()).0));
    other.append(&mut l);
    other.commit();
    let req = sos_protocol::PatchRequest {
        log_type: EventLogType::Folder(id),
        commit: case["rewind_to"].as_u64().map(commit_of_byte),
        proof: other.head().unwrap(),
        patch: case["patch"].as_array().unwrap().iter().map(fs_record_of).collect(),
    };
    let name_of = |cp: &sos_core::events::patch::CheckedPatch| match cp {
        sos_core::events::patch::CheckedPatch::Success(_) => "success".to_string(),
        sos_core::events::patch::CheckedPatch::Conflict { .. } => "conflict".to_string(),
    };
    let result = if case["force"].as_bool() == Some(true) {
        use sos_sync::ForceMerge;
        let mut t = sos_core::commit::CommitTree::new();
        let mut l: Vec<[u8; 32]> = case["proof_of"].as_array().unwrap().iter().map(|b| commit_of_byte(b.as_u64().unwrap()).0).collect();
        t.append(&mut l);
        t.commit();
        let diff = sos_core::events::patch::FolderDiff { last_commit: None, patch: Patch::new(req.patch), checkpoint: t.head().unwrap() };
        let mut outcome = sos_sync::MergeOutcome::default();
        match storage.force_merge_folder(&id, diff, &mut outcome).await {
            Ok(_) => "ok".to_string(),
            Err(e) => format!("err: {}", e),
        }
    } else if identity {
        use sos_sync::Merge;
        let diff = sos_core::events::patch::FolderDiff { last_commit: None, patch: Patch::new(req.patch), checkpoint: req.proof };
        let mut outcome = sos_sync::MergeOutcome::default();
        match storage.merge_identity(diff, &mut outcome).await {
            Ok(cp) => name_of(&cp),
            Err(e) => format!("err: {}", e),
        }
    } else if case["direct"].as_bool() == Some(true) {
        use sos_sync::Merge;
        let diff = sos_core::events::patch::FolderDiff { last_commit: None, patch: Patch::new(req.patch), checkpoint: req.proof };
        let mut outcome = sos_sync::MergeOutcome::default();
        match storage.merge_folder(&id, diff, &mut outcome).await {
            Ok((cp, _)) => name_of(&cp),
            Err(e) => format!("err: {}", e),
        }
    } else {
        match sos_server_storage::server_helpers::event_patch::<_, sos_server_storage::Error>(req, &mut storage).await {
            Ok((res, _)) => name_of(&res.checked_patch),
            Err(e) => format!("err: {}", e),
        }
    };
    let memory = {
        let log = if identity { storage.identity_log().await.unwrap() } else { storage.folder_log(&id).await.unwrap() };
        let log = log.read().await;
        leaves_hex(log.tree())
    };
    let file_after = std::fs::read(&path).unwrap_or_default();
    let lt = EventLogType::Folder(id);
    let reopened = match FsLog::new_folder(&path, account_id, lt).await {
        Ok(mut fresh) => match fresh.load_tree().await {
            Ok(_) => json!(leaves_hex(fresh.tree())),
            Err(e) => json!(format!("err: {}", e)),
        },
        Err(e) => json!(format!("err: {}", e)),
    };
    let _ = storage.delete_account().await;
    let _ = std::fs::remove_dir_all(&dir);
    json!({"outcome": "ok", "result": result, "before": before, "memory": memory, "reopened": reopened,
           "prefix_leaf": hex::encode(prefix_leaf),
           "file_changed": file_before != file_after})
}


/// C14 wire part: protobuf bytes -> T (decode) -> bytes (encode) -> T -> bytes through the public
/// `WireEncodeDecode`; stable iff the second decode succeeds and both encodings and Debug forms agree.
async fn wire_rt<T>(bytes: Vec<u8>) -> Value
where
    T: sos_protocol::WireEncodeDecode + std::fmt::Debug,
{
    let input = bytes.clone();
    let v1 = match T::decode(bytes::Bytes::from(bytes)).await {
        Ok(v) => v,
        Err(e) => return json!({"outcome": "err", "stage": "decode1", "detail": e.to_string()}),
    };
    let d1 = format!("{:?}", v1);
    let e1 = match v1.encode().await {
        Ok(b) => b,
        Err(e) => return json!({"outcome": "err", "stage": "encode", "detail": e.to_string()}),
    };
    let v2 = match T::decode(bytes::Bytes::from(e1.clone())).await {
        Ok(v) => v,
        Err(e) => return json!({"outcome": "err", "stage": "decode2", "detail": e.to_string(), "e1": hex::encode(&e1)}),
    };
    let d2 = format!("{:?}", v2);
    let e2 = v2.encode().await.unwrap_or_default();
    json!({"outcome": "ok", "stable": d1 == d2 && e1 == e2, "debug_equal": d1 == d2, "bytes_equal": e1 == e2,
           "reencode_equals_input": e1 == input,
           "v1": d1.chars().take(300).collect::<String>(), "v2": d2.chars().take(300).collect::<String>()})
}

async fn wire_roundtrip_case(case: &Value) -> Value {
    let bytes = hex::decode(case["bytes"].as_str().unwrap_or("")).unwrap();
    match case["ty"].as_str().unwrap() {
        "UtcDateTime" => wire_rt::<sos_core::UtcDateTime>(bytes).await,
        "CommitHash" => wire_rt::<sos_core::commit::CommitHash>(bytes).await,
        "CommitProof" => wire_rt::<sos_core::commit::CommitProof>(bytes).await,
        "CommitState" => wire_rt::<sos_core::commit::CommitState>(bytes).await,
        "Comparison" => wire_rt::<sos_core::commit::Comparison>(bytes).await,
        "EventRecord" => wire_rt::<sos_core::events::EventRecord>(bytes).await,
        "CheckedPatch" => wire_rt::<sos_core::events::patch::CheckedPatch>(bytes).await,
        "EventLogType" => wire_rt::<sos_core::events::EventLogType>(bytes).await,
        "DiffRequest" => wire_rt::<sos_protocol::DiffRequest>(bytes).await,
        "DiffResponse" => wire_rt::<sos_protocol::DiffResponse>(bytes).await,
        "PatchRequest" => wire_rt::<sos_protocol::PatchRequest>(bytes).await,
        "PatchResponse" => wire_rt::<sos_protocol::PatchResponse>(bytes).await,
        "ScanRequest" => wire_rt::<sos_protocol::ScanRequest>(bytes).await,
        "ScanResponse" => wire_rt::<sos_protocol::ScanResponse>(bytes).await,
        "ExternalFile" => wire_rt::<sos_core::ExternalFile>(bytes).await,
        "FileSet" => wire_rt::<sos_protocol::transfer::FileSet>(bytes).await,
        "FileTransfersSet" => wire_rt::<sos_protocol::transfer::FileTransfersSet>(bytes).await,
        "Origin" => wire_rt::<sos_core::Origin>(bytes).await,
        "SyncStatus" => wire_rt::<sos_sync::SyncStatus>(bytes).await,
        "CreateSet" => wire_rt::<sos_sync::CreateSet>(bytes).await,
        "UpdateSet" => wire_rt::<sos_sync::UpdateSet>(bytes).await,
        "SyncDiff" => wire_rt::<sos_sync::SyncDiff>(bytes).await,
        "SyncCompare" => wire_rt::<sos_sync::SyncCompare>(bytes).await,
        "SyncPacket" => wire_rt::<sos_sync::SyncPacket>(bytes).await,
        "MergeOutcome" => wire_rt::<sos_sync::MergeOutcome>(bytes).await,
        "TrackedChanges" => wire_rt::<sos_sync::TrackedChanges>(bytes).await,
        "TrackedAccountChange" => wire_rt::<sos_sync::TrackedAccountChange>(bytes).await,
        "TrackedDeviceChange" => wire_rt::<sos_sync::TrackedDeviceChange>(bytes).await,
        "TrackedFileChange" => wire_rt::<sos_sync::TrackedFileChange>(bytes).await,
        "TrackedFolderChange" => wire_rt::<sos_sync::TrackedFolderChange>(bytes).await,
        other => json!({"outcome": "unknown_type", "ty": other}),
    }
}


/// C06 database part: two account event logs in one in-memory sqlite database (same `account_events` table);
/// records have commit hashes 0x11.. with a chosen first byte (so identical events occur), then one operation on
/// the first log; reports the tree in memory, the tree a fresh instance loads, and the other log's tree.
async fn dblog_script(case: &Value) -> Value {
    use sos_core::events::EventLog;
    use sos_database::DatabaseEventLog;
    type Log = DatabaseEventLog<AccountEvent, sos_database::Error>;
    fn rec(c: u64, p: u64, i: i64) -> EventRecord {
        let t = time::OffsetDateTime::from_unix_timestamp(1700000000 + i).unwrap();
        let mut h = [0x11u8; 32];
        h[0] = c as u8;
        EventRecord::new(t.into(), CommitHash([0u8; 32]), CommitHash(h), vec![p as u8])
    }
    fn pairs(v: &Value) -> Vec<(u64, u64)> {
        v.as_array().map(|a| a.iter().map(|x| (x[0].as_u64().unwrap(), x[1].as_u64().unwrap())).collect()).unwrap_or_default()
    }
    let client = sos_database::open_memory().await.unwrap();
    let a1 = account_of(1);
    let a2 = account_of(2);
    let (s1, s2) = (a1.to_string(), a2.to_string());
    client
        .conn(move |conn| {
            conn.execute("INSERT INTO accounts (account_id, created_at, modified_at, identifier, name) VALUES (1, '2024-01-01T00:00:00Z', '2024-01-01T00:00:00Z', ?1, 'a')", [&s1])?;
            conn.execute("INSERT INTO accounts (account_id, created_at, modified_at, identifier, name) VALUES (2, '2024-01-01T00:00:00Z', '2024-01-01T00:00:00Z', ?1, 'b')", [&s2])?;
            Ok(())
        })
        .await
        .unwrap();
    let mut mine = Log::new_account(client.clone(), a1).await.unwrap();
    let mut other = Log::new_account(client.clone(), a2).await.unwrap();
    let m = pairs(&case["mine"]);
    let o = pairs(&case["other"]);
    // interleave as the harness does: other, mine, other, mine ...
    for i in 0..std::cmp::max(m.len(), o.len()) {
        if i < o.len() {
            other.apply_records(vec![rec(o[i].0, o[i].1, 50 + i as i64)]).await.unwrap();
        }
        if i < m.len() {
            mine.apply_records(vec![rec(m[i].0, m[i].1, i as i64)]).await.unwrap();
        }
    }
    let other_before = leaves_hex(other.tree());
    let mine_before = leaves_hex(mine.tree());
    let op = case["operation"][0].as_str().unwrap();
    let result = match op {
        "apply" => {
            let recs: Vec<EventRecord> = pairs(&case["new"]).iter().enumerate().map(|(i, (c, p))| rec(*c, *p, 100 + i as i64)).collect();
            mine.apply_records(recs).await.map(|_| ()).map_err(|e| e.to_string())
        }
        "rewind" => {
            let mut h = [0x11u8; 32];
            h[0] = case["target"].as_u64().unwrap() as u8;
            mine.rewind(&CommitHash(h)).await.map(|_| ()).map_err(|e| e.to_string())
        }
        "replace" | "patch" => {
            use sos_core::events::patch::{Diff, Patch};
            let recs: Vec<EventRecord> = pairs(&case["new"]).iter().enumerate().map(|(i, (c, p))| rec(*c, *p, 100 + i as i64)).collect();
            let mut tree = sos_core::commit::CommitTree::new();
            for q in case["proof_leaves"].as_array().unwrap() {
                let mut h = [0x11u8; 32];
                h[0] = q.as_u64().unwrap() as u8;
                tree.insert(h);
            }
            tree.commit();
            let proof = tree.head().unwrap();
            let patch: Patch<AccountEvent> = Patch::new(recs);
            if op == "replace" {
                mine.replace_all_events(&Diff::new(patch, proof, None)).await.map_err(|e| e.to_string())
            } else {
                match mine.patch_checked(&proof, &patch).await {
                    Ok(sos_core::events::patch::CheckedPatch::Success(_)) => Ok(()),
                    Ok(_) => Err("conflict".to_string()),
                    Err(e) => Err(e.to_string()),
                }
            }
        }
        _ => mine.clear().await.map_err(|e| e.to_string()),
    };
    let memory = leaves_hex(mine.tree());
    let mut fresh = Log::new_account(client.clone(), a1).await.unwrap();
    let reload = fresh.load_tree().await.map_err(|e| e.to_string());
    let disk = leaves_hex(fresh.tree());
    let mut fresh_other = Log::new_account(client.clone(), a2).await.unwrap();
    let _ = fresh_other.load_tree().await;
    let other_after = leaves_hex(fresh_other.tree());
    json!({"outcome": "ok", "result": result, "reload": reload, "memory": memory, "disk": disk,
           "other_before": other_before, "other_after": other_after, "before": mine_before,
           "tree_matches_table": memory == disk, "other_untouched": other_before == other_after})
}


/// C12 storage level: the real sos_backend::compact_folder on a real file-system folder log, then re-open
async fn compact_folder_case(case: &Value) -> Value {
    use sos_core::events::EventLog;
    use sos_reducers::FolderReducer;
    let vault = base_vault(&case["header"]);
    let mut events = vec![vault.into_event().await.unwrap()];
    for e in case["events"].as_array().unwrap() {
        events.push(write_event_of(e));
    }
    let dir = tmp_path("compactdir");
    let _ = std::fs::remove_dir_all(&dir);
    std::fs::create_dir_all(&dir).unwrap();
    let path = dir.join("folder.events");
    let account = sos_core::AccountId::random();
    let folder_id = uuid_of(9);
    let lt = sos_core::events::EventLogType::Folder(folder_id);
    type BLog = sos_filesystem::FolderEventLog<sos_backend::Error>;
    let mut fs_log = BLog::new_folder(&path, account, lt).await.unwrap();
    fs_log.apply(events.as_slice()).await.unwrap();
    let before = FolderReducer::new().reduce(&fs_log).await.unwrap().build(true).await.unwrap();
    let mut log = sos_backend::BackendEventLog::FileSystem(fs_log);
    let result = sos_backend::compact::compact_folder(&account, &folder_id, &mut log).await.map_err(|e| e.to_string());
    let memory = leaves_hex(log.tree());
    let mut fresh = FsLog::new_folder(&path, account, lt).await.unwrap();
    let reopen = fresh.load_tree().await.map_err(|e| e.to_string());
    let disk = leaves_hex(fresh.tree());
    let after = FolderReducer::new().reduce(&fresh).await.unwrap().build(true).await.unwrap();
    let a = vault_summary(&before).await;
    let b = vault_summary(&after).await;
    let mut entries: Vec<String> = std::fs::read_dir(&dir).unwrap().map(|e| e.unwrap().file_name().to_string_lossy().to_string()).collect();
    entries.sort();
    let _ = std::fs::remove_dir_all(&dir);
    json!({"outcome":"ok", "result": result, "reopen": reopen, "tree_matches_file": memory == disk, "records_after": disk.len(),
        "dir_entries": entries,
        "name_before": a["name"], "name_after": b["name"], "flags_before": a["flags"], "flags_after": b["flags"],
        "meta_before": a["meta"], "meta_after": b["meta"], "secrets_before": a["secrets"], "secrets_after": b["secrets"],
        "live": before.len()})
}

static TMP_COUNTER: std::sync::atomic::AtomicUsize = std::sync::atomic::AtomicUsize::new(0);

fn tmp_path(tag: &str) -> std::path::PathBuf {
    let dir = std::env::var("VERIF_TMP").unwrap_or_else(|_| "/verif/.work/tmp".to_string());
    let _ = std::fs::create_dir_all(&dir);
    let n = TMP_COUNTER.fetch_add(1, std::sync::atomic::Ordering::Relaxed);
    std::path::PathBuf::from(dir).join(format!("{}-{}-{}", tag, std::process::id(), n))
}

async fn format_stream<T>(case: &Value) -> Value
where
    T: sos_filesystem::formats::FileItem + Send + 'static,
{
    use sos_filesystem::formats::{FormatStream, FormatStreamIterator};
    static IDENT: [u8; 4] = [0x53, 0x4f, 0x53, 0x00];
    let bytes = hexbytes(case, "bytes");
    let reverse = case.get("reverse").and_then(|v| v.as_bool()).unwrap_or(false);
    let prefix = case.get("prefix").and_then(|v| v.as_bool()).unwrap_or(true);
    let header_offset = case.get("header_offset").and_then(|v| v.as_u64()).unwrap_or(4);
    let limit = case.get("limit").and_then(|v| v.as_u64()).unwrap_or(4) as usize;
    let path = tmp_path("fmt");
    std::fs::write(&path, &bytes).unwrap();
    let res = async {
        let file = sos_vfs::File::open(&path).await.map_err(|e| e.to_string())?;
        let mut it = FormatStream::<T, sos_vfs::File>::new_file(file, &IDENT, prefix, Some(header_offset), reverse)
            .await
            .map_err(|e| e.to_string())?;
        let mut count = 0usize;
        let mut offsets = vec![];
        let end;
        loop {
            if count >= limit {
                end = "limit";
                break;
            }
            match it.next().await {
                Ok(Some(item)) => {
                    offsets.push(json!([item.offset().start, item.offset().end, item.value().start, item.value().end]));
                    count += 1;
                }
                Ok(None) => {
                    end = "none";
                    break;
                }
                Err(_) => {
                    end = "err";
                    break;
                }
            }
        }
        Ok::<_, String>(json!({"outcome":"ok","count":count,"end":end,"offsets":offsets}))
    }
    .await;
    let _ = std::fs::remove_file(&path);
    match res {
        Ok(v) => v,
        Err(e) => json!({"outcome":"err","detail":e}),
    }
}

pub async fn run(case: &Value) -> Value {
    let op = case.get("op").and_then(|v| v.as_str()).unwrap_or("");
    match op {
        "compact" => compact_case(case).await,
        "integrity" => integrity_case(case).await,
        "compact_folder" => compact_folder_case(case).await,
        "dblog_script" => dblog_script(case).await,
        "wire_roundtrip" => wire_roundtrip_case(case).await,
        "server_devices" => server_devices_case(case).await,
        "server_event_patch" => server_event_patch_case(case).await,
        "access_control" => access_control(case),
        "fslog_script" => fslog_script(case).await,
        "fslog_open" => fslog_open(case).await,
        "search_history" => search_history(case),
        "merge_patches" => merge_patches_case(case).await,
        "vault_step" => vault_step(case).await,
        "format_stream" => {
            let ty = case.get("ty").and_then(|v| v.as_str()).unwrap_or("");
            match ty {
                "EventLogRecord" => format_stream::<sos_filesystem::formats::EventLogRecord>(case).await,
                "VaultRecord" => format_stream::<sos_filesystem::formats::VaultRecord>(case).await,
                "FileRecord" => format_stream::<sos_filesystem::formats::FileRecord>(case).await,
                _ => json!({"outcome":"unsupported"}),
            }
        }
        "roundtrip" => {
            let ty = case.get("ty").and_then(|v| v.as_str()).unwrap_or("");
            let bytes = hexbytes(case, "bytes");
            by_type!(roundtrip, ty, &bytes)
        }
        "merkle_script" => merkle_script(case),
        "compare" => {
            // compare(A, head(B)) and per-index verify_leaves of B's proofs against A's leaves
            let a = leaves_of(case, "a");
            let b = leaves_of(case, "b");
            let ta = tree_of(&a);
            let tb = tree_of(&b);
            let head = match tb.head() {
                Ok(h) => h,
                Err(e) => return json!({"outcome":"err","detail":e.to_string()}),
            };
            let cmp = match ta.compare(&head) {
                Ok(c) => comparison_json(&c),
                Err(e) => json!({"kind":"Err","detail":e.to_string()}),
            };
            let mut vl = vec![];
            for i in 0..b.len() {
                let p = tb.proof(&[i]).unwrap();
                let (okv, matched) = p.verify_leaves(&a);
                vl.push(json!({"index":i,"verified":okv,"matched":matched.len()}));
            }
            let mut single = vec![];
            for i in 0..b.len() {
                let p = tb.proof(&[i]).unwrap();
                single.push(match ta.compare(&p) {
                    Ok(c) => comparison_json(&c),
                    Err(e) => json!({"kind":"Err","detail":e.to_string()}),
                });
            }
            json!({"outcome":"ok","compare":cmp,"verify_leaves":vl,"compare_single":single})
        }
        "decode" => {
            let ty = case.get("ty").and_then(|v| v.as_str()).unwrap_or("");
            let bytes = hexbytes(case, "bytes");
            match ty {
                "EventKind" => dec::<EventKind>(&bytes).await,
                "UtcDateTime" => dec::<UtcDateTime>(&bytes).await,
                "CommitHash" => dec::<CommitHash>(&bytes).await,
                "CommitProof" => dec::<CommitProof>(&bytes).await,
                "CommitState" => dec::<CommitState>(&bytes).await,
                "Comparison" => dec::<Comparison>(&bytes).await,
                "AeadPack" => dec::<AeadPack>(&bytes).await,
                "Cipher" => dec::<Cipher>(&bytes).await,
                "KeyDerivation" => dec::<KeyDerivation>(&bytes).await,
                "VaultEntry" => dec::<VaultEntry>(&bytes).await,
                "VaultCommit" => dec::<VaultCommit>(&bytes).await,
                "WriteEvent" => dec::<WriteEvent>(&bytes).await,
                "AccountEvent" => dec::<AccountEvent>(&bytes).await,
                "DeviceEvent" => dec::<DeviceEvent>(&bytes).await,
                "FileEvent" => dec::<FileEvent>(&bytes).await,
                "EventRecord" => dec::<EventRecord>(&bytes).await,
                "VaultMeta" => dec::<VaultMeta>(&bytes).await,
                "Summary" => dec::<Summary>(&bytes).await,
                "Header" => dec::<Header>(&bytes).await,
                "SharedAccess" => dec::<SharedAccess>(&bytes).await,
                "Vault" => dec::<Vault>(&bytes).await,
                "Secret" => dec::<Secret>(&bytes).await,
                "SecretMeta" => dec::<SecretMeta>(&bytes).await,
                "SecretRow" => dec::<SecretRow>(&bytes).await,
                _ => json!({"outcome":"unsupported","detail":format!("type {}", ty)}),
            }
        }
        _ => json!({"outcome":"unsupported","detail":format!("op {}", op)}),
    }
}
