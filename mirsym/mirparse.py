"""Parser for the textual MIR that `rustc -Zunpretty=mir` prints.

Only the constructs that rustc actually emits for the repository are handled; an
unknown construct raises ParseError (the caller turns that into "inconclusive",
never into a pass).
"""
import re
import sys

sys.setrecursionlimit(20000)


class ParseError(Exception):
    pass


# --------------------------------------------------------------------------
# low level scanning helpers
# --------------------------------------------------------------------------

OPEN = "([{"
CLOSE = ")]}"


def skip_literal(s, i):
    """s[i] starts a string / byte-string / char literal: return index after it,
    else return i."""
    c = s[i]
    if c == '"':
        j = i + 1
        while j < len(s):
            if s[j] == "\\":
                j += 2
                continue
            if s[j] == '"':
                return j + 1
            j += 1
        raise ParseError("unterminated string in %r" % s[:200])
    if c == "'":
        # char literal or lifetime
        m = re.match(r"'(\\.[^']*|[^'\\])'", s[i:])
        if m:
            return i + m.end()
        return i
    return i


def split_top(s, sep=","):
    """split at top-level separators (depth over ()[]{} and <> ignoring '->')."""
    out = []
    depth = 0
    adepth = 0
    i = 0
    start = 0
    n = len(s)
    while i < n:
        c = s[i]
        if c in "\"'":
            j = skip_literal(s, i)
            if j != i:
                i = j
                continue
        if c in OPEN:
            depth += 1
        elif c in CLOSE:
            depth -= 1
        elif c == "<":
            # '<' as generic bracket: heuristically always (MIR prints comparisons as Lt(..))
            adepth += 1
        elif c == ">":
            if i > 0 and s[i - 1] in "-=":
                pass
            elif adepth > 0:
                adepth -= 1
        elif c == sep and depth == 0 and adepth == 0:
            out.append(s[start:i].strip())
            start = i + 1
        i += 1
    last = s[start:].strip()
    if last:
        out.append(last)
    return out


def match_close(s, i):
    """s[i] is an opening bracket of ([{ ; return index of its partner."""
    depth = 0
    n = len(s)
    j = i
    while j < n:
        c = s[j]
        if c in "\"'":
            k = skip_literal(s, j)
            if k != j:
                j = k
                continue
        if c in OPEN:
            depth += 1
        elif c in CLOSE:
            depth -= 1
            if depth == 0:
                return j
        j += 1
    raise ParseError("unbalanced: %r" % s[:200])


# --------------------------------------------------------------------------
# AST
# --------------------------------------------------------------------------

class Place:
    __slots__ = ("local", "proj")

    def __init__(self, local, proj):
        self.local = local
        self.proj = proj  # list of tuples

    def __repr__(self):
        return "Place(_%d%s)" % (self.local, "".join(map(str, self.proj)))


class Operand:
    __slots__ = ("kind", "place", "const")

    def __init__(self, kind, place=None, const=None):
        self.kind = kind      # 'copy' | 'move' | 'const'
        self.place = place
        self.const = const    # raw text of the constant

    def __repr__(self):
        if self.kind == "const":
            return "const %s" % self.const
        return "%s %r" % (self.kind, self.place)


class Rvalue:
    __slots__ = ("kind", "a", "b", "c", "text")

    def __init__(self, kind, a=None, b=None, c=None, text=None):
        self.kind = kind
        self.a = a
        self.b = b
        self.c = c
        self.text = text

    def __repr__(self):
        return "Rvalue(%s, %r, %r, %r)" % (self.kind, self.a, self.b, self.c)


class Stmt:
    __slots__ = ("kind", "place", "rv", "val", "text")

    def __init__(self, kind, place=None, rv=None, val=None, text=None):
        self.kind = kind   # 'assign' | 'setdiscr' | 'nop'
        self.place = place
        self.rv = rv
        self.val = val
        self.text = text


class Term:
    __slots__ = ("kind", "dest", "callee", "args", "target", "unwind", "op",
                 "targets", "otherwise", "msg", "expected", "place", "text",
                 "callee_place", "msg_args")

    def __init__(self, kind, **kw):
        self.kind = kind
        for k in self.__slots__:
            if k != "kind":
                setattr(self, k, kw.get(k))


class Block:
    __slots__ = ("stmts", "term", "cleanup")

    def __init__(self):
        self.stmts = []
        self.term = None
        self.cleanup = False


class Fn:
    def __init__(self, name, kind):
        self.name = name
        self.kind = kind      # 'fn' | 'const' | 'static' | 'promoted'
        self.nargs = 0
        self.arg_types = []
        self.ret_type = None
        self.local_types = {}
        self.blocks = {}
        self.line = 0
        self.simple_const = None   # for `const X: T = const 1_u8;`
        self.crate = None
        self.key = name

    def __repr__(self):
        return "Fn(%s)" % self.name


# --------------------------------------------------------------------------
# place / operand / rvalue parsing
# --------------------------------------------------------------------------

_re_local = re.compile(r"_(\d+)")


def parse_place(s):
    p, rest = _parse_place(s.strip())
    if rest.strip():
        raise ParseError("trailing text after place: %r in %r" % (rest, s))
    return p


def _parse_place(s):
    """returns (Place, rest)"""
    s = s.lstrip()
    if s.startswith("(*"):
        inner, rest = _parse_place(s[2:])
        rest = rest.lstrip()
        if not rest.startswith(")"):
            raise ParseError("expected ) after deref in %r" % s)
        base = Place(inner.local, inner.proj + [("deref",)])
        rest = rest[1:]
    elif s.startswith("("):
        inner, rest = _parse_place(s[1:])
        rest = rest.lstrip()
        m = re.match(r"\.(\d+): ", rest)
        if m:
            # field with type: skip to the matching ")" of the group we opened
            # find the close of the paren at position 0 of s
            close = match_close(s, 0)
            ty = s[len(s) - len(rest) + m.end():close]
            base = Place(inner.local, inner.proj + [("field", int(m.group(1)), ty)])
            rest = s[close + 1:]
        else:
            m = re.match(r"as variant#(\d+)\)", rest)
            if m:
                base = Place(inner.local, inner.proj + [("variant", int(m.group(1)))])
                rest = rest[m.end():]
            else:
                m = re.match(r"as ([A-Za-z_][A-Za-z0-9_]*)\)", rest)
                if not m:
                    raise ParseError("bad place group %r" % s)
                base = Place(inner.local, inner.proj + [("downcast", m.group(1))])
                rest = rest[m.end():]
    else:
        m = _re_local.match(s)
        if not m:
            raise ParseError("bad place %r" % s)
        base = Place(int(m.group(1)), [])
        rest = s[m.end():]
    # index suffixes
    while rest.startswith("["):
        close = match_close(rest, 0)
        idx = rest[1:close]
        m = re.fullmatch(r"_(\d+)", idx)
        if m:
            base = Place(base.local, base.proj + [("index", int(m.group(1)))])
        else:
            m = re.fullmatch(r"(-?)(\d+) of (\d+)", idx)
            if m:
                base = Place(base.local, base.proj + [
                    ("constindex", int(m.group(2)), m.group(1) == "-", int(m.group(3)))])
            else:
                m = re.fullmatch(r"(\d+):(-?)(\d+)", idx) or re.fullmatch(r"(\d+)\.\.(-?)(\d+)", idx)
                if m:
                    base = Place(base.local, base.proj + [
                        ("subslice", int(m.group(1)), int(m.group(3)), m.group(2) == "-")])
                else:
                    raise ParseError("bad index %r" % idx)
        rest = rest[close + 1:]
    return base, rest


def parse_operand(s):
    s = s.strip()
    if s.startswith("copy "):
        return Operand("copy", parse_place(s[5:]))
    if s.startswith("move "):
        return Operand("move", parse_place(s[5:]))
    if s.startswith("no_retag copy "):
        return Operand("copy", parse_place(s[14:]))
    if s.startswith("no_retag move "):
        return Operand("move", parse_place(s[14:]))
    if s.startswith("const "):
        return Operand("const", const=s[6:].strip())
    # function items and other bare constants
    return Operand("const", const=s)


BINOPS = {"Add", "Sub", "Mul", "Div", "Rem", "BitXor", "BitAnd", "BitOr", "Shl",
          "Shr", "Eq", "Lt", "Le", "Ne", "Ge", "Gt", "Cmp", "Offset",
          "AddWithOverflow", "SubWithOverflow", "MulWithOverflow",
          "AddUnchecked", "SubUnchecked", "MulUnchecked", "ShlUnchecked", "ShrUnchecked"}
UNOPS = {"Not", "Neg", "PtrMetadata"}

_re_cast = re.compile(r"^(.*) as (.*) \(([A-Za-z]+(?:\(.*\))?)\)$")


def parse_rvalue(s):
    s = s.strip()
    # cast
    if s.endswith(")") and " as " in s:
        m = _re_cast.match(s)
        if m and (m.group(1).startswith(("copy ", "move ", "const "))):
            # make sure the split at ' as ' is the top-level one
            # operand is short: find the first ' as ' outside brackets after the operand
            op_txt, ty, kind = _split_cast(s)
            return Rvalue("cast", parse_operand(op_txt), ty, kind, text=s)
    if s.startswith(("copy ", "move ", "no_retag ")):
        return Rvalue("use", parse_operand(s), text=s)
    if s.startswith("const "):
        return Rvalue("use", parse_operand(s), text=s)
    if s.startswith("&raw const "):
        return Rvalue("ref", parse_place(s[11:]), "raw", text=s)
    if s.startswith("&raw mut "):
        return Rvalue("ref", parse_place(s[9:]), "raw", text=s)
    if s.startswith("&mut "):
        return Rvalue("ref", parse_place(s[5:]), "mut", text=s)
    if s.startswith("&fake shallow "):
        return Rvalue("ref", parse_place(s[14:]), "shared", text=s)
    if s.startswith("&") and not s.startswith("&&"):
        rest = s[1:].strip()
        if re.match(r"^(\(|_\d)", rest):
            return Rvalue("ref", parse_place(rest), "shared", text=s)
    m = re.match(r"^([A-Za-z]+)\((.*)\)$", s)
    if m and m.group(1) in BINOPS:
        parts = split_top(m.group(2))
        if len(parts) == 2:
            return Rvalue("binop", m.group(1), parse_operand(parts[0]), parse_operand(parts[1]), text=s)
    if m and m.group(1) in UNOPS:
        return Rvalue("unop", m.group(1), parse_operand(m.group(2)), text=s)
    if m and m.group(1) == "discriminant":
        return Rvalue("discriminant", parse_place(m.group(2)), text=s)
    if m and m.group(1) == "Len":
        return Rvalue("len", parse_place(m.group(2)), text=s)
    if m and m.group(1) == "CopyForDeref":
        return Rvalue("use", Operand("copy", parse_place(m.group(2))), text=s)
    if m and m.group(1) in ("SizeOf", "AlignOf"):
        return Rvalue("nullop", m.group(1), m.group(2), text=s)
    if m and m.group(1) == "ShallowInitBox":
        return Rvalue("shallowbox", m.group(2), text=s)
    # array repeat / array literal
    if s.startswith("["):
        close = match_close(s, 0)
        if close == len(s) - 1:
            inner = s[1:close]
            parts = split_top(inner, ";")
            if len(parts) == 2:
                return Rvalue("repeat", parse_operand(parts[0]), parts[1].strip(), text=s)
            return Rvalue("aggregate", "array", [parse_operand(x) for x in split_top(inner)], text=s)
    # tuple
    if s.startswith("("):
        close = match_close(s, 0)
        if close == len(s) - 1:
            inner = s[1:close]
            return Rvalue("aggregate", "tuple", [parse_operand(x) for x in split_top(inner)], text=s)
    # closure / coroutine aggregate
    m = re.match(r"^\{(closure|coroutine|coroutine-closure)@([^}]*)\}(?: \{(.*)\})?$", s)
    if m:
        fields = []
        if m.group(3) is not None and m.group(3).strip():
            for f in split_top(m.group(3)):
                name, _, val = f.partition(": ")
                fields.append((name.strip(), parse_operand(val)))
        span = m.group(2)
        span = re.sub(r" \(#\d+\)$", "", span)
        return Rvalue("aggregate", m.group(1).split("-")[0], fields, span, text=s)
    # struct with named fields:  Path { a: op, b: op }
    if s.endswith("}"):
        # find the top-level " { "
        idx = _find_top(s, " {")
        if idx is not None:
            close = match_close(s, idx + 1)
            if close == len(s) - 1:
                name = s[:idx].strip()
                inner = s[idx + 2:close].strip()
                fields = []
                if inner:
                    for f in split_top(inner):
                        fname, _, val = f.partition(": ")
                        fields.append((fname.strip(), parse_operand(val)))
                return Rvalue("aggregate", "adt_named", fields, name, text=s)
    # tuple-like ADT  Path(op, op)  -- distinguished from calls because calls are terminators
    if s.endswith(")"):
        idx = _last_group_start(s)
        if idx is not None and idx > 0:
            name = s[:idx].strip()
            inner = s[idx + 1:-1]
            return Rvalue("aggregate", "adt_tuple", [parse_operand(x) for x in split_top(inner)], name, text=s)
    # unit-like ADT / variant:   Path::Variant   or   Type
    if re.match(r"^[A-Za-z_<]", s):
        return Rvalue("aggregate", "adt_tuple", [], s, text=s)
    raise ParseError("unknown rvalue %r" % s)


def _split_cast(s):
    # s = "<operand> as <ty> (<Kind>)"
    m = re.search(r" \(([A-Za-z]+(?:\([^()]*(?:\([^()]*\))?[^()]*\))?)\)$", s)
    kind = m.group(1)
    body = s[:m.start()]
    # operand is copy/move place or const literal: split at first top-level ' as '
    idx = _find_top(body, " as ")
    if idx is None:
        raise ParseError("bad cast %r" % s)
    return body[:idx], body[idx + 4:].strip(), kind


def _find_top(s, needle):
    depth = 0
    adepth = 0
    i = 0
    n = len(s)
    while i < n:
        c = s[i]
        if c in "\"'":
            j = skip_literal(s, i)
            if j != i:
                i = j
                continue
        if depth == 0 and adepth == 0 and s.startswith(needle, i):
            return i
        if c in OPEN:
            depth += 1
        elif c in CLOSE:
            depth -= 1
        elif c == "<":
            adepth += 1
        elif c == ">":
            if i > 0 and s[i - 1] in "-=":
                pass
            elif adepth > 0:
                adepth -= 1
        i += 1
    return None


def _last_group_start(s):
    """s ends with ')': index of the '(' that matches it (forward scan)."""
    depth = 0
    i = 0
    n = len(s)
    start_of = []
    last = None
    while i < n:
        c = s[i]
        if c in "\"'":
            j = skip_literal(s, i)
            if j != i:
                i = j
                continue
        if c in OPEN:
            start_of.append(i)
            depth += 1
        elif c in CLOSE:
            st = start_of.pop()
            depth -= 1
            if i == n - 1:
                last = st
        i += 1
    return last


# --------------------------------------------------------------------------
# statements and terminators
# --------------------------------------------------------------------------

_re_targets = re.compile(r" -> (\[.*\]|bb\d+|unwind .*)$")


def parse_unwind_suffix(s):
    """split 'X -> [return: bb1, unwind: bb2]' into (X, target, unwind_text)."""
    m = re.search(r" -> \[return: bb(\d+), unwind[: ]([^\]]*)\]$", s)
    if m:
        return s[:m.start()], int(m.group(1)), m.group(2).strip()
    m = re.search(r" -> \[success: bb(\d+), unwind[: ]([^\]]*)\]$", s)
    if m:
        return s[:m.start()], int(m.group(1)), m.group(2).strip()
    m = re.search(r" -> unwind ([a-z()]+|bb\d+)$", s)
    if m:
        return s[:m.start()], None, m.group(1)
    m = re.search(r" -> unwind: bb(\d+)$", s)
    if m:
        return s[:m.start()], None, "bb" + m.group(1)
    m = re.search(r" -> bb(\d+)$", s)
    if m:
        return s[:m.start()], int(m.group(1)), None
    return None


def split_assign(s):
    """split 'PLACE = RHS' at the first top-level ' = '."""
    idx = _find_top(s, " = ")
    if idx is None:
        return None
    return s[:idx], s[idx + 3:]


def parse_line(line):
    """line without trailing ';' -> Stmt or Term"""
    s = line
    if s == "return":
        return Term("return")
    if s == "unreachable":
        return Term("unreachable")
    if s in ("resume", "terminate(cleanup)", "terminate(abi)", "abort"):
        return Term("resume")
    if s.startswith("goto -> bb"):
        return Term("goto", target=int(s[10:]))
    if s.startswith("switchInt("):
        close = match_close(s, 9)
        op = parse_operand(s[10:close])
        rest = s[close + 1:]
        m = re.match(r" -> \[(.*)\]$", rest)
        targets = []
        otherwise = None
        for part in m.group(1).split(", "):
            k, _, v = part.partition(": ")
            bb = int(v[2:])
            if k == "otherwise":
                otherwise = bb
            else:
                targets.append((int(k), bb))
        return Term("switch", op=op, targets=targets, otherwise=otherwise, text=s)
    if s.startswith("drop("):
        body = parse_unwind_suffix(s)
        if body is None:
            raise ParseError("bad drop %r" % s)
        txt, target, unwind = body
        return Term("drop", place=parse_place(txt[5:-1]), target=target, unwind=unwind, text=s)
    if s.startswith("assert("):
        body = parse_unwind_suffix(s)
        txt, target, unwind = body
        inner = txt[7:-1]
        parts = split_top(inner)
        cond = parts[0]
        expected = True
        if cond.startswith("!"):
            expected = False
            cond = cond[1:]
        msg = parts[1] if len(parts) > 1 else ""
        return Term("assert", op=parse_operand(cond), expected=expected, msg=msg,
                    msg_args=[parse_operand(p) for p in parts[2:]],
                    target=target, unwind=unwind, text=s)
    if s.startswith("discriminant("):
        sp = split_assign(s)
        close = match_close(sp[0], 12)
        return Stmt("setdiscr", place=parse_place(sp[0][13:close]), val=int(sp[1]), text=s)
    if s.startswith(("StorageLive", "StorageDead", "nop", "Retag", "PlaceMention", "FakeRead",
                     "AscribeUserType", "Coverage", "ConstEvalCounter", "Deinit", "BackwardIncompatibleDropHint")):
        return Stmt("nop", text=s)
    if s.startswith("assume("):
        return Stmt("nop", text=s)
    if s.startswith("copy_nonoverlapping("):
        raise ParseError("copy_nonoverlapping")
    # call terminators / assignments
    suffix = parse_unwind_suffix(s)
    if suffix is not None:
        txt, target, unwind = suffix
        sp = split_assign(txt)
        if sp is not None and re.match(r"^(\(|_\d)", sp[0]):
            dest = parse_place(sp[0])
            call = sp[1]
        else:
            dest = None
            call = txt
        if not call.endswith(")"):
            raise ParseError("call without arg list: %r" % s)
        idx = _last_group_start(call)
        callee = call[:idx].strip()
        args = [parse_operand(a) for a in split_top(call[idx + 1:-1])]
        callee_place = None
        if callee.startswith(("move ", "copy ")):
            callee_place = parse_operand(callee)
        return Term("call", dest=dest, callee=callee, callee_place=callee_place, args=args,
                    target=target, unwind=unwind, text=s)
    sp = split_assign(s)
    if sp is None:
        raise ParseError("unknown statement %r" % s)
    return Stmt("assign", place=parse_place(sp[0]), rv=parse_rvalue(sp[1]), text=s)


# --------------------------------------------------------------------------
# whole file
# --------------------------------------------------------------------------

_re_fn_header = re.compile(r"^fn (.*) \{$")
_re_let = re.compile(r"^\s+let (?:mut )?_(\d+): (.*);$")
_re_bb = re.compile(r"^    bb(\d+)( \(cleanup\))?: \{$")


def _split_header(h):
    """h = 'NAME(args) -> RET'  ->  (name, argtext, ret)"""
    # find the '(' of the argument list: first '(' at <>-depth 0 followed by '_1: ' or ')'
    adepth = 0
    i = 0
    n = len(h)
    while i < n:
        c = h[i]
        if c == "<":
            adepth += 1
        elif c == ">" and not (i > 0 and h[i - 1] in "-="):
            if adepth > 0:
                adepth -= 1
        elif c == "(" and adepth == 0:
            if h.startswith("(_1: ", i) or h.startswith("()", i):
                close = match_close(h, i)
                name = h[:i]
                args = h[i + 1:close]
                rest = h[close + 1:].strip()
                ret = rest[3:] if rest.startswith("-> ") else "()"
                return name, args, ret
        i += 1
    raise ParseError("bad fn header %r" % h)


def parse_file(path, crate=None):
    """returns dict name -> Fn, dict allocname -> bytes"""
    fns = {}
    allocs = {}
    with open(path, "r", errors="replace") as f:
        lines = f.read().split("\n")
    i = 0
    n = len(lines)
    skip_next = False
    while i < n:
        line = lines[i]
        if line.startswith("// MIR FOR CTFE"):
            skip_next = True
            i += 1
            continue
        fn = None
        if line.startswith("fn "):
            m = _re_fn_header.match(line)
            if not m:
                raise ParseError("bad header line %d: %r" % (i + 1, line[:200]))
            name, argtext, ret = _split_header(m.group(1))
            fn = Fn(name, "fn")
            fn.ret_type = ret
            for a in split_top(argtext):
                mm = re.match(r"_(\d+): (.*)$", a)
                fn.arg_types.append(mm.group(2))
                fn.local_types[int(mm.group(1))] = mm.group(2)
            fn.nargs = len(fn.arg_types)
        elif line.startswith(("const ", "static ")):
            kind = "const"
            body = line.split(" ", 1)[1]
            if body.startswith("mut "):
                body = body[4:]
            if line.endswith(" = {"):
                idx = body.rfind(": ", 0, len(body))
                # name: TYPE = {   -- split at the first top-level ': '
                j = _find_top(body, ": ")
                name = body[:j]
                fn = Fn(name, kind)
                fn.ret_type = body[j + 2:-4]
            else:
                j = _find_top(body, ": ")
                k = _find_top(body, " = ")
                if j is not None and k is not None and body.endswith(";"):
                    name = body[:j]
                    c = Fn(name, "const")
                    c.ret_type = body[j + 2:k]
                    c.simple_const = body[k + 3:-1]
                    c.line = i + 1
                    c.crate = crate
                    if not skip_next:
                        fns.setdefault(name, c)
                    skip_next = False
                i += 1
                continue
        elif line.startswith("alloc"):
            m = re.match(r"^(alloc\d+) \(.*size: (\d+)", line)
            if m:
                size = int(m.group(2))
                data = bytearray()
                i += 1
                while i < n and lines[i].startswith("    "):
                    hexpart = lines[i].split("│")[1] if "│" in lines[i] else ""
                    for tok in hexpart.split():
                        if re.fullmatch(r"[0-9a-f]{2}", tok):
                            data.append(int(tok, 16))
                        elif tok.startswith("__") or tok.startswith("╾"):
                            data.append(0)
                    i += 1
                allocs[m.group(1)] = bytes(data[:size])
                continue
        if fn is None:
            i += 1
            continue
        fn.line = i + 1
        fn.crate = crate
        i += 1
        cur = None
        while i < n and lines[i] != "}":
            l = lines[i]
            m = _re_bb.match(l)
            if m:
                cur = Block()
                cur.cleanup = bool(m.group(2))
                fn.blocks[int(m.group(1))] = cur
                i += 1
                while i < n and lines[i] != "    }":
                    t = lines[i].strip()
                    if t:
                        # join continuation lines (rare)
                        while not t.endswith(";") and i + 1 < n and lines[i + 1] != "    }":
                            i += 1
                            t += " " + lines[i].strip()
                        if not t.endswith(";"):
                            raise ParseError("line %d: statement without ';': %r" % (i + 1, t[:200]))
                        t = t[:-1]
                        # strip trailing comments
                        try:
                            node = parse_line(t)
                        except ParseError as e:
                            node = Stmt("unparsed", text="%s (%s)" % (t, e))
                        except Exception as e:   # noqa
                            node = Stmt("unparsed", text="%s (%r)" % (t, e))
                        if isinstance(node, Term):
                            cur.term = node
                        else:
                            cur.stmts.append(node)
                    i += 1
                i += 1
                continue
            m = _re_let.match(l)
            if m:
                fn.local_types[int(m.group(1))] = m.group(2)
            i += 1
        if skip_next:
            skip_next = False
        else:
            key = fn.name
            k = 2
            while key in fns:
                key = "%s#%d" % (fn.name, k)
                k += 1
            fn.key = key
            fns[key] = fn
        i += 1
    return fns, allocs


if __name__ == "__main__":
    import time
    t = time.time()
    fns, allocs = parse_file(sys.argv[1])
    bad = 0
    nst = 0
    for f in fns.values():
        for b in f.blocks.values():
            for s in b.stmts:
                nst += 1
                if s.kind == "unparsed":
                    bad += 1
                    if bad < 30:
                        print("UNPARSED in", f.name[:60], ":", s.text[:300])
            if b.term is None and f.blocks:
                print("NO TERM", f.name)
    print(len(fns), "bodies", nst, "stmts", bad, "unparsed", len(allocs), "allocs", "%.2fs" % (time.time() - t))
