"""setup: build the nightly MIR dependencies and the native replay driver once."""
import sys
import time
from . import harness as H
sys.path.insert(0, H.VERIF)


def main():
    t = time.time()
    for c in ["sos_core", "sos_vault", "sos_filesystem", "sos_reducers", "sos_search", "sos_remote_sync", "sos_sync",
              "sos_database", "sos_integrity", "sos_server_storage", "sos_server", "sos_protocol"]:
        try:
            _, dt = H.dump_mir(c)
            print("MIR %s: %.1fs" % (c, dt), flush=True)
        except Exception as e:   # noqa
            print("MIR %s failed: %s" % (c, e), flush=True)
            return 1
    from checks.common import Replayer
    r = Replayer("dev")
    r.build()
    print("replay driver built in %.1fs" % r.build_s, flush=True)
    print("setup done in %.1fs" % (time.time() - t))
    return 0


if __name__ == "__main__":
    sys.exit(main())
