"""A small model of sqlite as the sos-database event entity uses it (rusqlite + sql_query_builder).

The real code builds its statements with sql_query_builder (`Select::new().select(..).from(..).where_clause(..)
.order_by(..)`, `Insert::new().insert_into(..).values(..)`, `Delete::new().delete_from(..).where_clause(..)`), prepares
them on a connection and executes them with positional parameters.  Here the builder calls accumulate a structured
query, the clause *texts written in the repository* are parsed (`col = ?N`, `col ASC|DESC`, column lists), and the
statement runs against tables held in the path state: rows are dicts column -> value, `event_id`-style primary keys are
assigned max+1, WHERE compares a column with a parameter through the engine's equality (so symbolic commit hashes fork),
ORDER BY sorts on concrete integer keys.  Transactions snapshot the tables; a transaction that is not committed when
the closure given to `Client::conn_mut` returns is rolled back.

Importing this module puts the models in front of the generic table."""
import re

import z3

from . import models as M
from .models import ok, err, some, none, deref, deref_cell, future, pin_box
from .engine import (Cell, Ref, Int, Agg, EnumV, VecV, Bytes, Opaque, Untranslatable, Inconclusive, deep_copy, unit,
                     int_binop)


def model(pattern):
    def deco(f):
        M.MODELS.insert(0, (re.compile(pattern), f))
        return f
    return deco


# ------------------------------------------------------------------ database state

class CrashDB(Exception):
    """the process dies at a durability point of the database (before a commit / an autocommitted statement)"""


class Db:
    def __init__(self):
        self.tables = {}       # name -> list of row dicts
        self.pk = {}           # name -> primary key column
        self.last_rowid = 0
        self.log = []
        self.durability_points = 0     # commits and autocommitted statements so far
        self.crash_at = None           # die before the durability point with this index
        self.active_tx = None

    def durability_point(self, what):
        """called right before something becomes durable"""
        if self.crash_at is not None and self.durability_points == self.crash_at:
            if self.active_tx is not None:
                self.restore(self.active_tx.snap)      # sqlite rolls an uncommitted transaction back on recovery
                self.active_tx = None
            self.log.append("CRASH before %s" % what)
            raise CrashDB(what)
        self.durability_points += 1

    def snapshot(self):
        return {t: [dict(r) for r in rows] for t, rows in self.tables.items()}

    def restore(self, snap):
        self.tables = {t: [dict(r) for r in rows] for t, rows in snap.items()}


def db_of(ctx):
    d = getattr(ctx, "db", None)
    if d is None:
        raise Untranslatable("database operation without a database in the path state")
    return d


class ConnV:
    def __init__(self):
        self.tx = None

    def clone(self):
        return self


class TxV:
    def __init__(self, conn, snap):
        self.conn = conn
        self.snap = snap
        self.committed = False

    def clone(self):
        return self


class QueryV:
    """structured statement built by sql_query_builder calls"""

    def __init__(self, kind):
        self.kind = kind            # select | insert | delete
        self.table = None
        self.columns = []           # select list / insert column list
        self.where = []             # [(column, param index)]
        self.order = None           # (column, descending)
        self.values = None          # [param index] for insert

    def clone(self):
        q = QueryV(self.kind)
        q.table, q.columns, q.where, q.order, q.values = self.table, list(self.columns), list(self.where), self.order, self.values
        q.source = getattr(self, "source", None)
        return q


class StmtV:
    def __init__(self, q):
        self.q = q

    def clone(self):
        return self


class RowV:
    def __init__(self, values):
        self.values = values

    def clone(self):
        return self


class RowsV:
    def __init__(self, rows, f):
        self.rows = rows
        self.f = f
        self.idx = 0

    def clone(self):
        return self


def text_of(engine, v):
    """concrete text of a &str / String value"""
    v = deref(v)
    if isinstance(v, FmtString):
        return v.text
    if isinstance(v, QueryV):
        return render(v)
    b = M.as_bytes(engine, v)
    if not b.len.concrete:
        raise Untranslatable("SQL text of symbolic length")
    bs = [b.byte(i) for i in range(b.len.v)]
    if not all(x.concrete for x in bs):
        raise Untranslatable("symbolic SQL text")
    return bytes(x.v for x in bs).decode("utf-8")


# ------------------------------------------------------------------ format!() with concrete pieces (only for SQL text)

class FmtArg:
    def __init__(self, v):
        self.v = v

    def clone(self):
        return self


class FmtArgs:
    def __init__(self, template, args):
        self.template = template
        self.args = args

    def clone(self):
        return self


class FmtString:
    """a String produced by format!() from concrete pieces"""

    def __init__(self, text):
        self.text = text

    def clone(self):
        return self


@model(r"(^|::)Argument::<'_>::new_display::<|(^|::)Argument::new_display::<")
def m_arg_display(engine, ctx, args, callee, frame):
    return FmtArg(args[0])


@model(r"^(std::fmt::|core::fmt::)?Arguments::<'_>::new::<\d+, \d+>$")
def m_arguments_new(engine, ctx, args, callee, frame):
    """rustc's compact template: 0xC0 = next argument ({}), n < 0x80 = literal of n bytes, 0 = end"""
    try:
        t = M.as_bytes(engine, args[0])
        raw = bytes(t.byte(i).v for i in range(t.len.v))
        arr = deref(args[1])
        fargs = [c.v for c in arr.fields]
        if all(isinstance(a, FmtArg) for a in fargs):
            return FmtArgs(raw, fargs)
    except Exception:
        pass
    return Opaque("fmt::Arguments", None)


@model(r"^(std::fmt::|alloc::fmt::)?format$")
def m_format(engine, ctx, args, callee, frame):
    a = args[0]
    if not isinstance(a, FmtArgs):
        return Opaque("String(formatted)", a.payload if isinstance(a, Opaque) else None)
    out = ""
    i = 0
    k = 0
    raw = a.template
    try:
        while i < len(raw):
            b = raw[i]
            i += 1
            if b == 0:
                break
            if b == 0xC0:
                out += text_of(engine, a.args[k].v)
                k += 1
            elif b < 0x80:
                out += raw[i:i + b].decode("utf-8")
                i += b
            else:
                return Opaque("String(formatted)", None)
    except Untranslatable:
        return Opaque("String(formatted)", None)
    return FmtString(out)


@model(r"^<(std::string::)?String as (std::ops::)?Deref>::deref$|^(std::string::)?String::as_str$")
def m_fmtstring_deref(engine, ctx, args, callee, frame):
    v = deref(args[0])
    if isinstance(v, FmtString):
        return Ref(Cell(v))
    return Ref(deref_cell(args[0]))


# ------------------------------------------------------------------ sql_query_builder

_OPS = ("<>", "!=", ">=", "<=", "=", ">", "<")


def split_and(text):
    """split on top-level AND"""
    parts, depth, cur = [], 0, ""
    toks = re.split(r"(\(|\)|\s+AND\s+)", text, flags=re.I)
    for t in toks:
        if t == "(":
            depth += 1
        elif t == ")":
            depth -= 1
        if depth == 0 and re.fullmatch(r"\s+AND\s+", t or "", flags=re.I):
            parts.append(cur)
            cur = ""
        else:
            cur += t or ""
    parts.append(cur)
    return [p.strip() for p in parts if p.strip()]


def parse_select(text):
    """SELECT cols [FROM t] [WHERE conds] [ORDER BY col dir]  ->  QueryV"""
    m = re.fullmatch(r"SELECT\s+(.*?)(?:\s+FROM\s+(\w+))?(?:\s+WHERE\s+(.*?))?(?:\s+ORDER\s+BY\s+(\w+)(?:\s+(ASC|DESC))?)?\s*;?", text.strip(), flags=re.I | re.S)
    if not m:
        raise Untranslatable("SELECT statement %r" % text)
    q = QueryV("select")
    q.columns = [c.strip() for c in m.group(1).split(",")]
    q.table = m.group(2)
    if m.group(3):
        q.where = parse_conditions(m.group(3))
    if m.group(4):
        q.order = (m.group(4), (m.group(5) or "ASC").upper() == "DESC")
    return q


def parse_conditions(text):
    out = []
    for part in split_and(" ".join(text.split())):
        m = re.fullmatch(r"(NOT\s+)?EXISTS\s*\((.*)\)", part, flags=re.I | re.S)
        if m:
            out.append(("exists", bool(m.group(1)), parse_select(m.group(2))))
            continue
        m = re.fullmatch(r"(\w+)\s*(<>|!=|>=|<=|=|>|<)\s*\?(\d+)", part)
        if m:
            out.append(("cmp", m.group(1), m.group(2), ("param", int(m.group(3)))))
            continue
        m = re.fullmatch(r"(\w+)\s*(<>|!=|>=|<=|=|>|<)\s*\(\s*SELECT\s+(MAX|MIN)\((\w+)\)\s+FROM\s+(\w+)(?:\s+WHERE\s+(.*))?\)", part, flags=re.I | re.S)
        if m:
            sub = QueryV("select")
            sub.table = m.group(5)
            sub.where = parse_conditions(m.group(6)) if m.group(6) else []
            out.append(("cmp", m.group(1), m.group(2), ("agg", m.group(3).upper(), m.group(4), sub)))
            continue
        raise Untranslatable("WHERE clause %r" % text)
    return out


def render(q):
    """SQL text of a structured query (for statements that embed another statement's text)"""
    def conds(ws):
        out = []
        for w in ws:
            if w[0] == "exists":
                out.append("%sEXISTS (%s)" % ("NOT " if w[1] else "", render(w[2])))
            elif w[3][0] == "param":
                out.append("%s %s ?%d" % (w[1], w[2], w[3][1]))
            else:
                sub = w[3][3]
                out.append("%s %s (SELECT %s(%s) FROM %s%s)" % (w[1], w[2], w[3][1], w[3][2], sub.table,
                                                                 (" WHERE " + conds(sub.where)) if sub.where else ""))
        return " AND ".join(out)
    if q.kind == "select":
        t = "SELECT " + ", ".join(q.columns)
        if q.table:
            t += " FROM " + q.table
        if q.where:
            t += " WHERE " + conds(q.where)
        if q.order:
            t += " ORDER BY %s %s" % (q.order[0], "DESC" if q.order[1] else "ASC")
        return t
    raise Untranslatable("text of a %s statement" % q.kind)


_KIND = {"Select": "select", "Insert": "insert", "Delete": "delete"}


@model(r"^sql_query_builder::\w+::\w+::<impl (sql_query_builder::)?(Select|Insert|Delete)>::new$")
def m_q_new(engine, ctx, args, callee, frame):
    return QueryV(_KIND[re.search(r"impl (?:sql_query_builder::)?(\w+)>", callee).group(1)])


@model(r"^sql_query_builder::\w+::\w+::<impl (sql_query_builder::)?(Select|Insert|Delete)>::(select|from|where_clause|order_by|insert_into|values|delete_from)$")
def m_q_clause(engine, ctx, args, callee, frame):
    q = deref(args[0]).clone()
    name = callee.split("::")[-1]
    text = " ".join(text_of(engine, args[1]).split())
    if name == "select":
        q.columns += [c.strip() for c in text.split(",") if c.strip()]
    elif name in ("from", "delete_from"):
        q.table = text
    elif name == "insert_into":
        m = re.fullmatch(r"(\w+)\s*\(([^)]*)\)", text)
        if not m:
            raise Untranslatable("INSERT INTO clause %r" % text)
        q.table = m.group(1)
        q.columns = [c.strip() for c in m.group(2).split(",")]
    elif name == "values":
        m = re.fullmatch(r"\(([^)]*)\)", text)
        ps = [p.strip() for p in m.group(1).split(",")] if m else None
        if not ps or not all(re.fullmatch(r"\?\d+", p) for p in ps):
            raise Untranslatable("VALUES clause %r" % text)
        q.values = [int(p[1:]) for p in ps]
    elif name == "where_clause":
        q.where.extend(parse_conditions(text))
    elif name == "order_by":
        m = re.fullmatch(r"(\w+)(?:\s+(ASC|DESC))?", text, flags=re.I)
        if not m:
            raise Untranslatable("ORDER BY clause %r" % text)
        q.order = (m.group(1), (m.group(2) or "ASC").upper() == "DESC")
    return q


@model(r"^sql_query_builder::\w+::\w+::<impl (sql_query_builder::)?Insert>::select$")
def m_q_insert_select(engine, ctx, args, callee, frame):
    q = deref(args[0]).clone()
    q.source = deref(args[1])
    return q


@model(r"^sql_query_builder::\w+::\w+::<impl (sql_query_builder::)?(Select|Insert|Delete)>::as_string$")
def m_q_as_string(engine, ctx, args, callee, frame):
    return deref(args[0])


# ------------------------------------------------------------------ rusqlite

@model(r"Connection>::prepare_cached$|^rusqlite::\w+::<impl Connection>::prepare(_cached)?$|^Connection::prepare(_cached)?$")
def m_prepare(engine, ctx, args, callee, frame):
    q = deref(args[1])
    if not isinstance(q, QueryV):
        raise Untranslatable("prepare of a statement that was not built with sql_query_builder")
    return ok(StmtV(q))


@model(r"^<CachedStatement<.*> as (std::ops::)?Deref(Mut)?>::deref(_mut)?$")
def m_stmt_deref(engine, ctx, args, callee, frame):
    return args[0]


def params_of(engine, p):
    """positional parameters: array / tuple / slice of values (references are followed)"""
    p = deref(p)
    if isinstance(p, Agg):
        return [deref(c.v) for c in p.fields]
    if isinstance(p, VecV):
        return [deref(c.v) for c in p.items]
    raise Untranslatable("statement parameters of type %s" % type(p).__name__)


def same(engine, ctx, a, b):
    """row value == parameter (forks on symbolic data)"""
    a, b = deref(a), deref(b)
    if isinstance(a, Int) and isinstance(b, Int):
        if a.bits != b.bits:
            b = Int(b.v, a.bits, a.signed)
        return ctx.branch(int_binop("Eq", a, b))
    try:
        return ctx.branch(M.eq_formula(engine, M.as_bytes(engine, a), M.as_bytes(engine, b)))
    except Untranslatable:
        return ctx.branch(M.eq_formula(engine, a, b))


def compare(engine, ctx, a, op, b):
    a, b = deref(a), deref(b)
    if op in ("=", "<>", "!="):
        e = same(engine, ctx, a, b)
        return e if op == "=" else not e
    if not (isinstance(a, Int) and isinstance(b, Int)):
        raise Untranslatable("ordering comparison of non-integer columns")
    if a.bits != b.bits:
        b = Int(b.v, a.bits, a.signed)
    name = {">": "Gt", ">=": "Ge", "<": "Lt", "<=": "Le"}[op]
    return ctx.branch(int_binop(name, Int(a.v, a.bits, True), Int(b.v, b.bits, True)))


def row_matches(engine, ctx, r, where, params):
    for w in where:
        if w[0] == "exists":
            found = bool(select_rows(engine, ctx, w[2], params))
            if found == w[1]:
                return False
            continue
        _, col, op, rhs = w
        if rhs[0] == "param":
            val = params[rhs[1] - 1]
        else:
            _, agg, acol, sub = rhs
            cand = [x for x in db_of(ctx).tables.get(sub.table, []) if row_matches(engine, ctx, x, sub.where, params)]
            if not cand:
                return False              # comparison with NULL
            keys = [x[acol] for x in cand]
            if not all(isinstance(k, Int) and k.concrete for k in keys):
                raise Untranslatable("aggregate over a symbolic column")
            val = Int((max if agg == "MAX" else min)(k.v for k in keys), 64, True)
        if not compare(engine, ctx, r[col], op, val):
            return False
    return True


def select_rows(engine, ctx, q, params):
    db = db_of(ctx)
    if q.table is None:
        # SELECT <expressions> [WHERE ..] without FROM: one row when the condition holds
        return [{}] if row_matches(engine, ctx, {}, q.where, params) else []
    rows = db.tables.setdefault(q.table, [])
    out = []
    for r in rows:
        if row_matches(engine, ctx, r, q.where, params):
            out.append(r)
    if q.order is not None:
        col, desc = q.order
        keys = [r[col] for r in out]
        if not all(isinstance(k, Int) and k.concrete for k in keys):
            raise Untranslatable("ORDER BY on a symbolic column")
        out = sorted(out, key=lambda r: r[col].v, reverse=desc)
    return out


def run_statement(engine, ctx, stmt, params):
    """INSERT / DELETE: -> rows changed"""
    q = deref(stmt).q
    db = db_of(ctx)
    rows = db.tables.setdefault(q.table, [])
    if db.active_tx is None:
        db.durability_point("autocommitted %s" % q.kind)
    if q.kind == "insert":
        pk = db.pk.get(q.table)
        row = {}
        values = q.values
        if values is None and getattr(q, "source", None) is not None:
            # INSERT INTO t (cols) SELECT ?a, ?b, .. [WHERE cond]
            src = q.source
            if src.table is not None or not all(re.fullmatch(r"\?\d+", c) for c in src.columns):
                raise Untranslatable("INSERT .. SELECT from a table")
            if not select_rows(engine, ctx, src, params):
                db.log.append("insert into %s skipped by its condition" % q.table)
                return 0
            values = [int(c[1:]) for c in src.columns]
        for col, i in zip(q.columns, values):
            row[col] = deep_copy(params[i - 1])
        if pk and pk not in row:
            mx = max([r[pk].v for r in rows], default=0)
            row[pk] = Int(mx + 1, 64, True)
            db.last_rowid = mx + 1
        rows.append(row)
        db.log.append("insert into %s" % q.table)
        return 1
    if q.kind == "delete":
        keep, n = [], 0
        hit = [row_matches(engine, ctx, r, q.where, params) for r in rows]      # evaluated on the state before
        for r, h in zip(rows, hit):
            if h:
                n += 1
            else:
                keep.append(r)
        db.tables[q.table] = keep
        db.log.append("delete %d from %s" % (n, q.table))
        return n
    raise Untranslatable("execute of a %s statement" % q.kind)


@model(r"^Statement::<'_>::execute::<|^rusqlite::\w+::<impl Statement<'_>>::execute::<|^Statement::<.*>::execute::<")
def m_execute(engine, ctx, args, callee, frame):
    n = run_statement(engine, ctx, args[0], params_of(engine, args[1]))
    return ok(Int(n, 64, False))


@model(r"^Statement::<.*>::query_and_then::<")
def m_query_and_then(engine, ctx, args, callee, frame):
    q = deref(args[0]).q
    rows = select_rows(engine, ctx, q, params_of(engine, args[1]))
    return ok(RowsV([RowV([r[c] for c in q.columns]) for r in rows], args[2]))


@model(r"^<AndThenRows<.*> as IntoIterator>::into_iter$")
def m_rows_iter(engine, ctx, args, callee, frame):
    return args[0]


@model(r"^<AndThenRows<.*> as (std::iter::)?Iterator>::next$")
def m_rows_next(engine, ctx, args, callee, frame):
    rows = deref(args[0])
    if rows.idx >= len(rows.rows):
        return none()
    r = rows.rows[rows.idx]
    rows.idx += 1
    return some(engine.call_closure(rows.f, [Ref(Cell(r))]))


@model(r"^Statement::<.*>::query_row::<")
def m_query_row(engine, ctx, args, callee, frame):
    q = deref(args[0]).q
    rows = select_rows(engine, ctx, q, params_of(engine, args[1]))
    if not rows:
        return err(Opaque("rusqlite::Error", "QueryReturnedNoRows"))
    return engine.call_closure(args[2], [Ref(Cell(RowV([rows[0][c] for c in q.columns])))])


@model(r"^Row::<'_>::get::<usize, (.*)>$|^rusqlite::Row::<'_>::get::<usize, (.*)>$")
def m_row_get(engine, ctx, args, callee, frame):
    r = deref(args[0])
    i = args[1]
    if not i.concrete or i.v >= len(r.values):
        return err(Opaque("rusqlite::Error", "InvalidColumnIndex"))
    return ok(deep_copy(r.values[i.v]))


@model(r"Connection::last_insert_rowid$|Connection>::last_insert_rowid$")
def m_last_rowid(engine, ctx, args, callee, frame):
    return Int(db_of(ctx).last_rowid, 64, True)


@model(r"Connection::transaction$|Connection>::transaction$")
def m_transaction(engine, ctx, args, callee, frame):
    conn = deref(args[0])
    tx = TxV(conn, db_of(ctx).snapshot())
    conn.tx = tx
    db_of(ctx).active_tx = tx
    return ok(tx)


@model(r"^<&?(async_sqlite::)?(rusqlite::)?Transaction<'_> as (std::ops::)?Deref>::deref$")
def m_tx_deref(engine, ctx, args, callee, frame):
    return Ref(Cell(deref(args[0]).conn))


@model(r"^<&(mut )?(async_sqlite::)?(rusqlite::)?Connection as (std::ops::)?Deref>::deref$|^<Box<(async_sqlite::)?(rusqlite::)?Connection> as (std::ops::)?Deref>::deref$")
def m_conn_deref(engine, ctx, args, callee, frame):
    return Ref(Cell(deref(args[0])))


@model(r"Transaction::<'_>::commit$|Transaction<'_>>::commit$")
def m_tx_commit(engine, ctx, args, callee, frame):
    tx = deref(args[0])
    db_of(ctx).durability_point("commit")
    tx.committed = True
    db_of(ctx).active_tx = None
    return ok(unit())


def run_with_conn(engine, ctx, clo):
    conn = ConnV()
    r = engine.call_closure(clo, [Ref(Cell(conn))])
    if conn.tx is not None and not conn.tx.committed:
        db_of(ctx).restore(conn.tx.snap)          # dropped without commit: rollback
        db_of(ctx).log.append("rollback")
        db_of(ctx).active_tx = None
    return r


@model(r"Client::(conn_mut|conn|conn_and_then|conn_mut_and_then)::<")
def m_client_conn(engine, ctx, args, callee, frame):
    clo = args[1]
    return future(callee, lambda: run_with_conn(engine, ctx, clo))


@model(r"^<(async_sqlite::)?Client as Clone>::clone$")
def m_client_clone(engine, ctx, args, callee, frame):
    return deref(args[0])
