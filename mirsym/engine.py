"""mirsym: a small symbolic executor for rustc MIR, deciding branch feasibility and
assertions with z3.

Execution model: *stateless path exploration*.  One path = one run of the entry
thunk under a decision prefix; every symbolic branch consults `Ctx.branch`, which
follows the prefix and, at the frontier, asks the solver which sides are feasible
and schedules the alternative.  Because nothing is cloned, library models can be
written in direct style and may call back into MIR bodies (closures).
"""
import os as _os
import re
import time
import z3

from .mirparse import (Fn, Place, Operand, Rvalue, Stmt, Term, parse_file, split_top,
                       ParseError)
from . import decl

PTR_BITS = 64


# --------------------------------------------------------------------------
# exceptions that end a path
# --------------------------------------------------------------------------

CONST_MODELS = []      # (compiled regex on the constant's path, fn(engine) -> value)


class PathEnd(Exception):
    pass


class Panic(PathEnd):
    def __init__(self, msg, site=None, kind="panic"):
        PathEnd.__init__(self, msg)
        self.msg = msg
        self.site = site
        self.kind = kind


class Untranslatable(PathEnd):
    def __init__(self, what, site=None):
        PathEnd.__init__(self, what)
        self.what = what
        self.site = site


class BoundHit(PathEnd):
    def __init__(self, what, site=None):
        PathEnd.__init__(self, what)
        self.what = what
        self.site = site


class Infeasible(PathEnd):
    pass


class Inconclusive(Exception):
    pass


# --------------------------------------------------------------------------
# values
# --------------------------------------------------------------------------

class Cell:
    __slots__ = ("v",)

    def __init__(self, v=None):
        self.v = v

    def __repr__(self):
        return "Cell(%r)" % (self.v,)


def mask(bits):
    return (1 << bits) - 1


def norm(v, bits, signed):
    v &= mask(bits)
    if signed and v >> (bits - 1):
        v -= 1 << bits
    return v


class Int:
    __slots__ = ("v", "bits", "signed")

    def __init__(self, v, bits, signed=False):
        if isinstance(v, int):
            v = norm(v, bits, signed)
        self.v = v
        self.bits = bits
        self.signed = signed

    @property
    def concrete(self):
        return isinstance(self.v, int)

    def z3(self):
        if isinstance(self.v, int):
            return z3.BitVecVal(self.v & mask(self.bits), self.bits)
        return self.v

    def __repr__(self):
        t = ("i" if self.signed else "u") + str(self.bits)
        if isinstance(self.v, int):
            return "%d_%s" % (self.v, t)
        s = str(self.v)
        return "<%s:%s>" % (t, s if len(s) < 60 else s[:57] + "...")


def simp_int(e, bits, signed):
    """z3 expr -> Int, concretising when the simplifier folds it"""
    e = z3.simplify(e)
    if z3.is_bv_value(e):
        return Int(e.as_long(), bits, signed)
    return Int(e, bits, signed)


def to_bool(b):
    """python bool | z3 Bool -> simplified"""
    if isinstance(b, bool):
        return b
    b = z3.simplify(b)
    if z3.is_true(b):
        return True
    if z3.is_false(b):
        return False
    return b


def b_not(a):
    if isinstance(a, bool):
        return not a
    return to_bool(z3.Not(a))


def b_and(a, b):
    if a is True:
        return b
    if b is True:
        return a
    if a is False or b is False:
        return False
    return to_bool(z3.And(a, b))


def b_or(a, b):
    if a is False:
        return b
    if b is False:
        return a
    if a is True or b is True:
        return True
    return to_bool(z3.Or(a, b))


def bz3(b):
    if isinstance(b, bool):
        return z3.BoolVal(b)
    return b


class Agg:
    """tuple / struct / array / closure environment: ordered cells"""
    __slots__ = ("kind", "ty", "fields")

    def __init__(self, kind, ty, fields):
        self.kind = kind
        self.ty = ty
        self.fields = fields   # list of Cell

    def __repr__(self):
        return "%s%r" % (self.ty or self.kind, [c.v for c in self.fields])


class EnumV:
    __slots__ = ("ty", "variant", "discr", "fields")

    def __init__(self, ty, variant, discr, fields):
        self.ty = ty
        self.variant = variant    # name
        self.discr = discr        # int or None when unknown
        self.fields = fields

    def __repr__(self):
        return "%s::%s%r" % (self.ty, self.variant, [c.v for c in self.fields])


class Ref:
    __slots__ = ("cell", "window")

    def __init__(self, cell, window=None):
        self.cell = cell
        self.window = window   # (start Int, len Int) for sub-slices

    def __repr__(self):
        return "&%r" % (self.cell.v,)


class Bytes:
    """immutable byte string view: arr[off .. off+len)"""
    __slots__ = ("arr", "off", "len", "utf8")

    def __init__(self, arr, off, length, utf8=False):
        self.arr = arr
        self.off = off       # Int 64
        self.len = length    # Int 64
        self.utf8 = utf8

    def byte(self, i):
        """i: Int or python int -> Int(8)"""
        if isinstance(i, int):
            i = Int(i, 64)
        idx = int_binop("Add", self.off, i)
        return simp_int(z3.Select(self.arr, idx.z3()), 8, False)

    def __repr__(self):
        if self.len.concrete and self.len.v <= 40 and self.off.concrete:
            bs = [self.byte(i) for i in range(self.len.v)]
            if all(b.concrete for b in bs):
                return "b%r" % bytes(b.v for b in bs)
        return "Bytes(len=%r)" % (self.len,)


_ARR_SORT = None


def arr_sort():
    return z3.ArraySort(z3.BitVecSort(64), z3.BitVecSort(8))


def bytes_from_concrete(data, utf8=False):
    arr = z3.K(z3.BitVecSort(64), z3.BitVecVal(0, 8))
    for i, b in enumerate(data):
        arr = z3.Store(arr, z3.BitVecVal(i, 64), z3.BitVecVal(b, 8))
    return Bytes(arr, Int(0, 64), Int(len(data), 64), utf8)


def bytes_from_ints(items, utf8=False):
    """items: list of Int(8)"""
    arr = z3.K(z3.BitVecSort(64), z3.BitVecVal(0, 8))
    for i, b in enumerate(items):
        arr = z3.Store(arr, z3.BitVecVal(i, 64), b.z3())
    return Bytes(arr, Int(0, 64), Int(len(items), 64), utf8)


class VecV:
    """Vec<T> / VecDeque / slice storage: python list of cells (concrete length)"""
    __slots__ = ("ty", "items")

    def __init__(self, ty, items):
        self.ty = ty
        self.items = items

    def __repr__(self):
        return "Vec%r" % ([c.v for c in self.items],)


class Opaque:
    __slots__ = ("name", "payload")

    def __init__(self, name, payload=None):
        self.name = name
        self.payload = payload

    def __repr__(self):
        return "Opaque(%s)" % self.name


class FnItem:
    __slots__ = ("name",)

    def __init__(self, name):
        self.name = name

    def __repr__(self):
        return "FnItem(%s)" % self.name


class Closure:
    __slots__ = ("fn", "upvars", "span", "generics")

    def __init__(self, fn, upvars, span, generics=None):
        self.fn = fn
        self.upvars = upvars
        self.span = span
        self.generics = generics

    def __repr__(self):
        return "Closure(%s)" % (self.fn.name if self.fn else self.span)


class Coroutine:
    __slots__ = ("fn", "upvars", "state", "saved", "span", "generics")

    def __init__(self, fn, upvars, span, generics=None):
        self.fn = fn
        self.upvars = upvars
        self.state = 0
        self.saved = {}
        self.span = span
        self.generics = generics

    def __repr__(self):
        return "Coroutine(%s)" % (self.fn.name if self.fn else self.span)


class ModelFuture:
    """a leaf future: running it yields the Output value"""
    __slots__ = ("thunk", "name", "done")

    def __init__(self, name, thunk):
        self.name = name
        self.thunk = thunk
        self.done = False

    def __repr__(self):
        return "Future(%s)" % self.name


class VariantView:
    """transient: coroutine + variant index selected by a `as variant#k` projection"""
    __slots__ = ("co", "k")

    def __init__(self, co, k):
        self.co = co
        self.k = k


UNIT = None  # filled below


def unit():
    return Agg("tuple", "()", [])


def deep_copy(v):
    if v is None or isinstance(v, (Int, bool, Bytes, Opaque, FnItem, str, int)) or z3.is_expr(v):
        return v
    if isinstance(v, Ref):
        return v
    if isinstance(v, Agg):
        return Agg(v.kind, v.ty, [Cell(deep_copy(c.v)) for c in v.fields])
    if isinstance(v, EnumV):
        return EnumV(v.ty, v.variant, v.discr, [Cell(deep_copy(c.v)) for c in v.fields])
    if isinstance(v, VecV):
        return VecV(v.ty, [Cell(deep_copy(c.v)) for c in v.items])
    if isinstance(v, Closure):
        return Closure(v.fn, [Cell(deep_copy(c.v)) for c in v.upvars], v.span, v.generics)
    if hasattr(v, "clone"):
        return v.clone()
    return v


# --------------------------------------------------------------------------
# types
# --------------------------------------------------------------------------

_INT_TYPES = {
    "u8": (8, False), "u16": (16, False), "u32": (32, False), "u64": (64, False),
    "u128": (128, False), "usize": (PTR_BITS, False),
    "i8": (8, True), "i16": (16, True), "i32": (32, True), "i64": (64, True),
    "i128": (128, True), "isize": (PTR_BITS, True),
    "char": (32, False),
}


def int_type(ty):
    return _INT_TYPES.get(ty.strip())


def strip_generics(path):
    """remove ::<...> groups and <...> generic args from a path"""
    out = []
    depth = 0
    i = 0
    n = len(path)
    while i < n:
        c = path[i]
        if c == "<":
            depth += 1
        elif c == ">" and not (i > 0 and path[i - 1] in "-="):
            depth -= 1
        elif depth == 0:
            out.append(c)
        i += 1
    s = "".join(out)
    s = s.replace("::::", "::")
    while s.endswith("::"):
        s = s[:-2]
    return s


def last_ident(ty):
    """last path identifier of a type, ignoring refs and generics"""
    t = ty.strip()
    t = re.sub(r"^(&(?:'[a-z_]+ )?(?:mut )?)+", "", t)
    if t.startswith("(") and t.endswith(")") and len(t) > 2:
        # tuple type: normalise every component, so `(a::X, Vec<u8>)` and `(X, Vec<u8>)` agree
        from .mirparse import split_top
        return "(" + ", ".join(last_ident(p) for p in split_top(t[1:-1]) if p.strip()) + ")"
    t = strip_generics(t)
    t = t.split("::")[-1]
    return t.strip()


# --------------------------------------------------------------------------
# integer operations
# --------------------------------------------------------------------------

def int_binop(op, a, b):
    """a, b: Int.  returns Int or bool/z3 Bool for comparisons"""
    bits, signed = a.bits, a.signed
    if op in ("Shl", "Shr", "ShlUnchecked", "ShrUnchecked"):
        if a.concrete and b.concrete:
            sh = b.v % bits
            if op.startswith("Shl"):
                return Int(a.v << sh, bits, signed)
            return Int(a.v >> sh, bits, signed)
        bz = b.z3()
        if b.bits < bits:
            bz = z3.ZeroExt(bits - b.bits, bz)
        elif b.bits > bits:
            bz = z3.Extract(bits - 1, 0, bz)
        bz = z3.URem(bz, z3.BitVecVal(bits, bits))
        if op.startswith("Shl"):
            return simp_int(a.z3() << bz, bits, signed)
        if signed:
            return simp_int(a.z3() >> bz, bits, signed)
        return simp_int(z3.LShR(a.z3(), bz), bits, signed)
    if a.bits != b.bits:
        raise Untranslatable("width mismatch in %s: %r %r" % (op, a, b))
    if a.concrete and b.concrete:
        x, y = a.v, b.v
        if op in ("Add", "AddUnchecked"):
            return Int(x + y, bits, signed)
        if op in ("Sub", "SubUnchecked"):
            return Int(x - y, bits, signed)
        if op in ("Mul", "MulUnchecked"):
            return Int(x * y, bits, signed)
        if op == "Div":
            if y == 0:
                raise Panic("division by zero")
            q = abs(x) // abs(y)
            if (x < 0) != (y < 0):
                q = -q
            return Int(q, bits, signed)
        if op == "Rem":
            if y == 0:
                raise Panic("remainder by zero")
            r = abs(x) % abs(y)
            if x < 0:
                r = -r
            return Int(r, bits, signed)
        if op == "BitAnd":
            return Int((x & mask(bits)) & (y & mask(bits)), bits, signed)
        if op == "BitOr":
            return Int((x & mask(bits)) | (y & mask(bits)), bits, signed)
        if op == "BitXor":
            return Int((x & mask(bits)) ^ (y & mask(bits)), bits, signed)
        if op == "Eq":
            return x == y
        if op == "Ne":
            return x != y
        if op == "Lt":
            return x < y
        if op == "Le":
            return x <= y
        if op == "Gt":
            return x > y
        if op == "Ge":
            return x >= y
        raise Untranslatable("binop %s" % op)
    x, y = a.z3(), b.z3()
    if op in ("Add", "AddUnchecked"):
        return simp_int(x + y, bits, signed)
    if op in ("Sub", "SubUnchecked"):
        return simp_int(x - y, bits, signed)
    if op in ("Mul", "MulUnchecked"):
        return simp_int(x * y, bits, signed)
    if op == "Div":
        return simp_int((x / y) if signed else z3.UDiv(x, y), bits, signed)
    if op == "Rem":
        return simp_int(z3.SRem(x, y) if signed else z3.URem(x, y), bits, signed)
    if op == "BitAnd":
        return simp_int(x & y, bits, signed)
    if op == "BitOr":
        return simp_int(x | y, bits, signed)
    if op == "BitXor":
        return simp_int(x ^ y, bits, signed)
    if op == "Eq":
        return to_bool(x == y)
    if op == "Ne":
        return to_bool(x != y)
    if signed:
        if op == "Lt":
            return to_bool(x < y)
        if op == "Le":
            return to_bool(x <= y)
        if op == "Gt":
            return to_bool(x > y)
        if op == "Ge":
            return to_bool(x >= y)
    else:
        if op == "Lt":
            return to_bool(z3.ULT(x, y))
        if op == "Le":
            return to_bool(z3.ULE(x, y))
        if op == "Gt":
            return to_bool(z3.UGT(x, y))
        if op == "Ge":
            return to_bool(z3.UGE(x, y))
    raise Untranslatable("binop %s" % op)


def overflow_flag(op, a, b):
    bits, signed = a.bits, a.signed
    if a.concrete and b.concrete:
        x, y = a.v, b.v
        r = {"Add": x + y, "Sub": x - y, "Mul": x * y}[op]
        return norm(r, bits, signed) != r
    x, y = a.z3(), b.z3()
    if op == "Add":
        if signed:
            return to_bool(z3.Or(z3.Not(z3.BVAddNoOverflow(x, y, True)), z3.Not(z3.BVAddNoUnderflow(x, y))))
        return to_bool(z3.Not(z3.BVAddNoOverflow(x, y, False)))
    if op == "Sub":
        if signed:
            return to_bool(z3.Or(z3.Not(z3.BVSubNoOverflow(x, y)), z3.Not(z3.BVSubNoUnderflow(x, y, True))))
        return to_bool(z3.ULT(x, y))
    if op == "Mul":
        if signed:
            return to_bool(z3.Or(z3.Not(z3.BVMulNoOverflow(x, y, True)), z3.Not(z3.BVMulNoUnderflow(x, y))))
        return to_bool(z3.Not(z3.BVMulNoOverflow(x, y, False)))
    raise Untranslatable("overflow op " + op)


def int_cast(v, bits, signed):
    if isinstance(v, bool):
        return Int(1 if v else 0, bits, signed)
    if z3.is_expr(v) and z3.is_bool(v):
        return simp_int(z3.If(v, z3.BitVecVal(1, bits), z3.BitVecVal(0, bits)), bits, signed)
    if v.concrete:
        return Int(v.v, bits, signed)
    e = v.v
    if bits == v.bits:
        return Int(e, bits, signed)
    if bits < v.bits:
        return simp_int(z3.Extract(bits - 1, 0, e), bits, signed)
    if v.signed:
        return simp_int(z3.SignExt(bits - v.bits, e), bits, signed)
    return simp_int(z3.ZeroExt(bits - v.bits, e), bits, signed)


# --------------------------------------------------------------------------
# string literal decoding
# --------------------------------------------------------------------------

def decode_rust_literal(body, is_bytes):
    """body: text between the quotes"""
    out = bytearray()
    i = 0
    n = len(body)
    while i < n:
        c = body[i]
        if c == "\\":
            d = body[i + 1]
            if d == "x":
                out.append(int(body[i + 2:i + 4], 16))
                i += 4
                continue
            if d == "u":
                j = body.index("}", i)
                cp = int(body[i + 3:j], 16)
                out.extend(chr(cp).encode("utf-8"))
                i = j + 1
                continue
            m = {"n": 10, "r": 13, "t": 9, "0": 0, "\\": 92, "'": 39, '"': 34}
            if d in m:
                out.append(m[d])
                i += 2
                continue
            if d == "\n":
                i += 2
                while i < n and body[i] in " \t\n":
                    i += 1
                continue
            raise ParseError("escape \\%s" % d)
        out.extend(c.encode("utf-8"))
        i += 1
    return bytes(out)


# --------------------------------------------------------------------------
# program: all parsed crates + declaration tables + call resolution
# --------------------------------------------------------------------------

class Program:
    def __init__(self, repo_root="/repo"):
        self.repo_root = repo_root
        self.fns = {}           # (crate, name) -> Fn
        self.by_name = {}       # name -> [Fn]
        self.allocs = {}
        self.crates = {}
        self.enums = {}
        self.methods = {}       # (selftype_last, method) -> [(trait_last or None, Fn)]
        self.free = {}          # last segment -> [Fn]
        self.children = {}      # parent fn name -> [Fn]
        self.impl_cache = {}
        self.impl_generics = {}
        self.resolve_cache = {}
        self.assoc_consts = {}
        self._cur_crate = None
        self._enum_cache = {}

    def load_crate(self, crate, mir_path, crate_dir):
        fns, allocs = parse_file(mir_path, crate)
        self.crates[crate] = crate_dir
        for key, fn in fns.items():
            self.fns[(crate, key)] = fn
            self.by_name.setdefault(fn.name, []).append(fn)
            fn.crate = crate
        for k, v in allocs.items():
            self.allocs[(crate, k)] = v
        self._index(crate, fns)

    def load_enums(self, dirs):
        self.enums = decl.scan_enums(dirs)

    _re_impl_seg = re.compile(r"<impl at ([^>]*?):(\d+):(\d+): (\d+):(\d+)>")

    def impl_info(self, crate, seg_match):
        key = (crate, seg_match.group(0))
        if key in self.impl_cache:
            return self.impl_cache[key]
        path = seg_match.group(1)
        line = int(seg_match.group(2))
        col = int(seg_match.group(3))
        import os
        txt = None
        if path.startswith("/"):
            full = path
        else:
            full = os.path.join(self.repo_root, path)
        if os.path.exists(full):
            lines = open(full, errors="replace").read().split("\n")
            txt = lines[line - 1][col - 1:] + "\n" + "\n".join(lines[line:line + 60])
        info = (None, None)
        gens = []
        if txt is not None:
            decl.LAST_IMPL_GENERICS = []
            info = decl.parse_impl_text(txt)
            gens = list(decl.LAST_IMPL_GENERICS)
        self.impl_generics[key] = gens
        self.impl_cache[key] = info
        return info

    def fn_generics(self, fn):
        """names of the type parameters declared by a method itself (`fn name<T: .., U>(..)`), read from the source of
        its impl block; [] when unknown"""
        cache = self.__dict__.setdefault("_fn_generics", {})
        key = (fn.crate, fn.name)
        if key in cache:
            return cache[key]
        out = []
        ms = list(self._re_impl_seg.finditer(fn.name))
        if ms and "{closure" not in fn.name:
            m = ms[-1]
            method = fn.name[m.end():].lstrip(":").split("::")[0]
            path = m.group(1)
            import os
            full = path if path.startswith("/") else os.path.join(self.repo_root, path)
            if method and os.path.exists(full):
                lines = open(full, errors="replace").read().split("\n")
                a = int(m.group(2)) - 1
                txt = "\n".join(lines[a:a + 800])        # the span covers the impl header only
                mm = re.search(r"\bfn\s+%s\s*<([^()]*?)>\s*\(" % re.escape(method), txt, flags=re.S)
                if mm:
                    for part in split_top(mm.group(1)):
                        part = part.strip()
                        if not part or part.startswith("'") or part.startswith("const "):
                            continue
                        out.append(part.split(":")[0].strip())
        cache[key] = out
        return out

    def _index(self, crate, fns):
        for key, fn in fns.items():
            name = fn.name
            if fn.kind == "const":
                ms = list(self._re_impl_seg.finditer(name))
                if ms and "::" in name[ms[-1].end():] and "promoted[" not in name:
                    rest = name[ms[-1].end() + 2:]
                    if "::" not in rest:
                        trait, selfty = self.impl_info(crate, ms[-1])
                        if selfty and "$" not in selfty:
                            self.assoc_consts.setdefault((last_ident(selfty), rest), []).append(fn)
                continue
            if fn.kind != "fn":
                continue
            # parent/children relation for closures
            m = re.match(r"^(.*)::\{closure#(\d+)\}$", name)
            if m:
                self.children.setdefault((crate, m.group(1)), []).append(fn)
                continue
            if "{closure#" in name or "{constant#" in name:
                continue
            ms = list(self._re_impl_seg.finditer(name))
            if ms:
                last = ms[-1]
                rest = name[last.end():]
                if rest.startswith("::") and "::" not in rest[2:]:
                    method = rest[2:]
                    trait, selfty = self.impl_info(crate, last)
                    if trait:
                        trait = trait.replace("$crate::", "")
                    if not selfty or "$" in selfty or (trait and "$" in trait):
                        t0 = trait if (trait and "$" not in trait) else None
                        _, selfty = self.guess_self(fn)
                        trait = t0
                    if selfty:
                        tl = last_ident(trait) if trait else None
                        fn.impl_trait = trait
                        fn.impl_self = selfty
                        fn.impl_generics = self.impl_generics.get((crate, last.group(0)), [])
                        self.methods.setdefault((last_ident(selfty), method), []).append((tl, fn))
                continue
            seg = name.split("::")[-1]
            self.free.setdefault(seg, []).append(fn)

    @staticmethod
    def guess_self(fn):
        """macro-generated impls (bitflags!, ...): infer Self from the signature"""
        def base(t):
            t = t.strip()
            t = re.sub(r"^(&(?:'[a-z_]+ )?(?:mut )?)+", "", t)
            m = re.match(r"^(?:std::option::)?Option<(.*)>$", t)
            if m:
                t = m.group(1)
            m = re.match(r"^(?:std::result::)?Result<(.*), .*>$", t)
            if m:
                t = m.group(1)
            return t
        if fn.arg_types:
            t = base(fn.arg_types[0])
            if re.fullmatch(r"[A-Za-z_][A-Za-z0-9_:]*", t) and not int_type(t) and t not in ("bool", "str"):
                return None, t
        t = base(fn.ret_type or "")
        if re.fullmatch(r"[A-Za-z_][A-Za-z0-9_:]*", t) and not int_type(t) and t not in ("bool", "str"):
            return None, t
        return None, None

    # ---- callee resolution -------------------------------------------------
    def resolve(self, callee, cur_fn=None):
        crate = cur_fn.crate if cur_fn is not None else None
        key = (crate, callee)
        if key in self.resolve_cache:
            return self.resolve_cache[key]
        self._cur_crate = crate
        r = self._resolve(callee, cur_fn)
        self.resolve_cache[key] = r
        return r

    def _prefer(self, cands):
        """prefer bodies of the calling crate when a name exists in several crates"""
        if len(cands) > 1 and self._cur_crate is not None:
            own = [f for f in cands if f.crate == self._cur_crate]
            if own:
                return own
        return cands

    def _resolve(self, callee, cur_fn):
        c = callee.strip()
        # <T as Trait>::method
        if c.startswith("<"):
            # find matching '>'
            depth = 0
            end = None
            for i, ch in enumerate(c):
                if ch == "<":
                    depth += 1
                elif ch == ">" and c[i - 1] not in "-=":
                    depth -= 1
                    if depth == 0:
                        end = i
                        break
            inner = c[1:end]
            rest = strip_generics(c[end + 1:])
            method = rest.split("::")[-1]
            idx = self._find_as(inner)
            if idx is not None:
                ty = inner[:idx]
                trait = inner[idx + 4:]
                tl = last_ident(trait)
                if rest.count("::") >= 2:
                    # `<T as Trait>::method::{closure#0}::helper`: a fn item nested inside a trait method
                    tail = rest if rest.startswith("::") else "::" + rest
                    nested = self._prefer([f for nm, fl in self.by_name.items() if nm.endswith(tail) for f in fl])
                    if len(nested) == 1:
                        return nested[0]
                cands = self._prefer([f for (t, f) in self.methods.get((last_ident(ty), method), []) if t == tl])
                if len(cands) == 1:
                    return cands[0]
                if len(cands) > 1:
                    # disambiguate on the trait's generic arguments (From<&T> vs From<T>, ...)
                    def targs(t):
                        t = re.sub(r"'[a-z_]+ ?", "", t or "")
                        i = t.find("<")
                        if i < 0:
                            return ""
                        inner = t[i + 1:t.rfind(">")]
                        refs = len(inner) - len(inner.lstrip("&"))
                        return "&" * refs + last_ident(inner)
                    want = targs(trait)
                    ex = [f for f in cands if targs(getattr(f, "impl_trait", "")) == want]
                    if len(ex) == 1:
                        return ex[0]
                    if len(ex) > 1:
                        cands = ex
                    # disambiguate on full self type text
                    ex = [f for f in cands if strip_generics(f.impl_self).split("::")[-1] == strip_generics(ty).split("::")[-1]]
                    if len(ex) >= 1:
                        return ex[0]
                return None
            else:
                # <Type>::method  (inherent on a complex type)
                cands = self._prefer([f for (t, f) in self.methods.get((last_ident(inner), method), []) if t is None])
                if len(cands) == 1:
                    return cands[0]
                return None
        m = re.search(r"<impl ([^<>]*(?:<[^<>]*>)?[^<>]*)>::(\w+)(?:::<.*>)?$", c)
        if m:
            inner, method = m.group(1), m.group(2)
            if " for " in inner:
                trait, ty = inner.split(" for ", 1)
                tl = last_ident(trait)
                cands = [f for (t, f) in self.methods.get((last_ident(ty), method), []) if t == tl]
            else:
                cands = [f for (t, f) in self.methods.get((last_ident(inner), method), []) if t is None]
            cands = self._prefer(cands)
            if len(cands) >= 1:
                return cands[0]
            return None
        path = strip_generics(c)
        segs = path.split("::")
        if len(segs) >= 2:
            ty, method = segs[-2], segs[-1]
            cands = self.methods.get((ty, method), [])
            inh = self._prefer([f for (t, f) in cands if t is None])
            if len(inh) == 1:
                return inh[0]
            if len(inh) == 0 and len(cands) == 1:
                return cands[0][1]
        # free function / constructor
        cands = self._prefer(self.free.get(segs[-1], []))
        if len(cands) == 1:
            return cands[0]
        if len(cands) > 1:
            # longest suffix match on the module path
            best = [f for f in cands if f.name == path or path.endswith("::" + f.name) or f.name.endswith("::" + path)]
            if len(best) == 1:
                return best[0]
        if len(segs) >= 2 and "{" not in path:
            # a fn item nested in a method (`Type::<..>::method::helper`): printed with the type path at the call
            # site, with the impl span in the definition; match on the unique `::method::helper` suffix
            suf = "::%s::%s" % (segs[-2], segs[-1])
            idx = self.__dict__.setdefault("_suffix2", None)
            if idx is None:
                idx = {}
                for nm, fl in self.by_name.items():
                    p2 = nm.split("::")
                    if len(p2) >= 2:
                        idx.setdefault("::%s::%s" % (p2[-2], p2[-1]), []).extend(fl)
                self._suffix2 = idx
            c2 = self._prefer(idx.get(suf, []))
            if len(c2) == 1:
                return c2[0]
        return None

    @staticmethod
    def _find_as(s):
        depth = 0
        for i, ch in enumerate(s):
            if ch in "<([":
                depth += 1
            elif ch in ">)]" and not (ch == ">" and s[i - 1] in "-="):
                depth -= 1
            elif depth == 0 and s.startswith(" as ", i):
                return i
        return None

    def pretty(self, name):
        """stable, line-number-free name of a MIR body: `<Type as Trait>::method` / `Type::method` / path"""
        if name is None:
            return "?"
        base = re.sub(r"(::\{closure#\d+\})+$", "", name)
        suffix = name[len(base):]
        for fn in self.by_name.get(base, []):
            st = getattr(fn, "impl_self", None)
            if st:
                method = base.split("::")[-1]
                tr = getattr(fn, "impl_trait", None)
                if tr:
                    return "<%s as %s>::%s%s" % (last_ident(st), last_ident(tr), method, suffix)
                return "%s::%s%s" % (last_ident(st), method, suffix)
        return re.sub(r"<impl at [^>]*?([^/>]*\.rs):[\d: ]*>", r"<impl in \1>", name)

    def closure_body(self, cur_fn, span, kind):
        kids = self.children.get((cur_fn.crate, cur_fn.name), [])
        for k in kids:
            t = k.arg_types[0] if k.arg_types else ""
            if span in t:
                return k
        if kind == "coroutine" and len(kids) >= 1:
            for k in kids:
                if k.name.endswith("::{closure#0}"):
                    return k
        return None

    def enum_variant(self, tyname, variant):
        """-> discriminant int or None"""
        tl = last_ident(tyname)
        if tl in decl.STD_ENUMS:
            for n, d in decl.STD_ENUMS[tl]:
                if n == variant:
                    return d
        for e in self.enums.get(tl, []):
            d = e.discr_of(variant)
            if d is not None:
                return d
        return None

    def crate_of_path(self, path):
        for cr, d in self.crates.items():
            if path.startswith(d.rstrip("/") + "/"):
                return cr
        return None

    def is_enum_variant_path(self, name, cur_crate=None):
        """name like a::b::Type::Variant (generics stripped) -> (Type, Variant, discr) or None"""
        key = (name, cur_crate)
        r = self._enum_cache.get(key, 0)
        if r != 0:
            return r
        r = self._is_enum_variant_path(name, cur_crate)
        self._enum_cache[key] = r
        return r

    def _is_enum_variant_path(self, name, cur_crate):
        segs = strip_generics(name).split("::")
        if len(segs) < 2:
            return None
        ty, var = segs[-2], segs[-1]
        if ty in decl.STD_ENUMS:
            for n, d in decl.STD_ENUMS[ty]:
                if n == var:
                    return ty, var, d
        decls = self.enums.get(ty, [])
        found = [e for e in decls if e.discr_of(var) is not None or any(n == var for n, _ in e.variants)]
        if found:
            ds = set(e.discr_of(var) for e in found)
            if len(ds) == 1:
                return ty, var, ds.pop()
            want = segs[0] if segs[0] in self.crates else cur_crate
            own = [e for e in found if self.crate_of_path(e.path) == want]
            ds = set(e.discr_of(var) for e in own)
            if len(ds) == 1:
                return ty, var, ds.pop()
            raise Inconclusive("ambiguous enum %s::%s" % (ty, var))
        return None


# --------------------------------------------------------------------------
# exploration context
# --------------------------------------------------------------------------

class Stats:
    def __init__(self):
        self.queries = 0
        self.solver_s = 0.0
        self.steps = 0
        self.paths = 0
        self.blocks_hit = {}      # fn name -> set(bb)
        self.untranslatable = {}
        self.calls_modelled = {}


class Ctx:
    def __init__(self, engine, prefix):
        self.engine = engine
        self.prefix = prefix
        self.trace = []
        self.alts = []
        self.pc = []
        self.solver = z3.SolverFor(_os.environ.get("MIRSYM_LOGIC", "QF_ABV"))
        self.solver.set("timeout", engine.query_timeout_ms)
        self.fresh_n = 0
        self.events = []       # side records (allocation requests, notes)
        self.depth = 0

    # -- solver ------------------------------------------------------------
    def add(self, cond):
        if cond is True:
            return
        self.pc.append(cond)
        self.solver.add(bz3(cond))

    def assume(self, cond):
        """add a constraint chosen by a model; the path ends as infeasible if it contradicts the path so far"""
        cond = to_bool(cond) if not isinstance(cond, bool) else cond
        if cond is True:
            return
        if cond is False or not self.check(cond):
            raise Infeasible()
        self.add(cond)

    def check(self, cond):
        st = self.engine.stats
        t = time.time()
        self.solver.push()
        self.solver.add(bz3(cond))
        r = self.solver.check()
        self.solver.pop()
        st.queries += 1
        st.solver_s += time.time() - t
        if r == z3.unknown:
            raise Inconclusive("solver returned unknown: %s" % self.solver.reason_unknown())
        return r == z3.sat

    def model(self, extra=None):
        self.solver.push()
        if extra is not None:
            self.solver.add(bz3(extra))
        r = self.solver.check()
        m = self.solver.model() if r == z3.sat else None
        self.solver.pop()
        self.engine.stats.queries += 1
        return m

    def branch(self, cond):
        cond = to_bool(cond) if not isinstance(cond, bool) else cond
        if isinstance(cond, bool):
            return cond
        i = len(self.trace)
        if i < len(self.prefix):
            d = self.prefix[i]
            if not isinstance(d, bool):
                raise Inconclusive("replay divergence in branch")
            self.trace.append(d)
            self.add(cond if d else z3.Not(cond))
            if i == len(self.prefix) - 1 and self.engine.paranoid:
                # end of the replayed prefix: the path condition must still be satisfiable
                if not self.check(True):
                    raise Inconclusive("replay divergence: prefix became infeasible")
            return d
        t = self.check(cond)
        f = self.check(z3.Not(cond))
        if t and f:
            self.alts.append(self.trace + [False])
            d = True
        elif t:
            d = True
        elif f:
            d = False
        else:
            raise Infeasible()
        self.trace.append(d)
        self.add(cond if d else z3.Not(cond))
        return d

    def must(self, cond):
        """is cond valid under the path condition?"""
        cond = to_bool(cond) if not isinstance(cond, bool) else cond
        if isinstance(cond, bool):
            return cond
        return not self.check(z3.Not(cond))

    def concretize(self, iv, limit=64, what="value"):
        """fork over the feasible concrete values of Int iv (at most `limit`)"""
        if iv.concrete:
            return iv.v
        n = 0
        while True:
            i = len(self.trace)
            if i < len(self.prefix):
                # replay: the value tried at this point is part of the recorded trace
                ent = self.prefix[i]
                if not (isinstance(ent, tuple) and ent[0] == "v"):
                    raise Inconclusive("replay divergence in concretize (%s)" % what)
                val = ent[1]
                self.trace.append(ent)
            else:
                m = self.model()
                if m is None:
                    raise Infeasible()
                val = m.eval(iv.z3(), model_completion=True).as_long()
                self.trace.append(("v", val))
            if self.branch(iv.z3() == z3.BitVecVal(val, iv.bits)):
                return norm(val, iv.bits, iv.signed)
            n += 1
            if n > limit:
                raise BoundHit("concretize %s: more than %d values" % (what, limit))

    def fresh_bv(self, name, bits):
        self.fresh_n += 1
        return z3.BitVec("%s!%d" % (name, self.fresh_n), bits)

    def fresh_bool(self, name):
        self.fresh_n += 1
        return z3.Bool("%s!%d" % (name, self.fresh_n))

    def fresh_arr(self, name):
        self.fresh_n += 1
        return z3.Array("%s!%d" % (name, self.fresh_n), z3.BitVecSort(64), z3.BitVecSort(8))

    def note(self, kind, **kw):
        self.events.append((kind, kw))


class PathResult:
    def __init__(self, kind, value=None, ctx=None, err=None):
        self.kind = kind     # 'ret' | 'panic' | 'untranslatable' | 'bound' | 'infeasible'
        self.value = value
        self.err = err
        self.pc = list(ctx.pc) if ctx else []
        self.trace = list(ctx.trace) if ctx else []
        self.model = None
        self.events = list(ctx.events) if ctx else []
        self.ctx = ctx

    def __repr__(self):
        return "Path(%s, %r)" % (self.kind, self.value if self.kind == "ret" else self.err)


class Frame:
    __slots__ = ("fn", "locals", "bb", "generics")

    def __init__(self, fn):
        self.fn = fn
        self.locals = {}
        self.bb = 0
        self.generics = None

    def local(self, i):
        c = self.locals.get(i)
        if c is None:
            c = Cell()
            self.locals[i] = c
        return c


class Engine:
    def __init__(self, program, models, loop_bound=40, max_paths=5000, query_timeout_ms=20000,
                 max_depth=200, overflow_checks=True):
        self.program = program
        self.models = models      # list of (compiled regex, fn)
        self.model_cache = {}
        self.loop_bound = loop_bound
        self.max_paths = max_paths
        self.query_timeout_ms = query_timeout_ms
        self.max_depth = max_depth
        self.stats = Stats()
        self.overflow_checks = overflow_checks
        self.const_cache = {}
        self.norm_cache = {}
        self.trace_calls = False
        self.want_models = True
        self.paranoid = True

    # ------------------------------------------------------------------
    def explore(self, thunk, max_paths=None, on_result=None, prefixes=None, stop_pending=None, time_budget=None):
        """thunk(ctx) -> value.  Returns list[PathResult] (or streams them to on_result).
        prefixes: explore only the subtrees below these decision prefixes.
        stop_pending: stop as soon as that many unexplored subtrees are pending; they are left in
        self.pending for other workers (stateless exploration makes the split trivial)."""
        results = []
        n_done = 0
        work = [list(p) for p in prefixes] if prefixes is not None else [[]]
        self.pending = []
        t_start = time.time()
        limit = max_paths or self.max_paths
        while work:
            if len(results) + n_done >= limit:
                r = PathResult("bound", err=("path limit %d reached" % limit, None))
                if on_result is not None:
                    on_result(r)
                else:
                    results.append(r)
                break
            if stop_pending is not None and len(work) >= stop_pending:
                self.pending = work
                break
            if time_budget is not None and work and (len(results) + n_done) > 0 and time.time() - t_start > time_budget:
                # hand the unexplored subtrees back so that other workers can take them
                self.pending = work
                break
            prefix = work.pop()
            ctx = Ctx(self, prefix)
            self.ctx = ctx
            try:
                v = thunk(ctx)
                r = PathResult("ret", v, ctx)
            except Panic as p:
                r = PathResult("panic", None, ctx, err=(p.msg, p.site, p.kind))
            except Untranslatable as u:
                r = PathResult("untranslatable", None, ctx, err=(u.what, u.site))
                self.stats.untranslatable[u.what] = self.stats.untranslatable.get(u.what, 0) + 1
            except BoundHit as b:
                r = PathResult("bound", None, ctx, err=(b.what, b.site))
            except Infeasible:
                r = PathResult("infeasible", None, ctx)
            work.extend(ctx.alts)
            self.stats.paths += 1
            if r.kind != "infeasible" and self.want_models:
                try:
                    r.model = ctx.model()
                except Exception:
                    r.model = None
            ctx.solver = None          # free the solver; the path condition list is kept
            if on_result is not None:
                on_result(r)
                n_done += 1
            else:
                results.append(r)
        return results

    # ------------------------------------------------------------------
    # constants
    # ------------------------------------------------------------------
    def eval_const(self, frame, text, ty_hint=None):
        t = text.strip()
        if t == "true":
            return True
        if t == "false":
            return False
        if t == "()":
            return unit()
        m = re.fullmatch(r"(-?\d+)_([iu](?:8|16|32|64|128|size))", t)
        if m:
            bits, signed = _INT_TYPES[m.group(2)]
            return Int(int(m.group(1)), bits, signed)
        if t.startswith('"') and t.endswith('"'):
            data = decode_rust_literal(t[1:-1], False)
            return Ref(Cell(bytes_from_concrete(data, utf8=True)))
        if t.startswith('b"') and t.endswith('"'):
            data = decode_rust_literal(t[2:-1], True)
            items = [Cell(Int(b, 8)) for b in data]
            return Ref(Cell(Agg("array", "[u8; %d]" % len(data), items)))
        if t.startswith("'") and t.endswith("'"):
            data = decode_rust_literal(t[1:-1], False).decode("utf-8")
            return Int(ord(data), 32, False)
        m = re.fullmatch(r"(-?[\d.]+(?:[eE][-+]?\d+)?)(?:_)?(f32|f64)", t)
        if m:
            return Opaque("float", t)
        # promoted of the current function
        m = re.search(r"::promoted\[(\d+)\]$", t)
        if m and frame is not None:
            base = frame.fn.name
            # closures share promoteds of their own body
            cand = self.program.fns.get((frame.fn.crate, "%s::promoted[%s]" % (base, m.group(1))))
            if cand is not None:
                return self.eval_const_body(cand)
            raise Untranslatable("promoted constant %s" % t)
        if t.startswith("ZeroSized: ") or t.startswith("_: "):
            ty = t.split(": ", 1)[1]
            return self.zero_sized(frame, ty)
        if t.startswith("PhantomData"):
            return Agg("struct", "PhantomData", [])
        # tuple constants  (a, b)
        if t.startswith("(") and t.endswith(")"):
            parts = split_top(t[1:-1])
            return Agg("tuple", "tuple", [Cell(self.eval_const(frame, p[6:] if p.startswith("const ") else p)) for p in parts])
        if t.startswith("{") and t.endswith("}"):
            return self.zero_sized(frame, t)
        # value expressions  Path::Variant(a, b) / Struct(a, b)  (e.g. `Result::<Infallible, E>::Err(E(()))`)
        if t.endswith(")") and "(" in t and not t.startswith("<"):
            depth = 0
            cut = None
            for i in range(len(t) - 1, -1, -1):
                ch = t[i]
                if ch == ")":
                    depth += 1
                elif ch == "(":
                    depth -= 1
                    if depth == 0:
                        cut = i
                        break
            head = t[:cut] if cut else ""
            if cut and re.fullmatch(r"[\w:<>, '&\[\];]+", head) and not head.endswith(">"):
                inner = t[cut + 1:-1]
                parts = split_top(inner) if inner.strip() else []
                vals = [Cell(self.eval_const(frame, q[6:] if q.startswith("const ") else q)) for q in parts]
                hname = strip_generics(head)
                ev = self.program.is_enum_variant_path(hname, frame.fn.crate if frame is not None else None)
                if ev:
                    return EnumV(ev[0], ev[1], ev[2], vals)
                return Agg("struct", hname.split("::")[-1], vals)
        # typed constant  `const <expr>: Type` handled above; named constants:
        name = strip_generics(t)
        # enum unit variants printed as constants
        ev = self.program.is_enum_variant_path(name, frame.fn.crate if frame is not None else None)
        if ev:
            return EnumV(ev[0], ev[1], ev[2], [])
        segs = name.split("::")
        if len(segs) >= 2:
            ac = self.program.assoc_consts.get((segs[-2], segs[-1]), [])
            if len(ac) == 1:
                return self.eval_const_body(ac[0])
        m = re.match(r"^<(.*) as (.*)>::(\w+)$", t)
        if m:
            ac = self.program.assoc_consts.get((last_ident(m.group(1)), m.group(3)), [])
            if len(ac) == 1:
                return self.eval_const_body(ac[0])
        # named const item in the repo (suffix match)
        cands = [f for (cr, n), f in self.program.fns.items() if f.kind == "const" and (n == name or n == segs[-1] or n.endswith("::" + segs[-1]))]
        if len(cands) > 1 and len(segs) > 1 and segs[0] in self.program.crates:
            own = [f for f in cands if f.crate == segs[0]]
            if own:
                cands = own
        elif len(cands) > 1 and frame is not None:
            own = [f for f in cands if f.crate == frame.fn.crate]
            if own:
                cands = own
        exact = [f for f in cands if f.name == name or name.endswith("::" + f.name) or f.name.endswith("::" + name)]
        if len(exact) == 1:
            return self.eval_const_body(exact[0])
        if len(cands) == 1:
            return self.eval_const_body(cands[0])
        # constants of external crates that have a model
        for rx, f in CONST_MODELS:
            if rx.search(t):
                try:
                    return f(self, t)
                except TypeError:
                    return f(self)
        # function item
        return FnItem(t)

    def zero_sized(self, frame, ty):
        m = re.match(r"^\{(closure|coroutine)@([^}]*)\}$", ty.strip())
        if m and frame is not None:
            body = self.program.closure_body(frame.fn, m.group(2), m.group(1))
            return Closure(body, [], m.group(2))
        return FnItem(ty)

    def eval_const_body(self, fn):
        key = (fn.crate, fn.key)
        if key in self.const_cache:
            return deep_copy(self.const_cache[key])
        if fn.simple_const is not None:
            s = fn.simple_const
            if s.startswith("const "):
                s = s[6:]
            v = self.eval_const(None, s)
        else:
            v = self.run_fn(fn, [])
        self.const_cache[key] = v
        return deep_copy(v)

    # ------------------------------------------------------------------
    # places
    # ------------------------------------------------------------------
    def place_cell(self, frame, place):
        cell = frame.local(place.local)
        pending_variant = None
        for p in place.proj:
            k = p[0]
            if k == "deref":
                v = cell.v
                if isinstance(v, Ref):
                    cell = v.cell
                    if v.window is not None:
                        # materialise windowed view
                        cell = Cell(self.apply_window(v))
                elif isinstance(v, Agg) and v.ty in ("Box", "Pin", "Rc", "Arc") and v.fields:
                    inner = v.fields[0].v
                    if isinstance(inner, Ref):
                        cell = inner.cell
                    else:
                        cell = v.fields[0]
                elif v is None:
                    raise Untranslatable("deref of uninitialised value", (frame.fn.name,))
                else:
                    raise Untranslatable("deref of %s" % type(v).__name__, (frame.fn.name,))
            elif k == "field":
                idx = p[1]
                v = cell.v
                if pending_variant is not None:
                    co, kk = pending_variant
                    pending_variant = None
                    key = (kk, idx)
                    c = co.saved.get(key)
                    if c is None:
                        c = Cell()
                        co.saved[key] = c
                    cell = c
                    continue
                if v is None:
                    v = Agg("struct", None, [])
                    cell.v = v
                if isinstance(v, Ref) and idx == 0 and len(p) > 2 and ("Unique<" in p[2] or "NonNull<" in p[2]):
                    # Box<T> internals (box.0: Unique<T>).0: NonNull<T>: the model's Box is the pointer itself
                    continue
                if isinstance(v, (Agg, EnumV)):
                    fs = v.fields
                    while len(fs) <= idx:
                        fs.append(Cell())
                    cell = fs[idx]
                elif isinstance(v, (Coroutine, Closure)):
                    fs = v.upvars
                    while len(fs) <= idx:
                        fs.append(Cell())
                    cell = fs[idx]
                elif hasattr(v, "field_cell"):
                    cell = v.field_cell(self, idx)
                else:
                    raise Untranslatable("field %d of %s" % (idx, type(v).__name__), (frame.fn.name,))
            elif k == "downcast":
                v = cell.v
                if v is None:
                    cell.v = EnumV(None, p[1], None, [])
                elif isinstance(v, EnumV):
                    if v.variant != p[1]:
                        # writing a new variant in place
                        if v.variant is None:
                            v.variant = p[1]
                        else:
                            raise Untranslatable("downcast %s of %r" % (p[1], v), (frame.fn.name,))
                elif hasattr(v, "as_enum"):
                    cell = Cell(v.as_enum(self, p[1]))
                else:
                    raise Untranslatable("downcast of %s" % type(v).__name__, (frame.fn.name,))
            elif k == "variant":
                v = cell.v
                if not isinstance(v, Coroutine):
                    raise Untranslatable("variant# of non-coroutine", (frame.fn.name,))
                pending_variant = (v, p[1])
            elif k == "index":
                iv = frame.local(p[1]).v
                cell = self.index_cell(frame, cell, iv)
            elif k == "constindex":
                idx, from_end, minlen = p[1], p[2], p[3]
                if from_end:
                    n = self.seq_len(cell.v)
                    if not n.concrete:
                        raise Untranslatable("constindex from end on symbolic length")
                    idx = n.v - idx
                cell = self.index_cell(frame, cell, Int(idx, 64))
            else:
                raise Untranslatable("projection %s" % k, (frame.fn.name,))
        return cell

    def apply_window(self, ref):
        v = ref.cell.v
        start, ln = ref.window
        if isinstance(v, Bytes):
            return Bytes(v.arr, int_binop("Add", v.off, start), ln, v.utf8)
        if isinstance(v, (VecV,)) and start.concrete and ln.concrete:
            return VecV(v.ty, v.items[start.v:start.v + ln.v])
        if isinstance(v, Agg) and v.kind == "array" and start.concrete and ln.concrete:
            return VecV(v.ty, v.fields[start.v:start.v + ln.v])
        raise Untranslatable("window over %s" % type(v).__name__)

    def seq_len(self, v):
        if isinstance(v, Bytes):
            return v.len
        if isinstance(v, VecV):
            return Int(len(v.items), 64)
        if isinstance(v, Agg) and v.kind == "array":
            return Int(len(v.fields), 64)
        if hasattr(v, "seq_len"):
            return v.seq_len()
        raise Untranslatable("len of %s" % type(v).__name__)

    def index_cell(self, frame, cell, iv):
        v = cell.v
        if isinstance(v, Bytes):
            return Cell(v.byte(iv))
        items = v.items if isinstance(v, VecV) else (v.fields if isinstance(v, Agg) else None)
        if items is None:
            raise Untranslatable("index into %s" % type(v).__name__, (frame.fn.name,))
        if iv.concrete:
            if iv.v >= len(items):
                raise Panic("index out of bounds (unchecked path)", (frame.fn.name,))
            return items[iv.v]
        # symbolic index into concrete-length sequence: fork on the value
        k = self.ctx.concretize(iv, limit=len(items) + 1, what="index")
        if k >= len(items):
            raise Panic("index out of bounds", (frame.fn.name,))
        return items[k]

    # ------------------------------------------------------------------
    # operands / rvalues
    # ------------------------------------------------------------------
    def eval_operand(self, frame, op):
        if op.kind == "const":
            return self.eval_const(frame, op.const)
        cell = self.place_cell(frame, op.place)
        v = cell.v
        if op.kind == "move":
            if not op.place.proj:
                cell.v = None
            return v
        return deep_copy(v)

    def eval_rvalue(self, frame, rv):
        k = rv.kind
        if k == "use":
            return self.eval_operand(frame, rv.a)
        if k == "ref":
            place = rv.a
            # &(*x) of a windowed slice reference: keep the reference itself
            if place.proj and place.proj[-1] == ("deref",):
                inner = self.place_cell(frame, Place(place.local, place.proj[:-1]))
                if isinstance(inner.v, Ref):
                    return Ref(inner.v.cell, inner.v.window)
            return Ref(self.place_cell(frame, place))
        if k == "binop":
            a = self.eval_operand(frame, rv.b)
            b = self.eval_operand(frame, rv.c)
            return self.binop(frame, rv.a, a, b)
        if k == "unop":
            a = self.eval_operand(frame, rv.b)
            if rv.a == "Not":
                if isinstance(a, Int):
                    if a.concrete:
                        return Int(~a.v, a.bits, a.signed)
                    return simp_int(~a.z3(), a.bits, a.signed)
                return b_not(a)
            if rv.a == "Neg":
                if a.concrete:
                    return Int(-a.v, a.bits, a.signed)
                return simp_int(-a.z3(), a.bits, a.signed)
            if rv.a == "PtrMetadata":
                if isinstance(a, Ref):
                    if a.window is not None:
                        return a.window[1]
                    return self.seq_len(a.cell.v)
                raise Untranslatable("PtrMetadata of %s" % type(a).__name__)
            raise Untranslatable("unop %s" % rv.a)
        if k == "discriminant":
            v = self.place_cell(frame, rv.a).v
            d = self.discriminant(frame, v)
            it = int_type(getattr(self, "dest_type", None) or "")
            if it is not None and isinstance(d, Int) and d.bits != it[0]:
                d = int_cast(d, it[0], it[1])       # the discriminant has the type of the destination local
            return d
        if k == "len":
            v = self.place_cell(frame, rv.a).v
            return self.seq_len(v)
        if k == "cast":
            return self.cast(frame, rv)
        if k == "aggregate":
            return self.aggregate(frame, rv)
        if k == "repeat":
            v = self.eval_operand(frame, rv.a)
            n = rv.b.strip()
            m = re.fullmatch(r"(?:const )?(\d+)(?:_usize)?", n)
            if not m:
                cv = self.eval_const(frame, n[6:] if n.startswith("const ") else n)
                if isinstance(cv, Int) and cv.concrete:
                    cnt = cv.v
                else:
                    raise Untranslatable("repeat count %s" % n)
            else:
                cnt = int(m.group(1))
            if cnt > 4096:
                raise Untranslatable("repeat count %d too large" % cnt)
            return Agg("array", None, [Cell(deep_copy(v)) for _ in range(cnt)])
        raise Untranslatable("rvalue kind %s" % k, (frame.fn.name,))

    def discriminant(self, frame, v):
        if isinstance(v, EnumV):
            if v.discr is None:
                d = self.program.enum_variant(v.ty or "", v.variant) if v.ty else None
                if d is None:
                    raise Untranslatable("discriminant of %r unknown" % (v,), (frame.fn.name,))
                v.discr = d
            return Int(v.discr, 64, True)
        if isinstance(v, Coroutine):
            return Int(v.state, 32, False)
        if hasattr(v, "discriminant"):
            return v.discriminant(self)
        raise Untranslatable("discriminant of %s" % type(v).__name__, (frame.fn.name,))

    def binop(self, frame, op, a, b):
        if op in ("AddWithOverflow", "SubWithOverflow", "MulWithOverflow"):
            base = op[:3]
            r = int_binop(base, a, b)
            o = overflow_flag(base, a, b)
            return Agg("tuple", "ovf", [Cell(r), Cell(o)])
        if isinstance(a, Int) and isinstance(b, Int):
            if op == "Cmp":
                lt = int_binop("Lt", a, b)
                eq = int_binop("Eq", a, b)
                if self.ctx.branch(lt):
                    return EnumV("Ordering", "Less", -1, [])
                if self.ctx.branch(eq):
                    return EnumV("Ordering", "Equal", 0, [])
                return EnumV("Ordering", "Greater", 1, [])
            if op in ("Div", "Rem") and not b.concrete:
                if self.ctx.branch(b.z3() == 0):
                    raise Panic("division by zero", (frame.fn.name,))
            return int_binop(op, a, b)
        # booleans
        if (isinstance(a, bool) or z3.is_expr(a)) and (isinstance(b, bool) or z3.is_expr(b)):
            if op == "BitAnd":
                return b_and(a, b)
            if op == "BitOr":
                return b_or(a, b)
            if op in ("BitXor", "Ne"):
                return to_bool(bz3(a) != bz3(b))
            if op == "Eq":
                return to_bool(bz3(a) == bz3(b))
            if op in ("Lt", "Le", "Gt", "Ge"):
                ia, ib = int_cast(a, 8, False), int_cast(b, 8, False)
                return int_binop(op, ia, ib)
        if isinstance(a, Ref) and isinstance(b, Ref) and op in ("Eq", "Ne"):
            same = a.cell is b.cell
            return same if op == "Eq" else not same
        raise Untranslatable("binop %s on %s,%s" % (op, type(a).__name__, type(b).__name__), (frame.fn.name,))

    def cast(self, frame, rv):
        v = self.eval_operand(frame, rv.a)
        ty, kind = rv.b, rv.c
        if kind == "IntToInt":
            it = int_type(ty)
            if it is None:
                raise Untranslatable("IntToInt to %s" % ty)
            if isinstance(v, EnumV):
                v = self.discriminant(frame, v)
            return int_cast(v, it[0], it[1])
        if kind.startswith("PointerCoercion"):
            if "ReifyFnPointer" in kind or "ClosureFnPointer" in kind:
                return v
            return v
        if kind in ("PtrToPtr", "FnPtrToPtr"):
            return v
        if kind == "Transmute":
            it = int_type(ty)
            if it is not None and isinstance(v, Int) and v.bits == it[0]:
                return Int(v.v, it[0], it[1])
            if isinstance(v, Ref) and ("*const" in ty or "*mut" in ty or ty.startswith("&") or "NonNull" in ty):
                return v
            raise Untranslatable("transmute to %s" % ty, (frame.fn.name,))
        raise Untranslatable("cast kind %s" % kind, (frame.fn.name,))

    def aggregate(self, frame, rv):
        kind = rv.a
        if kind == "tuple":
            return Agg("tuple", "tuple", [Cell(self.eval_operand(frame, o)) for o in rv.b])
        if kind == "array":
            return Agg("array", None, [Cell(self.eval_operand(frame, o)) for o in rv.b])
        if kind in ("closure", "coroutine"):
            span = rv.c
            body = self.program.closure_body(frame.fn, span, kind)
            ups = [Cell(self.eval_operand(frame, o)) for (_, o) in rv.b]
            if kind == "closure":
                return Closure(body, ups, span, frame.generics)
            return Coroutine(body, ups, span, frame.generics)
        name = rv.c
        if kind == "adt_named":
            vals = [Cell(self.eval_operand(frame, o)) for (_, o) in rv.b]
        else:
            vals = [Cell(self.eval_operand(frame, o)) for o in rv.b]
        ev = self.program.is_enum_variant_path(name, frame.fn.crate)
        if ev is None and "::" not in strip_generics(name) and getattr(self, "dest_type", None):
            # bare variant name (`Start(..)`): qualify it with the destination's type
            ev = self.program.is_enum_variant_path(strip_generics(self.dest_type) + "::" + strip_generics(name), frame.fn.crate)
        if ev:
            return EnumV(ev[0], ev[1], ev[2], vals)
        ty = strip_generics(name).split("::")[-1]
        return Agg("struct", ty, vals)

    # ------------------------------------------------------------------
    # running a MIR body
    # ------------------------------------------------------------------
    def run_fn(self, fn, args, generics=None):
        ctx = self.ctx
        ctx.depth += 1
        if ctx.depth > self.max_depth:
            raise BoundHit("call depth", (fn.name,))
        try:
            return self._run_fn(fn, args, generics)
        finally:
            ctx.depth -= 1

    @staticmethod
    def type_args(text):
        """generic arguments of the last `<..>` group that closes `text` ("A<B, C>" -> [B, C])"""
        text = text.strip()
        if not text.endswith(">"):
            return []
        depth = 0
        for i in range(len(text) - 1, -1, -1):
            c = text[i]
            if c == ">" and not (i > 0 and text[i - 1] in "-="):
                depth += 1
            elif c == "<":
                depth -= 1
                if depth == 0:
                    inner = text[i + 1:-1]
                    return [a for a in split_top(inner) if not a.startswith("'")]
        return []

    def bind_generics(self, fn, callee):
        """map the impl's generic parameter names to the concrete types printed in the callee"""
        names = getattr(fn, "impl_generics", None)
        if not names:
            return None
        self_params = [a.strip() for a in self.type_args(getattr(fn, "impl_self", "") or "")]
        if not self_params:
            return None
        c = callee.strip()
        actual = []
        if c.startswith("<"):
            depth = 0
            end = None
            for i, ch in enumerate(c):
                if ch == "<":
                    depth += 1
                elif ch == ">" and c[i - 1] not in "-=":
                    depth -= 1
                    if depth == 0:
                        end = i
                        break
            inner = c[1:end]
            idx = Program._find_as(inner)
            ty = inner[:idx] if idx is not None else inner
            actual = self.type_args(ty)
        else:
            # path::Type::<A, B>::method::<C>  -> the group that precedes the last path segment
            m = re.match(r"^(.*)::([A-Za-z_][A-Za-z0-9_]*)(::<.*>)?$", c)
            if m:
                head = m.group(1)
                if head.endswith(">"):
                    actual = self.type_args(head.replace("::<", "<"))
        if len(actual) != len(self_params):
            return None
        out = {}
        for p, a in zip(self_params, actual):
            if p in names and a.strip() != p:
                out[p] = a.strip()
        return out or None

    def subst_generics(self, callee, generics):
        if not generics:
            return callee
        for p, a in generics.items():
            callee = re.sub(r"(?<![A-Za-z0-9_:])%s(?![A-Za-z0-9_])" % re.escape(p), a.replace("\\", "\\\\"), callee)
        return callee

    def _run_fn(self, fn, args, generics=None):
        if not fn.blocks:
            raise Untranslatable("no MIR body for %s" % fn.name)
        frame = Frame(fn)
        frame.generics = generics
        for i, a in enumerate(args):
            frame.locals[i + 1] = Cell(a)
        visits = {}
        bb = 0
        hit = self.stats.blocks_hit.setdefault((fn.crate, fn.key), set())
        st = self.stats
        while True:
            blk = fn.blocks[bb]
            hit.add(bb)
            n = visits.get(bb, 0) + 1
            visits[bb] = n
            if n > self.loop_bound:
                raise BoundHit("loop bound %d in %s bb%d" % (self.loop_bound, fn.name, bb), (fn.name, bb))
            for s in blk.stmts:
                st.steps += 1
                if s.kind == "assign":
                    try:
                        self.dest_type = fn.local_types.get(s.place.local) if not s.place.proj else None
                        val = self.eval_rvalue(frame, s.rv)
                        self.place_cell(frame, s.place).v = val
                    except Untranslatable as u:
                        if u.site is None or len(u.site) < 2:
                            u.site = (fn.name, bb, s.text)
                        raise
                    except PathEnd:
                        raise
                    except Inconclusive:
                        raise
                    except Exception as e:
                        raise Untranslatable("interpreter error %s: %s" % (type(e).__name__, e), (fn.name, bb, s.text))
                elif s.kind == "setdiscr":
                    c = self.place_cell(frame, s.place)
                    v = c.v
                    if isinstance(v, Coroutine):
                        v.state = s.val
                    elif isinstance(v, EnumV):
                        v.discr = s.val
                    elif v is None:
                        c.v = EnumV(None, None, s.val, [])
                    else:
                        raise Untranslatable("set discriminant of %s" % type(v).__name__, (fn.name, bb))
                elif s.kind == "unparsed":
                    raise Untranslatable("unparsed MIR: %s" % s.text[:120], (fn.name, bb))
            t = blk.term
            st.steps += 1
            k = t.kind
            if k == "goto":
                bb = t.target
            elif k == "return":
                return frame.local(0).v
            elif k == "switch":
                bb = self.do_switch(frame, t)
            elif k == "call":
                try:
                    ret = self.do_call(frame, t)
                except Untranslatable as u:
                    if u.site is None:
                        u.site = (fn.name, bb, t.text[:160])
                    raise
                if t.target is None:
                    raise Panic("diverging call returned: %s" % t.callee, (fn.name, bb))
                if t.dest is not None:
                    self.place_cell(frame, t.dest).v = ret
                bb = t.target
            elif k == "drop":
                bb = t.target
            elif k == "assert":
                cond = self.eval_operand(frame, t.op)
                ok = cond if t.expected else b_not(cond)
                is_overflow = "overflow" in t.msg
                if is_overflow and not self.overflow_checks:
                    bb = t.target
                    continue
                if self.ctx.branch(ok):
                    bb = t.target
                else:
                    raise Panic("assert: " + t.msg.strip('"'), (fn.name, bb),
                                kind="overflow" if is_overflow else "assert")
            elif k == "unreachable":
                raise Panic("reached `unreachable` terminator", (fn.name, bb), kind="unreachable")
            elif k == "resume":
                raise Panic("resume", (fn.name, bb))
            else:
                raise Untranslatable("terminator %s" % k, (fn.name, bb))

    def do_switch(self, frame, t):
        v = self.eval_operand(frame, t.op)
        if isinstance(v, bool):
            v = Int(1 if v else 0, 8)
        elif z3.is_expr(v) and z3.is_bool(v):
            # switchInt on bool: targets are 0 / otherwise
            for val, bb in t.targets:
                if val == 0:
                    if self.ctx.branch(z3.Not(v)):
                        return bb
                else:
                    if self.ctx.branch(v):
                        return bb
            return t.otherwise
        if not isinstance(v, Int):
            raise Untranslatable("switchInt on %s" % type(v).__name__, (frame.fn.name,))
        if v.concrete:
            uv = v.v & mask(v.bits)
            for val, bb in t.targets:
                if (val & mask(v.bits)) == uv:
                    return bb
            if t.otherwise is None:
                raise Panic("switch without otherwise", (frame.fn.name,))
            return t.otherwise
        for val, bb in t.targets:
            if self.ctx.branch(v.z3() == z3.BitVecVal(val & mask(v.bits), v.bits)):
                return bb
        if t.otherwise is None:
            raise Infeasible()
        return t.otherwise

    # ------------------------------------------------------------------
    # calls
    # ------------------------------------------------------------------
    _re_stdpath = re.compile(r"\b(?:std|core|alloc)::(?:[a-z_0-9]+::)+(?=[A-Z])")

    def normalize(self, callee):
        c = self.norm_cache.get(callee)
        if c is None:
            c = callee.replace("std::io::", "io::")
            c = re.sub(r"\b(?:std|alloc)::(slice|str|num|array)::<impl", r"core::\1::<impl", c)
            c = re.sub(r"(?<![\w:])(slice|str|num|array|bool)::<impl", r"core::\1::<impl", c)
            c = self._re_stdpath.sub("", c)
            self.norm_cache[callee] = c
        return c

    def find_model(self, callee):
        m = self.model_cache.get(callee)
        if m is not None or callee in self.model_cache:
            return m
        found = None
        for rx, f in self.models:
            if rx.search(callee):
                found = f
                break
        self.model_cache[callee] = found
        return found

    def do_call(self, frame, t):
        args = [self.eval_operand(frame, a) for a in t.args]
        if t.callee_place is not None:
            fv = self.eval_operand(frame, t.callee_place)
            return self.call_value(fv, args, frame)
        return self.call_named(t.callee, args, frame)

    _re_ref_cmp = re.compile(r"^<&(?:'[a-z_]+ )?(?:mut )?(.*) as (PartialEq|PartialOrd|Ord)(<&(?:'[a-z_]+ )?(?:mut )?(.*)>)?>::(eq|ne|cmp|partial_cmp|lt|le|gt|ge)$")

    def call_named(self, callee, args, frame=None):
        if frame is not None and frame.generics:
            callee = self.subst_generics(callee, frame.generics)
        callee = self.normalize(callee)
        m = self._re_ref_cmp.match(callee)
        if m and len(args) == 2 and all(isinstance(a, Ref) and isinstance(a.cell.v, Ref) for a in args):
            # std's `impl PartialEq<&B> for &A` forwards to the impl on the referents
            inner = "<%s as %s%s>::%s" % (m.group(1), m.group(2), ("<%s>" % m.group(4)) if m.group(4) and m.group(4) != m.group(1) else "", m.group(5))
            return self.call_named(inner, [a.cell.v for a in args], frame)
        model = self.find_model(callee)
        if model is not None:
            self.stats.calls_modelled[callee] = self.stats.calls_modelled.get(callee, 0) + 1
            try:
                return model(self, self.ctx, args, callee, frame)
            except (AttributeError, TypeError, IndexError, KeyError) as e:
                # a model met a value shape it does not handle: a coverage gap, not a crash of the check
                raise Untranslatable("model for %s cannot handle its arguments (%s: %s)" % (
                    callee.split("::<")[0][:80], type(e).__name__, e))
        fn = self.program.resolve(callee, frame.fn if frame else None)
        if fn is not None:
            g = self.bind_generics(fn, callee)
            if g is None and frame is not None and frame.generics and getattr(fn, "impl_generics", None):
                g = frame.generics
            # the method's own type parameters, bound from the turbofish of the call
            tf = re.search(r"::<([^<>]*(?:<[^<>]*(?:<[^<>]*>[^<>]*)*>[^<>]*)*)>$", callee)
            if tf:
                names = self.program.fn_generics(fn)
                actual = [a.strip() for a in split_top(tf.group(1)) if not a.strip().startswith("'")]
                if names and len(names) == len(actual):
                    g = dict(g or {})
                    for nme, act in zip(names, actual):
                        if act != nme:
                            g[nme] = act
            return self.run_fn(fn, args, g)
        raise Untranslatable("call " + callee)

    def call_value(self, fv, args, frame=None):
        """call a closure / fn item value with already evaluated args"""
        if isinstance(fv, Ref):
            fv = fv.cell.v
        if isinstance(fv, Closure):
            if fv.fn is None:
                raise Untranslatable("closure body not found %s" % fv.span)
            # closure ABI: (_1 = &env / env, then the tupled args spread)
            return self.run_fn(fv.fn, [Ref(Cell(fv))] + list(args), fv.generics)
        if isinstance(fv, FnItem):
            return self.call_named(fv.name, args, frame)
        raise Untranslatable("call of %s" % type(fv).__name__)

    def call_closure(self, fv, args):
        """used by models: args is a python list of values (un-tupled)"""
        if isinstance(fv, Ref) and not isinstance(fv.cell.v, (Closure, FnItem)):
            fv = fv.cell.v
        if isinstance(fv, Ref):
            fv = fv.cell.v
        if isinstance(fv, Closure):
            if fv.fn is None:
                raise Untranslatable("closure body not found %s" % fv.span)
            first = fv.fn.arg_types[0] if fv.fn.arg_types else ""
            env = Ref(Cell(fv)) if first.startswith("&") else fv
            return self.run_fn(fv.fn, [env] + list(args), fv.generics)
        if isinstance(fv, FnItem):
            return self.call_named(fv.name, list(args), None)
        raise Untranslatable("call_closure of %s" % type(fv).__name__)
