"""Sequential stubs for tokio / futures plumbing (channels, spawned tasks, stream adaptors), shared by the
harnesses that execute code which hands results from a spawned task to a stream (C16, the database event log).
No concurrency is modelled: a spawned task runs to completion before the caller continues, a channel is a list.
Importing this module puts the models in front of the generic table."""
import re as _re

from . import models as M
from .models import ok, err, some, none, deref, future, pin_box, run_future
from .engine import Cell, Ref, Agg, Opaque, unit


def model(pattern):
    def deco(f):
        M.MODELS.insert(0, (_re.compile(pattern), f))
        return f
    return deco


TASKS = []      # results of the tasks spawned on the current path (harnesses clear it per path)


# ------------------------------------------------------------------ plumbing stubs (tokio channel / task, stream adaptors)

class ChanV:
    def __init__(self):
        self.items = []

    def clone(self):
        return self


@model(r"^tokio::sync::mpsc::channel::<")
def m_channel(engine, ctx, args, callee, frame):
    ch = ChanV()
    return Agg("tuple", "tuple", [Cell(ch), Cell(ch)])


@model(r"^tokio::sync::mpsc::Sender::<.*>::send$")
def m_send(engine, ctx, args, callee, frame):
    ch = deref(args[0])
    v = args[1]

    def run():
        ch.items.append(v)
        return ok(unit())
    return future(callee, run)


@model(r"^<tokio::sync::mpsc::Sender<.*> as Clone>::clone$")
def m_sender_clone(engine, ctx, args, callee, frame):
    return deref(args[0])


@model(r"^tokio::(task::)?spawn::<")
def m_spawn(engine, ctx, args, callee, frame):
    """the spawned task runs to completion before the caller continues (no concurrency is modelled)"""
    r = run_future(engine, ctx, args[0])
    ctx.__dict__.setdefault("spawned_tasks", []).append(r)
    return Opaque("JoinHandle")


@model(r"^(futures::executor::)?block_on::<")
def m_block_on(engine, ctx, args, callee, frame):
    return run_future(engine, ctx, args[0])


@model(r"ReceiverStream::<.*>::new$")
def m_receiver_stream(engine, ctx, args, callee, frame):
    ch = deref(args[0])
    return M.StreamV(ch.items)


@model(r"StreamExt>::boxed(::<.*>)?$|StreamExt::boxed::<")
def m_boxed(engine, ctx, args, callee, frame):
    return pin_box(M.find_stream(args[0]))


@model(r"TryStreamExt>::try_filter_map(::<.*>)?$|TryStreamExt::try_filter_map::<")
def m_try_filter_map(engine, ctx, args, callee, frame):
    """evaluated eagerly: Err items pass through, Ok(v) goes through the closure's future"""
    st = M.find_stream(args[0])
    clo = args[1]
    out = []
    for it in st.items[st.idx:]:
        if it.variant == "Err":
            out.append(it)
            continue
        fut = engine.call_closure(Ref(Cell(clo)), [it.fields[0].v])
        r = run_future(engine, ctx, fut)
        if r.variant == "Err":
            out.append(r)
        elif r.fields[0].v.variant == "Some":
            out.append(ok(r.fields[0].v.fields[0].v))
    return M.StreamV(out)



@model(r"^tokio::sync::mpsc::Sender::<.*>::is_closed$")
def m_sender_is_closed(engine, ctx, args, callee, frame):
    return False
