"""Rope-structured writer and reader.

A BinaryWriter's output is kept as a list of segments: ('b', [byte exprs]) with a concrete
number of bytes, or ('v', Bytes) — a byte string of *symbolic* length written in one piece.
A decoder that reads the output back normally asks for exactly the pieces the encoder wrote
(`read_u32` -> the four bytes of a length prefix, `read_bytes(n)` -> the blob whose length the
prefix carried), so the reader can hand the same pieces back without any array reasoning and
without forking on lengths.  When a read does not line up with the segments the reader falls
back to concretising the symbolic lengths involved (forking), which is exact but slower.
"""
import z3

from .engine import (Int, Bytes, BoundHit, Infeasible, Untranslatable, int_binop, int_cast, simp_int,
                     bytes_from_ints, to_bool, b_and)
from . import models as M


def seg_len(seg):
    return Int(len(seg[1]), 64) if seg[0] == "b" else seg[1].len


def sum_len(segs):
    total = Int(0, 64)
    for s in segs:
        total = int_binop("Add", total, seg_len(s))
    return total


class RopeWriter:
    def __init__(self, max_buffer=M.MAX_BUFFER):
        self.segs = []
        self.cur = 0              # index of the segment boundary where the next write lands
        self.max_buffer = max_buffer
        self.marks = {}           # id of a returned position expression -> boundary index

    def clone(self):
        return self

    # -- interface used by the BinaryWriter models
    def position(self):
        p = sum_len(self.segs[:self.cur])
        if not p.concrete:
            self.marks[p.v.get_id()] = (self.cur, p)
        return p

    def total_len(self):
        return sum_len(self.segs)

    def put(self, ctx, items):
        items = list(items)
        if self.cur == len(self.segs):
            self.segs.append(("b", items))
            self.cur += 1
            return
        # overwrite mode (after a seek back): must line up with concrete segments
        k = len(items)
        i = self.cur
        off = 0
        while off < k:
            if i >= len(self.segs):
                self.segs.append(("b", items[off:]))
                i += 1
                off = k
                break
            seg = self.segs[i]
            if seg[0] != "b":
                raise Untranslatable("overwrite across a symbolic-length segment")
            n = len(seg[1])
            take = min(n, k - off)
            if take < n:
                # partial overwrite: split
                self.segs[i] = ("b", items[off:off + take] + seg[1][take:])
                self.segs.insert(i + 1, ("b", []))     # keeps boundary arithmetic simple
                raise Untranslatable("partial overwrite of a segment")
            self.segs[i] = ("b", items[off:off + take])
            off += take
            i += 1
        self.cur = i

    def put_bytes(self, engine, ctx, b):
        if b.len.concrete:
            self.put(ctx, [b.byte(i) for i in range(b.len.v)])
            return b.len
        if self.cur != len(self.segs):
            raise Untranslatable("overwrite with a symbolic-length byte string")
        self.segs.append(("v", b))
        self.cur += 1
        return b.len

    def seek(self, ctx, to):
        if to.variant != "Start":
            if to.variant == "End" and isinstance(to.fields[0].v, Int) and to.fields[0].v.concrete and to.fields[0].v.v == 0:
                self.cur = len(self.segs)
                return M.ok(self.total_len())
            raise Untranslatable("writer seek %s" % to.variant)
        p = to.fields[0].v
        if not p.concrete and p.v.get_id() in self.marks:
            self.cur = self.marks[p.v.get_id()][0]
            return M.ok(p)
        # search the boundary whose offset provably equals p
        for k in range(len(self.segs) + 1):
            off = sum_len(self.segs[:k])
            if ctx.must(int_binop("Eq", off, p)):
                self.cur = k
                return M.ok(p)
        raise Untranslatable("writer seek to a position that is not a segment boundary")

    def reader(self):
        return RopeReader(self.segs)

    def flat_bytes(self, ctx, limit=4096):
        """all bytes as a python list of Int(8) (concretises symbolic lengths)"""
        out = []
        for s in self.segs:
            if s[0] == "b":
                out.extend(s[1])
            else:
                n = ctx.concretize(s[1].len, 64, "segment length")
                out.extend(s[1].byte(i) for i in range(n))
        return out


class RopeReader:
    """BinaryReader over the output of a RopeWriter"""

    def __init__(self, segs, max_buffer=M.MAX_BUFFER):
        self.segs = [s for s in segs if not (s[0] == "b" and not s[1])]
        self.cur = 0
        self.off = 0          # offset inside a 'b' segment
        self.max_buffer = max_buffer
        self.misaligned = 0

    def clone(self):
        return self

    def position(self):
        return int_binop("Add", sum_len(self.segs[:self.cur]), Int(self.off, 64))

    def total_len(self):
        return sum_len(self.segs)

    def at_end(self):
        return self.cur >= len(self.segs)

    def _concretize_here(self, ctx):
        """turn the symbolic-length segment at `cur` into a concrete one (forks on its length)"""
        s = self.segs[self.cur]
        n = ctx.concretize(s[1].len, 64, "segment length (misaligned read)")
        self.misaligned += 1
        self.segs[self.cur] = ("b", [s[1].byte(i) for i in range(n)])
        if n == 0:
            del self.segs[self.cur]

    def read_exact(self, ctx, k):
        out = []
        while len(out) < k:
            if self.at_end():
                return None
            s = self.segs[self.cur]
            if s[0] == "v":
                self._concretize_here(ctx)
                continue
            avail = len(s[1]) - self.off
            take = min(avail, k - len(out))
            out.extend(s[1][self.off:self.off + take])
            self.off += take
            if self.off == len(s[1]):
                self.cur += 1
                self.off = 0
        return out

    def read_view(self, ctx, length):
        # aligned with a symbolic-length segment whose length provably equals the request
        if not self.at_end() and self.off == 0 and self.segs[self.cur][0] == "v":
            b = self.segs[self.cur][1]
            if ctx.must(int_binop("Eq", b.len, length)):
                self.cur += 1
                return b
        n = ctx.concretize(length, 64, "read length")
        bs = self.read_exact(ctx, n)
        if bs is None:
            return None
        return bytes_from_ints(bs)

    def seek(self, ctx, to):
        raise Untranslatable("seek on a rope reader")
