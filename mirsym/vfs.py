"""Model of the file API the file-system backend uses (sos_vfs = tokio::fs on native targets,
async_fd_lock guards, PathBuf): a path-indexed store of byte arrays.

Files are z3 arrays with a length; handles carry a position and the open flags (append mode
writes at the end).  Every *mutating* file operation is also counted as one "step" of the
enclosing operation: a harness can ask for a crash after step k, in which case the k-th
mutation is not performed and the path ends — the store then holds what a process that died
there would leave behind (writes are modelled as atomic; torn writes are a separate, explicit
cut of the appended region).
"""
import re
import z3

from .engine import (Int, Agg, EnumV, Ref, Cell, Bytes, VecV, Opaque, Panic, Untranslatable, PathEnd,
                     int_binop, int_cast, simp_int, to_bool, b_and, b_or, b_not, bz3, unit, deep_copy,
                     bytes_from_concrete, bytes_from_ints)
from . import models as M
from .models import model, ok, err, some, none, deref, deref_cell, future, io_error


class Crash(PathEnd):
    """the process dies before performing the k-th mutating file operation"""
    pass


class FileData:
    def __init__(self, arr=None, length=None):
        self.arr = arr if arr is not None else z3.K(z3.BitVecSort(64), z3.BitVecVal(0, 8))
        self.length = length if length is not None else Int(0, 64)

    def copy(self):
        return FileData(self.arr, self.length)


class Vfs:
    def __init__(self):
        self.files = {}          # path name -> FileData
        self.steps = 0           # mutating operations performed so far
        self.crash_at = None     # die instead of performing mutation number `crash_at` (0-based)
        self.log = []

    def mutate(self, what):
        if self.crash_at is not None and self.steps == self.crash_at:
            self.log.append("CRASH before " + what)
            raise Crash(what)
        self.steps += 1
        self.log.append(what)


def vfs_of(ctx):
    v = getattr(ctx, "vfs", None)
    if v is None:
        raise Untranslatable("file operation without a vfs in the harness")
    return v


class PathV:
    def __init__(self, name):
        self.name = name

    def clone(self):
        return PathV(self.name)

    def __repr__(self):
        return "Path(%s)" % self.name


def path_name(v):
    v = deref(v)
    if isinstance(v, PathV):
        return v.name
    raise Untranslatable("path value is %s" % type(v).__name__)


class OpenOpts:
    def __init__(self):
        self.read = self.write = self.append = self.truncate = self.create = False

    def clone(self):
        o = OpenOpts()
        o.__dict__.update(self.__dict__)
        return o


class FileH:
    """an open file: reader/writer interface over the FileData of its path"""

    def __init__(self, vfs, name, data, append=False, writable=False):
        self.vfs = vfs
        self.name = name
        self.data = data
        self.pos = Int(0, 64)
        self.append = append
        self.writable = writable
        self.max_buffer = M.MAX_BUFFER
        self.no_eof = False

    def clone(self):
        return self

    # ---- reader interface (BinaryReader::new(&mut file) returns the handle itself)
    @property
    def arr(self):
        return self.data.arr

    @property
    def length(self):
        return self.data.length

    def remaining_ok(self, n):
        p, l = self.pos, self.data.length
        return b_and(int_binop("Le", p, l), int_binop("Le", n, int_binop("Sub", l, p)))

    def read_exact(self, ctx, n):
        nn = Int(n, 64)
        if ctx.branch(self.remaining_ok(nn)):
            out = [simp_int(z3.Select(self.data.arr, int_binop("Add", self.pos, Int(i, 64)).z3()), 8, False) for i in range(n)]
            self.pos = int_binop("Add", self.pos, nn)
            return out
        if ctx.branch(int_binop("Lt", self.pos, self.data.length)):
            self.pos = self.data.length
        return None

    def read_view(self, ctx, length):
        if ctx.branch(self.remaining_ok(length)):
            b = Bytes(self.data.arr, self.pos, length)
            self.pos = int_binop("Add", self.pos, length)
            return b
        if ctx.branch(int_binop("Lt", self.pos, self.data.length)):
            self.pos = self.data.length
        return None

    def position(self):
        return self.pos

    def total_len(self):
        return self.data.length

    def seek(self, ctx, to):
        return M.do_seek(ctx, self, to)

    # ---- writing
    def write_all(self, ctx, b):
        n = ctx.concretize(b.len, 4096, "write_all length")
        at = self.data.length if self.append else self.pos
        arr = self.data.arr
        if getattr(self.vfs, "tear", False) and n > 1:
            # torn write: only the first `cut` bytes (0 < cut < n, symbolic) reach the file, then the process dies
            cut = z3.BitVec("torn_cut", 64)
            ctx.add(z3.And(z3.UGT(cut, 0), z3.ULT(cut, n)))
            for i in range(n):
                arr = z3.Store(arr, int_binop("Add", at, Int(i, 64)).z3(), b.byte(i).z3())
            self.data.arr = arr
            self.data.length = int_binop("Add", at, Int(cut, 64))
            self.vfs.torn = (cut, n)
            self.vfs.log.append("TORN write of %d bytes to %s" % (n, self.name))
            raise Crash("torn write")
        for i in range(n):
            arr = z3.Store(arr, int_binop("Add", at, Int(i, 64)).z3(), b.byte(i).z3())
        end = int_binop("Add", at, Int(n, 64))
        self.vfs.mutate("write %d bytes to %s" % (n, self.name))
        self.data.arr = arr
        if ctx.branch(int_binop("Gt", end, self.data.length)):
            self.data.length = end
        self.pos = end


class GuardV:
    """async_fd_lock guard: derefs to the file"""

    def __init__(self, fh):
        self.fh = fh

    def clone(self):
        return self


def handle_of(v):
    o = deref(v)
    if isinstance(o, GuardV):
        return o.fh
    if isinstance(o, FileH):
        return o
    raise Untranslatable("file handle is %s" % type(o).__name__)


# ------------------------------------------------------------------ paths

@model(r"^(std::path::)?Path::to_path_buf$|^<(std::path::)?PathBuf as Clone>::clone$|^<(std::path::)?PathBuf as (std::ops::)?Deref>::deref$|as AsRef<(std::path::)?Path>>::as_ref$|^<(std::path::)?PathBuf as (std::borrow::)?Borrow<Path>>::borrow$|^(std::path::)?PathBuf::as_path$")
def m_path_identity(engine, ctx, args, callee, frame):
    v = args[0]
    if callee.endswith("clone") or callee.endswith("to_path_buf"):
        return PathV(path_name(v))
    if isinstance(v, Ref):
        return v
    return Ref(Cell(v))


@model(r"^(std::path::)?Path::display$")
def m_path_display(engine, ctx, args, callee, frame):
    return Opaque("path::Display")


@model(r"^(std::path::)?PathBuf::set_extension::<")
def m_set_extension(engine, ctx, args, callee, frame):
    cell = deref_cell(args[0])
    p = cell.v
    base = p.name.rsplit(".", 1)[0] if "." in p.name else p.name
    cell.v = PathV(base + ".snapshot")
    return True


# ------------------------------------------------------------------ open / metadata / whole-file operations

@model(r"^(sos_vfs|tokio::fs)::OpenOptions::new$")
def m_oo_new(engine, ctx, args, callee, frame):
    return OpenOpts()


@model(r"^(sos_vfs|tokio::fs)::OpenOptions::(read|write|append|truncate|create|create_new)$")
def m_oo_flag(engine, ctx, args, callee, frame):
    o = deref(args[0])
    name = callee.split("::")[-1]
    val = args[1]
    if not isinstance(val, bool):
        val = ctx.branch(val)
    setattr(o, "create" if name == "create_new" else name, val)
    return args[0]


def open_file(ctx, name, opts):
    vfs = vfs_of(ctx)
    data = vfs.files.get(name)
    if data is None:
        if not opts.create:
            return err(io_error("NotFound", name))
        vfs.mutate("create %s" % name)
        data = FileData()
        vfs.files[name] = data
    if opts.truncate and opts.write:
        if not (data.length.concrete and data.length.v == 0):
            vfs.mutate("truncate %s to 0 (open)" % name)
            data.length = Int(0, 64)
    return ok(FileH(vfs, name, data, append=opts.append, writable=opts.write or opts.append))


@model(r"^(sos_vfs|tokio::fs)::OpenOptions::open::<")
def m_oo_open(engine, ctx, args, callee, frame):
    o = deref(args[0]).clone()
    name = path_name(args[1])
    return future(callee, lambda: open_file(ctx, name, o))


@model(r"^(sos_vfs|tokio::fs)::File::open::<")
def m_file_open(engine, ctx, args, callee, frame):
    name = path_name(args[0])
    o = OpenOpts()
    o.read = True
    return future(callee, lambda: open_file(ctx, name, o))


@model(r"^(sos_vfs|tokio::fs)::read::<")
def m_fs_read(engine, ctx, args, callee, frame):
    """read the whole file into a Vec<u8>"""
    name = path_name(args[0])

    def run():
        d = vfs_of(ctx).files.get(name)
        if d is None:
            return err(io_error("NotFound", name))
        return ok(M.Bytes(d.arr, Int(0, 64), d.length))
    return future(callee, run)


@model(r"^(sos_vfs|tokio::fs)::write::<")
def m_fs_write(engine, ctx, args, callee, frame):
    """create or truncate, then write the whole buffer (two file operations: a crash between them leaves an
    empty file)"""
    name = path_name(args[0])
    buf = M.as_bytes(engine, args[1])

    def run():
        o = OpenOpts()
        o.write = True
        o.create = True
        o.truncate = True
        r = open_file(ctx, name, o)
        if r.variant != "Ok":
            return r
        h = r.fields[0].v
        h.write_all(ctx, buf)
        return ok(unit())
    return future(callee, run)


class MetaV:
    def __init__(self, length):
        self.length = length

    def clone(self):
        return self


@model(r"^(sos_vfs|tokio::fs)::metadata::<")
def m_metadata(engine, ctx, args, callee, frame):
    name = path_name(args[0])

    def run():
        d = vfs_of(ctx).files.get(name)
        if d is None:
            return err(io_error("NotFound", name))
        return ok(MetaV(d.length))
    return future(callee, run)


@model(r"^(sos_vfs|tokio::fs)::File::metadata$")
def m_file_metadata(engine, ctx, args, callee, frame):
    h = deref(args[0])
    return future(callee, lambda: ok(MetaV(h.data.length)))


@model(r"^(std::fs::)?Metadata::len$")
def m_metadata_len(engine, ctx, args, callee, frame):
    return deref(args[0]).length


@model(r"^(sos_vfs|tokio::fs)::try_exists::<")
def m_try_exists(engine, ctx, args, callee, frame):
    name = path_name(args[0])
    return future(callee, lambda: ok(name in vfs_of(ctx).files))


@model(r"^(sos_vfs|tokio::fs)::copy::<")
def m_copy(engine, ctx, args, callee, frame):
    src, dst = path_name(args[0]), path_name(args[1])

    def run():
        vfs = vfs_of(ctx)
        d = vfs.files.get(src)
        if d is None:
            return err(io_error("NotFound", src))
        vfs.mutate("copy %s -> %s" % (src, dst))
        vfs.files[dst] = d.copy()
        return ok(d.length)
    return future(callee, run)


@model(r"^(sos_vfs|tokio::fs)::remove_file::<")
def m_remove_file(engine, ctx, args, callee, frame):
    name = path_name(args[0])

    def run():
        vfs = vfs_of(ctx)
        if name not in vfs.files:
            return err(io_error("NotFound", name))
        vfs.mutate("remove %s" % name)
        del vfs.files[name]
        return ok(unit())
    return future(callee, run)


@model(r"^(sos_vfs|tokio::fs)::rename::<")
def m_rename(engine, ctx, args, callee, frame):
    src, dst = path_name(args[0]), path_name(args[1])

    def run():
        vfs = vfs_of(ctx)
        if src not in vfs.files:
            return err(io_error("NotFound", src))
        vfs.mutate("rename %s -> %s" % (src, dst))
        vfs.files[dst] = vfs.files.pop(src)
        return ok(unit())
    return future(callee, run)


@model(r"^(sos_vfs|tokio::fs)::File::set_len$")
def m_set_len(engine, ctx, args, callee, frame):
    fh = handle_of(args[0])
    n = args[1]

    def run():
        fh.vfs.mutate("set_len %s" % fh.name)
        fh.data.length = n
        return ok(unit())
    return future(callee, run)


# ------------------------------------------------------------------ advisory locks

@model(r"as async_fd_lock::Lock(Write|Read)>::lock_(write|read)(::<.*>)?$")
def m_lock(engine, ctx, args, callee, frame):
    fh = handle_of(args[0])
    return M.pin_box(future(callee, lambda: ok(GuardV(fh)))) if False else future(callee, lambda: ok(GuardV(fh)))


@model(r"^async_fd_lock::RwLock(Write|Read)Guard::<.*>::(inner_mut|inner)$|^<async_fd_lock::RwLock(Write|Read)Guard<.*> as (std::ops::)?Deref(Mut)?>::deref(_mut)?$")
def m_guard_inner(engine, ctx, args, callee, frame):
    g = deref(args[0])
    return Ref(Cell(g.fh))


# ------------------------------------------------------------------ tokio AsyncWriteExt / AsyncReadExt / AsyncSeekExt on files and guards

@model(r"as (tokio::io::)?AsyncWriteExt>::write_all(::<.*>)?$")
def m_write_all(engine, ctx, args, callee, frame):
    fh = handle_of(args[0])
    b = M.as_bytes(engine, args[1])

    def run():
        fh.write_all(ctx, b)
        return ok(unit())
    return future(callee, run)


@model(r"as (tokio::io::)?AsyncWriteExt>::flush(::<.*>)?$")
def m_flush(engine, ctx, args, callee, frame):
    return future(callee, lambda: ok(unit()))


@model(r"as (tokio::io::)?AsyncSeekExt>::seek(::<.*>)?$")
def m_file_seek(engine, ctx, args, callee, frame):
    fh = handle_of(args[0])
    to = args[1]
    return future(callee, lambda: fh.seek(ctx, to))


@model(r"as (tokio::io::)?AsyncReadExt>::read_exact(::<.*>)?$")
def m_file_read_exact(engine, ctx, args, callee, frame):
    fh = handle_of(args[0])
    buf = args[1]

    def run():
        cell = deref_cell(buf)
        cur = M.as_bytes(engine, cell.v if not (isinstance(buf, Ref) and buf.window is not None) else buf)
        b = fh.read_view(ctx, cur.len)
        if b is None:
            return err(io_error("UnexpectedEof"))
        cell.v = b
        return ok(cur.len)
    return future(callee, run)


@model(r"^(std::vec::)?from_elem::<u8>$")
def m_from_elem_u8(engine, ctx, args, callee, frame):
    fill, n = args
    if not (fill.concrete and fill.v == 0):
        raise Untranslatable("vec![x; n] with non-zero fill")
    ctx.note("alloc", size=n, what="vec![0; n]", site=frame.fn.name if frame else None)
    zero = z3.K(z3.BitVecSort(64), z3.BitVecVal(0, 8))
    return Bytes(zero, Int(0, 64), n)


@model(r"^(sos_core::events::)?changes_feed(::<.*>)?$|^tokio::sync::watch::Sender::<.*>::send_replace$")
def m_changes_feed(engine, ctx, args, callee, frame):
    return Ref(Cell(Opaque("changes_feed")))


# ------------------------------------------------------------------ trait objects: Box<dyn FormatStreamIterator<T>>

@model(r"^<dyn (formats::stream::|sos_filesystem::formats::)?FormatStreamIterator<(.*)> \+ .* as .*FormatStreamIterator<.*>>::next(::<.*>)?$")
def m_dyn_stream_next(engine, ctx, args, callee, frame):
    ty = re.search(r"FormatStreamIterator<([^>]*)>", callee).group(1)
    return engine.call_named("<FormatStream<%s, File> as FormatStreamIterator<%s>>::next::<'_, '_>" % (ty, ty), args, frame)
