"""Environment models: everything that is not repository code.

Each model is `f(engine, ctx, args, callee, frame) -> value`.  The table is searched
in order; the first regex that matches the printed callee wins.  Every entry is part
of the trusted base and is listed in the evidence (`stubs`).
"""
import re
import z3

from .engine import (Int, Agg, EnumV, Ref, Cell, Bytes, VecV, Opaque, FnItem, Closure,
                     Coroutine, ModelFuture, Panic, Untranslatable, BoundHit, Infeasible,
                     int_binop, int_cast, simp_int, to_bool, b_and, b_or, b_not, bz3, unit,
                     deep_copy, bytes_from_concrete, bytes_from_ints, int_type, last_ident,
                     strip_generics, mask, norm, overflow_flag)

MODELS = []
MAX_BUFFER = 16 * 1024 * 1024


GENERIC = []


def model(pattern, generic=False):
    """generic=True: catch-all patterns, consulted after every specific model"""
    def deco(f):
        (GENERIC if generic else MODELS).append((re.compile(pattern), f))
        return f
    return deco


# ------------------------------------------------------------------ helpers

def ok(v):
    return EnumV("Result", "Ok", 0, [Cell(v)])


def err(e):
    return EnumV("Result", "Err", 1, [Cell(e)])


def some(v):
    return EnumV("Option", "Some", 1, [Cell(v)])


def none():
    return EnumV("Option", "None", 0, [])


def ready(v):
    return EnumV("Poll", "Ready", 0, [Cell(v)])


def io_error(kind, msg=None):
    return Opaque("io::Error", (kind, msg))


def deref(v):
    while isinstance(v, Ref):
        if v.window is not None:
            return v
        v = v.cell.v
    return v


def deref_cell(v):
    """value that is a (possibly nested) reference -> the Cell holding the object"""
    cell = None
    while isinstance(v, Ref):
        cell = v.cell
        v = cell.v
    return cell


def as_bytes(engine, v):
    """any byte-sequence-like value -> Bytes"""
    if isinstance(v, Ref) and v.window is not None:
        v = engine.apply_window(v)
    v = deref(v)
    if isinstance(v, Bytes):
        return v
    if isinstance(v, Agg) and v.kind == "array":
        return bytes_from_ints([c.v for c in v.fields])
    if isinstance(v, VecV):
        return bytes_from_ints([c.v for c in v.items])
    if isinstance(v, Agg) and len(v.fields) == 1:
        # newtype around bytes (CommitHash, Uuid, ...)
        return as_bytes(engine, v.fields[0].v)
    if isinstance(v, Opaque) and isinstance(v.payload, Bytes):
        # value of an external text format: its text form is the string it was parsed from (assumption)
        return v.payload
    if getattr(v, "hash_term", False) and v.kind == "data" and engine is not None and getattr(getattr(engine, "ctx", None), "sha_bytes", False):
        # the 32 bytes of an ideal SHA-256 value (opt-in harnesses): slices of its 256-bit variable
        from .merkle import sha_bv
        h = sha_bv(engine.ctx, v.a)
        return bytes_from_ints([simp_int(z3.Extract(255 - 8 * i, 248 - 8 * i, h), 8, False) for i in range(32)])
    raise Untranslatable("as_bytes of %s" % type(v).__name__)


def is_result_ok(v):
    return isinstance(v, EnumV) and v.variant == "Ok"


# ------------------------------------------------------------------ reader / writer objects

class ReaderV:
    """model of BinaryReader<R> over an in-memory buffer (Cursor semantics)"""

    def __init__(self, arr, length, max_buffer=MAX_BUFFER, no_eof=False):
        self.arr = arr
        self.length = length          # Int 64
        self.pos = Int(0, 64)
        self.max_buffer = max_buffer
        self.reads = 0
        self.no_eof = no_eof          # round-trip mode: the input is as long as the decoder wants

    def clone(self):
        return self

    def remaining_ok(self, n):
        """z3 condition: n bytes available at pos"""
        if self.no_eof:
            return True
        p, l = self.pos, self.length
        c1 = int_binop("Le", p, l)
        rem = int_binop("Sub", l, p)
        c2 = int_binop("Le", n, rem)
        return b_and(c1, c2)

    def read_exact(self, ctx, n):
        """n python int -> list of Int(8) or None on EOF"""
        nn = Int(n, 64)
        if ctx.branch(self.remaining_ok(nn)):
            out = []
            for i in range(n):
                idx = int_binop("Add", self.pos, Int(i, 64))
                out.append(simp_int(z3.Select(self.arr, idx.z3()), 8, False))
            self.pos = int_binop("Add", self.pos, nn)
            self.reads += 1
            return out
        # partial read consumes what is there
        if ctx.branch(int_binop("Lt", self.pos, self.length)):
            self.pos = self.length
        return None

    def read_view(self, ctx, length):
        """length: Int(64) possibly symbolic -> Bytes or None on EOF"""
        if self.no_eof and not length.concrete:
            # round-trip mode: variable-length fields are bounded by `field_max` bytes each
            ctx.assume(int_binop("Le", length, Int(getattr(ctx.engine, "field_max", 64), 64)))
        if ctx.branch(self.remaining_ok(length)):
            b = Bytes(self.arr, self.pos, length)
            self.pos = int_binop("Add", self.pos, length)
            return b
        if ctx.branch(int_binop("Lt", self.pos, self.length)):
            self.pos = self.length
        return None

    def position(self):
        return self.pos

    def total_len(self):
        return self.length

    def seek(self, ctx, to):
        return do_seek(ctx, self, to)


class WriterV:
    """model of BinaryWriter<W> over Cursor<&mut Vec<u8>>"""

    def __init__(self, max_buffer=MAX_BUFFER):
        self.arr = z3.K(z3.BitVecSort(64), z3.BitVecVal(0, 8))
        self.length = Int(0, 64)
        self.pos = Int(0, 64)
        self.max_buffer = max_buffer

    def clone(self):
        return self

    def put(self, ctx, items):
        for i, b in enumerate(items):
            idx = int_binop("Add", self.pos, Int(i, 64))
            self.arr = z3.Store(self.arr, idx.z3(), b.z3())
        self.pos = int_binop("Add", self.pos, Int(len(items), 64))
        if self.pos.concrete and self.length.concrete:
            if self.pos.v > self.length.v:
                self.length = self.pos
        else:
            gt = int_binop("Gt", self.pos, self.length)
            if ctx.branch(gt):
                self.length = self.pos

    def bytes(self):
        return Bytes(self.arr, Int(0, 64), self.length)

    def put_bytes(self, engine, ctx, b):
        return write_seq(engine, ctx, self, b)

    def position(self):
        return self.pos

    def total_len(self):
        return self.length

    def seek(self, ctx, to):
        return do_seek(ctx, self, to)


def le_bytes(v, nbytes):
    """Int -> list of Int(8), little endian"""
    out = []
    if v.concrete:
        x = v.v & mask(v.bits)
        for i in range(nbytes):
            out.append(Int((x >> (8 * i)) & 0xFF, 8))
    else:
        for i in range(nbytes):
            out.append(simp_int(z3.Extract(8 * i + 7, 8 * i, v.z3()), 8, False))
    return out


def from_le(items, bits, signed):
    if all(b.concrete for b in items):
        x = 0
        for i, b in enumerate(items):
            x |= (b.v & 0xFF) << (8 * i)
        return Int(x, bits, signed)
    e = z3.Concat(*[b.z3() for b in reversed(items)]) if len(items) > 1 else items[0].z3()
    return simp_int(e, bits, signed)


def future(name, thunk):
    return ModelFuture(name, thunk)


def get_reader(v):
    o = deref(v)
    if not hasattr(o, "read_exact"):
        raise Untranslatable("reader is %s" % type(o).__name__)
    return o


def get_writer(v):
    o = deref(v)
    if not hasattr(o, "put_bytes"):
        raise Untranslatable("writer is %s" % type(o).__name__)
    return o


_READ_INTS = {"u8": (1, 8, False), "u16": (2, 16, False), "u32": (4, 32, False), "u64": (8, 64, False),
              "u128": (16, 128, False), "usize": (8, 64, False), "i8": (1, 8, True), "i16": (2, 16, True),
              "i32": (4, 32, True), "i64": (8, 64, True), "i128": (16, 128, True), "isize": (8, 64, True)}


@model(r"BinaryReader::<.*>::read_([ui](?:8|16|32|64|128|size))$")
def m_read_int(engine, ctx, args, callee, frame):
    kind = re.search(r"read_([ui](?:8|16|32|64|128|size))$", callee).group(1)
    n, bits, signed = _READ_INTS[kind]
    rd = get_reader(args[0])

    def run():
        bs = rd.read_exact(ctx, n)
        if bs is None:
            return err(io_error("UnexpectedEof"))
        return ok(from_le(bs, bits, signed))
    return future(callee, run)


@model(r"BinaryReader::<.*>::read_bool$")
def m_read_bool(engine, ctx, args, callee, frame):
    rd = get_reader(args[0])

    def run():
        bs = rd.read_exact(ctx, 1)
        if bs is None:
            return err(io_error("UnexpectedEof"))
        return ok(int_binop("Gt", bs[0], Int(0, 8)))
    return future(callee, run)


def guard_size(ctx, rd, length):
    """returns True if the guard rejects"""
    if rd.max_buffer is None:
        return False
    return ctx.branch(int_binop("Gt", length, Int(rd.max_buffer, 64)))


def read_vec(ctx, rd, length):
    """length: Int(64).  Models `vec![0; length]; read_exact`"""
    if guard_size(ctx, rd, length):
        return err(io_error("Other", "length exceeds max buffer size"))
    ctx.note("alloc", size=length, pos=rd.position(), total=rd.total_len(), what="read buffer")
    b = rd.read_view(ctx, length)
    if b is None:
        return err(io_error("UnexpectedEof"))
    return ok(b)


@model(r"BinaryReader::<.*>::read_bytes$")
def m_read_bytes(engine, ctx, args, callee, frame):
    rd = get_reader(args[0])
    length = args[1]
    return future(callee, lambda: read_vec(ctx, rd, length))


import os as _os
UTF8_LIMIT = int(_os.environ.get("MIRSYM_UTF8_LIMIT", "12"))
_FORMULA_CACHE = {}


def utf8_valid_formula(bs):
    """exact UTF-8 validity of a concrete-length list of Int(8) as a z3 Bool (DFA unrolled)"""
    n = len(bs)
    z = [b.z3() for b in bs]

    def rng(x, lo, hi):
        return z3.And(z3.UGE(x, lo), z3.ULE(x, hi))
    # valid[i] = bytes i.. form valid utf8
    valid = [None] * (n + 1)
    valid[n] = z3.BoolVal(True)
    for i in range(n - 1, -1, -1):
        opts = [z3.And(z3.ULE(z[i], 0x7F), valid[i + 1])]
        if i + 1 < n:
            opts.append(z3.And(rng(z[i], 0xC2, 0xDF), rng(z[i + 1], 0x80, 0xBF), valid[i + 2]))
        if i + 2 < n:
            c2 = rng(z[i + 2], 0x80, 0xBF)
            opts.append(z3.And(z[i] == 0xE0, rng(z[i + 1], 0xA0, 0xBF), c2, valid[i + 3]))
            opts.append(z3.And(z3.Or(rng(z[i], 0xE1, 0xEC), rng(z[i], 0xEE, 0xEF)), rng(z[i + 1], 0x80, 0xBF), c2, valid[i + 3]))
            opts.append(z3.And(z[i] == 0xED, rng(z[i + 1], 0x80, 0x9F), c2, valid[i + 3]))
        if i + 3 < n:
            c2 = rng(z[i + 2], 0x80, 0xBF)
            c3 = rng(z[i + 3], 0x80, 0xBF)
            opts.append(z3.And(z[i] == 0xF0, rng(z[i + 1], 0x90, 0xBF), c2, c3, valid[i + 4]))
            opts.append(z3.And(rng(z[i], 0xF1, 0xF3), rng(z[i + 1], 0x80, 0xBF), c2, c3, valid[i + 4]))
            opts.append(z3.And(z[i] == 0xF4, rng(z[i + 1], 0x80, 0x8F), c2, c3, valid[i + 4]))
        valid[i] = z3.Or(*opts)
    return to_bool(valid[0])


def utf8_valid_formula_symlen(b, limit):
    """exact UTF-8 validity of Bytes b whose symbolic length is known to be <= limit (no forking)"""
    n = b.len.z3()
    z = [b.byte(i).z3() for i in range(limit)]

    def rng(x, lo, hi):
        return z3.And(z3.UGE(x, lo), z3.ULE(x, hi))

    def has(i, k):      # bytes i .. i+k-1 exist
        return z3.ULE(z3.BitVecVal(i + k, 64), n)
    valid = [None] * (limit + 5)
    for j in range(limit, limit + 5):
        valid[j] = z3.BoolVal(True)
    for i in range(limit - 1, -1, -1):
        opts = [z3.And(z3.ULE(z[i], 0x7F), valid[i + 1])]
        if i + 1 < limit:
            opts.append(z3.And(has(i, 2), rng(z[i], 0xC2, 0xDF), rng(z[i + 1], 0x80, 0xBF), valid[i + 2]))
        if i + 2 < limit:
            c2 = rng(z[i + 2], 0x80, 0xBF)
            opts.append(z3.And(has(i, 3), z[i] == 0xE0, rng(z[i + 1], 0xA0, 0xBF), c2, valid[i + 3]))
            opts.append(z3.And(has(i, 3), z3.Or(rng(z[i], 0xE1, 0xEC), rng(z[i], 0xEE, 0xEF)), rng(z[i + 1], 0x80, 0xBF), c2, valid[i + 3]))
            opts.append(z3.And(has(i, 3), z[i] == 0xED, rng(z[i + 1], 0x80, 0x9F), c2, valid[i + 3]))
        if i + 3 < limit:
            c2 = rng(z[i + 2], 0x80, 0xBF)
            c3 = rng(z[i + 3], 0x80, 0xBF)
            opts.append(z3.And(has(i, 4), z[i] == 0xF0, rng(z[i + 1], 0x90, 0xBF), c2, c3, valid[i + 4]))
            opts.append(z3.And(has(i, 4), rng(z[i], 0xF1, 0xF3), rng(z[i + 1], 0x80, 0xBF), c2, c3, valid[i + 4]))
            opts.append(z3.And(has(i, 4), z[i] == 0xF4, rng(z[i + 1], 0x80, 0x8F), c2, c3, valid[i + 4]))
        valid[i] = z3.Or(z3.ULE(n, z3.BitVecVal(i, 64)), z3.Or(*opts))
    return to_bool(valid[0])


def utf8_check(engine, ctx, b):
    """branch on UTF-8 validity of Bytes b; returns bool"""
    if b.utf8:
        return True
    if b.len.concrete:
        n = b.len.v
    else:
        # exact for short strings (symbolic length, no forking on it)
        if ctx.branch(int_binop("Le", b.len, Int(UTF8_LIMIT, 64))):
            key = ("utf8", b.arr.get_id(), b.off.v if b.off.concrete else b.off.v.get_id(), b.len.v.get_id())
            f = _FORMULA_CACHE.get(key)
            if f is None:
                f = utf8_valid_formula_symlen(b, UTF8_LIMIT)
                _FORMULA_CACHE[key] = (f, b)      # keep b alive so the ids stay unique
            else:
                f = f[0]
            return ctx.branch(f)
        else:
            # longer strings: explore one definitely-valid class (all ASCII) and one definitely-invalid
            # class (first byte 0xFF); both are real inputs, multi-byte text beyond the limit is not explored
            ctx.note("approx", what="strings longer than %d bytes: only all-ASCII (valid) and 0xFF-led (invalid) explored" % UTF8_LIMIT)
            scan = getattr(engine, "max_input", 256)
            if ctx.branch(ctx.fresh_bool("utf8")):
                key = ("ascii", scan, b.arr.get_id(), b.off.v if b.off.concrete else b.off.v.get_id(), b.len.v.get_id())
                f = _FORMULA_CACHE.get(key)
                if f is None:
                    f = z3.And(*[z3.Implies(z3.ULT(z3.BitVecVal(i, 64), b.len.z3()), z3.ULT(b.byte(i).z3(), 0x80)) for i in range(scan)])
                    _FORMULA_CACHE[key] = (f, b)
                else:
                    f = f[0]
                ctx.assume(f)
                return True
            ctx.assume(b.byte(0).z3() == 0xFF)
            return False
    if n > 64:
        return ctx.branch(ctx.fresh_bool("utf8"))
    bs = [b.byte(i) for i in range(n)]
    return ctx.branch(utf8_valid_formula(bs))


@model(r"BinaryReader::<.*>::read_string$")
def m_read_string(engine, ctx, args, callee, frame):
    rd = get_reader(args[0])

    def run():
        bs = rd.read_exact(ctx, 4)
        if bs is None:
            return err(io_error("UnexpectedEof"))
        n = int_cast(from_le(bs, 32, False), 64, False)
        r = read_vec(ctx, rd, n)
        if r.variant == "Err":
            return r
        b = r.fields[0].v
        if utf8_check(engine, ctx, b):
            return ok(Bytes(b.arr, b.off, b.len, utf8=True))
        return err(io_error("Other", "invalid utf-8"))
    return future(callee, run)


@model(r"BinaryReader::<.*>::stream_position$")
def m_reader_pos(engine, ctx, args, callee, frame):
    rd = get_reader(args[0])
    return future(callee, lambda: ok(rd.position()))


@model(r"BinaryReader::<.*>::len$")
def m_reader_len(engine, ctx, args, callee, frame):
    rd = get_reader(args[0])
    return future(callee, lambda: ok(rd.total_len()))


def do_seek(ctx, obj, to):
    """to: EnumV SeekFrom"""
    if to.variant == "Start":
        obj.pos = to.fields[0].v
        return ok(obj.pos)
    off = to.fields[0].v   # i64
    base = obj.length if to.variant == "End" else obj.pos
    offu = Int(off.v if not off.concrete else off.v, 64, False) if not off.concrete else Int(off.v, 64, False)
    np_ = int_binop("Add", base, offu)
    # negative resulting position is an error (InvalidInput)
    neg = int_binop("Lt", Int(np_.v, 64, True) if np_.concrete else Int(np_.v, 64, True), Int(0, 64, True))
    # overflow cases are folded into "negative" for i64 arithmetic on sizes < 2^62
    if ctx.branch(neg):
        return err(io_error("InvalidInput", "invalid seek to a negative or overflowing position"))
    obj.pos = np_
    return ok(obj.pos)


@model(r"Binary(Reader|Writer)::<.*>::seek$")
def m_seek(engine, ctx, args, callee, frame):
    obj = deref(args[0])
    to = args[1]
    return future(callee, lambda: obj.seek(ctx, to))


# ---- writer

@model(r"BinaryWriter::<.*>::write_([ui](?:8|16|32|64|128|size))::<")
def m_write_int(engine, ctx, args, callee, frame):
    kind = re.search(r"write_([ui](?:8|16|32|64|128|size))::<", callee).group(1)
    n, bits, signed = _READ_INTS[kind]
    wr = get_writer(args[0])
    v = deref(args[1])

    def run():
        wr.put(ctx, le_bytes(v, n))
        return ok(Int(n, 64))
    return future(callee, run)


@model(r"BinaryWriter::<.*>::write_bool::<")
def m_write_bool(engine, ctx, args, callee, frame):
    wr = get_writer(args[0])
    v = deref(args[1])

    def run():
        wr.put(ctx, [int_cast(v, 8, False)])
        return ok(Int(1, 64))
    return future(callee, run)


def write_seq(engine, ctx, wr, b):
    if b.len.concrete:
        n = b.len.v
        wr.put(ctx, [b.byte(i) for i in range(n)])
        return Int(n, 64)
    cap = getattr(engine, "field_length_cap", None)
    if cap is not None:
        # round-trip mode: a field whose length the path already pins (nonce sizes, ids) is written as is;
        # free-length fields are explored for every concrete length up to `cap` (longer: outside the bound)
        m = ctx.model()
        if m is None:
            raise Infeasible()
        v = m.eval(b.len.z3(), model_completion=True).as_long()
        if not ctx.must(b.len.z3() == z3.BitVecVal(v, 64)):
            ctx.assume(int_binop("Le", b.len, Int(cap, 64)))
            v = ctx.concretize(b.len, cap + 2, "field length")
        else:
            ctx.add(b.len.z3() == z3.BitVecVal(v, 64))
        wr.put(ctx, [b.byte(i) for i in range(v)])
        return Int(v, 64)
    # symbolic length: conditional stores up to the bound (array theory), no forking on the length
    bound = getattr(engine, "max_input", 64)
    if not ctx.must(int_binop("Le", b.len, Int(bound, 64))):
        if not ctx.branch(int_binop("Le", b.len, Int(bound, 64))):
            raise BoundHit("write of a byte string longer than %d" % bound)
    arr = wr.arr
    for i in range(bound):
        idx = int_binop("Add", wr.pos, Int(i, 64)).z3()
        inside = z3.ULT(z3.BitVecVal(i, 64), b.len.z3())
        arr = z3.Store(arr, idx, z3.If(inside, b.byte(i).z3(), z3.Select(arr, idx)))
    wr.arr = arr
    wr.pos = int_binop("Add", wr.pos, b.len)
    gt = int_binop("Gt", wr.pos, wr.length)
    if ctx.branch(gt):
        wr.length = wr.pos
    return b.len


@model(r"BinaryWriter::<.*>::write_bytes::<")
def m_write_bytes(engine, ctx, args, callee, frame):
    wr = get_writer(args[0])
    b = as_bytes(engine, args[1])

    def run():
        if wr.max_buffer is not None and ctx.branch(int_binop("Gt", b.len, Int(wr.max_buffer, 64))):
            return err(io_error("Other", "length exceeds max buffer size"))
        return ok(wr.put_bytes(engine, ctx, b))
    return future(callee, run)


@model(r"BinaryWriter::<.*>::write_string::<")
def m_write_string(engine, ctx, args, callee, frame):
    wr = get_writer(args[0])
    b = as_bytes(engine, args[1])

    def run():
        if wr.max_buffer is not None and ctx.branch(int_binop("Gt", b.len, Int(wr.max_buffer, 64))):
            return err(io_error("Other", "length exceeds max buffer size"))
        wr.put(ctx, le_bytes(int_cast(b.len, 32, False), 4))
        return ok(wr.put_bytes(engine, ctx, b))
    return future(callee, run)


@model(r"BinaryWriter::<.*>::stream_position$")
def m_writer_pos(engine, ctx, args, callee, frame):
    wr = get_writer(args[0])
    return future(callee, lambda: ok(wr.position()))


@model(r"BinaryWriter::<.*>::len$")
def m_writer_len(engine, ctx, args, callee, frame):
    wr = get_writer(args[0])
    return future(callee, lambda: ok(wr.total_len()))


@model(r"BinaryWriter::<.*>::flush$")
def m_writer_flush(engine, ctx, args, callee, frame):
    return future(callee, lambda: ok(unit()))


# ---- primitive Encodable / Decodable impls that live in binary_stream

@model(r"^<([ui](?:8|16|32|64|128|size)|bool|std::string::String|String) as binary_stream::futures::Decodable>::decode")
def m_prim_decode(engine, ctx, args, callee, frame):
    ty = re.match(r"^<([^ ]+) as", callee).group(1)
    cell = deref_cell(args[0])
    rd_ref = args[1]
    if ty in _READ_INTS:
        inner = m_read_int(engine, ctx, [rd_ref], "BinaryReader::<R>::read_%s" % ty, frame)
    elif ty == "bool":
        inner = m_read_bool(engine, ctx, [rd_ref], "BinaryReader::<R>::read_bool", frame)
    else:
        inner = m_read_string(engine, ctx, [rd_ref], "BinaryReader::<R>::read_string", frame)

    def run():
        r = inner.thunk()
        if r.variant == "Err":
            return r
        cell.v = r.fields[0].v
        return ok(unit())
    return pin_box(future(callee, run))


@model(r"^<([ui](?:8|16|32|64|128|size)|bool|std::string::String|String) as binary_stream::futures::Encodable>::encode")
def m_prim_encode(engine, ctx, args, callee, frame):
    ty = re.match(r"^<([^ ]+) as", callee).group(1)
    v = args[0]
    wr_ref = args[1]
    if ty in _READ_INTS:
        inner = m_write_int(engine, ctx, [wr_ref, v], "BinaryWriter::<W>::write_%s::<&%s>" % (ty, ty), frame)
    elif ty == "bool":
        inner = m_write_bool(engine, ctx, [wr_ref, v], "BinaryWriter::<W>::write_bool::<&bool>", frame)
    else:
        inner = m_write_string(engine, ctx, [wr_ref, v], "BinaryWriter::<W>::write_string::<&String>", frame)

    def run():
        r = inner.thunk()
        if r.variant == "Err":
            return r
        return ok(unit())
    return pin_box(future(callee, run))


def elem_type_of_vec(callee):
    m = re.match(r"^<(?:std::vec::)?Vec<(.*)> as binary_stream", callee)
    return m.group(1) if m else None


def option_inner(callee):
    m = re.match(r"^<(?:std::option::)?Option<(.*)> as binary_stream", callee)
    return m.group(1) if m else None


def run_future(engine, ctx, fut):
    """drive a future value (Pin<Box<..>>, coroutine, model future) to completion; returns Output"""
    p = m_poll(engine, ctx, [fut, Opaque("Context")], "poll", None)
    if p.variant != "Ready":
        raise Untranslatable("future returned Pending")
    return p.fields[0].v


@model(r"^<(?:std::vec::)?Vec<.*> as binary_stream::futures::Decodable>::decode")
def m_vec_decode(engine, ctx, args, callee, frame):
    ety = elem_type_of_vec(callee)
    cell = deref_cell(args[0])
    rd_ref = args[1]
    rd = get_reader(rd_ref)

    def run():
        bs = rd.read_exact(ctx, 4)
        if bs is None:
            return err(io_error("UnexpectedEof"))
        n = from_le(bs, 32, False)
        vec = cell.v
        if vec is None:
            vec = VecV(ety, [])
            cell.v = vec
        if isinstance(vec, Bytes):
            if not (vec.len.concrete and vec.len.v == 0):
                raise Untranslatable("Vec<u8>::decode into non-empty vec")
            vec = VecV(ety, [])
            cell.v = vec
        i = 0
        cap = getattr(engine, "collection_cap", None)
        while True:
            if cap is not None and not n.concrete and (i >= cap or getattr(ctx, "coll_used", 0) >= getattr(engine, "collection_budget", 1 << 30)):
                ctx.assume(b_not(int_binop("Lt", Int(i, 32), n)))
                break
            if not ctx.branch(int_binop("Lt", Int(i, 32), n)):
                break
            if cap is not None and not n.concrete:
                ctx.coll_used = getattr(ctx, "coll_used", 0) + 1
            if i >= engine.loop_bound:
                raise BoundHit("Vec::decode loop")
            item = Cell(default_value(engine, ctx, ety, frame))
            r = run_future(engine, ctx, engine.call_named("<%s as binary_stream::futures::Decodable>::decode::<'_, '_, '_, R>" % ety, [Ref(item), rd_ref], frame))
            if r.variant == "Err":
                return r
            vec.items.append(item)
            i += 1
        return ok(unit())
    return pin_box(future(callee, run))


@model(r"^<(?:std::vec::)?Vec<.*> as binary_stream::futures::Encodable>::encode")
def m_vec_encode(engine, ctx, args, callee, frame):
    ety = elem_type_of_vec(callee)
    vec = deref(args[0])
    wr_ref = args[1]
    wr = get_writer(wr_ref)

    def run():
        if isinstance(vec, Bytes):
            n = ctx.concretize(vec.len, 64, "Vec<u8> length")
            items = [Cell(vec.byte(i)) for i in range(n)]
        else:
            items = vec.items
        wr.put(ctx, le_bytes(Int(len(items), 32), 4))
        for it in items:
            r = run_future(engine, ctx, engine.call_named("<%s as binary_stream::futures::Encodable>::encode::<'_, '_, '_, W>" % ety, [Ref(it), wr_ref], frame))
            if r.variant == "Err":
                return r
        return ok(unit())
    return pin_box(future(callee, run))


@model(r"^<(?:std::option::)?Option<.*> as binary_stream::futures::Decodable>::decode")
def m_opt_decode(engine, ctx, args, callee, frame):
    ity = option_inner(callee)
    cell = deref_cell(args[0])
    rd_ref = args[1]
    rd = get_reader(rd_ref)

    def run():
        bs = rd.read_exact(ctx, 1)
        if bs is None:
            return err(io_error("UnexpectedEof"))
        if ctx.branch(int_binop("Gt", bs[0], Int(0, 8))):
            item = Cell(default_value(engine, ctx, ity, frame))
            r = run_future(engine, ctx, engine.call_named("<%s as binary_stream::futures::Decodable>::decode::<'_, '_, '_, R>" % ity, [Ref(item), rd_ref], frame))
            if r.variant == "Err":
                return r
            cell.v = some(item.v)
        return ok(unit())
    return pin_box(future(callee, run))


@model(r"^<(?:std::option::)?Option<.*> as binary_stream::futures::Encodable>::encode")
def m_opt_encode(engine, ctx, args, callee, frame):
    ity = option_inner(callee)
    v = deref(args[0])
    wr_ref = args[1]
    wr = get_writer(wr_ref)

    def run():
        if v.variant == "Some":
            wr.put(ctx, [Int(1, 8)])
            r = run_future(engine, ctx, engine.call_named("<%s as binary_stream::futures::Encodable>::encode::<'_, '_, '_, W>" % ity, [Ref(v.fields[0]), wr_ref], frame))
            if r.variant == "Err":
                return r
        else:
            wr.put(ctx, [Int(0, 8)])
        return ok(unit())
    return pin_box(future(callee, run))


# ------------------------------------------------------------------ futures plumbing

def pin_box(v):
    return Agg("struct", "Pin", [Cell(Ref(Cell(v)))])


@model(r"^Box::<.*>::pin$")
def m_box_pin(engine, ctx, args, callee, frame):
    return pin_box(args[0])


@model(r"^Box::<.*>::new$")
def m_box_new(engine, ctx, args, callee, frame):
    return Ref(Cell(args[0]))


@model(r"as (std::future::)?IntoFuture>::into_future$")
def m_into_future(engine, ctx, args, callee, frame):
    return args[0]


@model(r"^Pin::<.*>::new_unchecked$|^Pin::<.*>::new$")
def m_pin_new(engine, ctx, args, callee, frame):
    return Agg("struct", "Pin", [Cell(args[0])])


@model(r"^Pin::<.*>::(as_mut|get_mut|get_unchecked_mut|into_inner|get_ref)$")
def m_pin_as_mut(engine, ctx, args, callee, frame):
    v = deref(args[0]) if callee.endswith("as_mut") else args[0]
    if isinstance(v, Agg) and v.ty == "Pin":
        if callee.endswith("as_mut"):
            inner = v.fields[0].v
            return Agg("struct", "Pin", [Cell(inner)])
        return v.fields[0].v
    raise Untranslatable("Pin method on %s" % type(v).__name__)


@model(r"as (futures::|std::future::|core::future::)?Future>::poll$")
def m_poll(engine, ctx, args, callee, frame):
    v = args[0]
    cx = args[1]
    holder = None
    # unwrap Pin / refs until the future object
    for _ in range(16):
        if isinstance(v, Agg) and v.ty == "Pin":
            holder = v.fields[0]
            v = holder.v
            continue
        if isinstance(v, Ref):
            holder = v.cell
            v = holder.v
            continue
        break
    if isinstance(v, Coroutine):
        if v.fn is None:
            raise Untranslatable("coroutine body not found: %s" % v.span)
        if holder is None:
            holder = Cell(v)
        r = engine.run_fn(v.fn, [Agg("struct", "Pin", [Cell(Ref(holder))]), cx], v.generics)
        if isinstance(r, EnumV) and r.variant == "Pending":
            raise Untranslatable("future yielded Pending (single-poll executor)")
        return r
    if isinstance(v, ModelFuture):
        if v.done:
            raise Panic("model future polled after completion")
        v.done = True
        return ready(v.thunk())
    raise Untranslatable("poll of %s" % type(v).__name__)


# ------------------------------------------------------------------ Try / Result / Option

@model(r"^<(std::result::)?Result<.*> as (std::ops::)?Try>::branch$")
def m_result_branch(engine, ctx, args, callee, frame):
    r = args[0]
    if r.variant == "Ok":
        return EnumV("ControlFlow", "Continue", 0, [Cell(r.fields[0].v)])
    return EnumV("ControlFlow", "Break", 1, [Cell(err(r.fields[0].v))])


@model(r"^<(std::option::)?Option<.*> as (std::ops::)?Try>::branch$")
def m_option_branch(engine, ctx, args, callee, frame):
    r = args[0]
    if r.variant == "Some":
        return EnumV("ControlFlow", "Continue", 0, [Cell(r.fields[0].v)])
    return EnumV("ControlFlow", "Break", 1, [Cell(none())])


def convert_error(engine, ctx, e, callee, frame):
    """`From::from` on the error inside `?`: use the repo's own From impl when the target is a repo type"""
    m = re.match(r"^<(?:std::result::)?Result<.*, (.*)> as (?:std::ops::)?FromResidual<(?:std::result::)?Result<(?:std::convert::)?Infallible, (.*)>>>::from_residual$", callee)
    if m:
        dst, src = m.group(1).strip(), m.group(2).strip()
        if last_ident(dst) != last_ident(src) or strip_generics(dst) != strip_generics(src):
            fn = engine.program.resolve("<%s as From<%s>>::from" % (dst, src), frame.fn if frame else None)
            if fn is not None:
                return engine.run_fn(fn, [e])
            return Opaque("error", ("from", src, e))
    return e


@model(r"as (std::ops::)?FromResidual<.*>>::from_residual$")
def m_from_residual(engine, ctx, args, callee, frame):
    r = args[0]
    if r.variant == "Err":
        return err(convert_error(engine, ctx, r.fields[0].v, callee, frame))
    if r.variant == "None":
        if re.match(r"^<(std::result::)?Result<", callee):
            raise Untranslatable("Option residual into Result")
        return none()
    raise Untranslatable("from_residual of %r" % (r,))


@model(r"^(std::result::)?Result::<.*>::map_err::<")
def m_map_err(engine, ctx, args, callee, frame):
    r, f = args
    if r.variant == "Ok":
        return r
    return err(engine.call_closure(f, [r.fields[0].v]))


@model(r"^(std::result::)?Result::<.*>::map::<")
def m_result_map(engine, ctx, args, callee, frame):
    r, f = args
    if r.variant == "Err":
        return r
    return ok(engine.call_closure(f, [r.fields[0].v]))


@model(r"^(std::result::)?Result::<.*>::(ok)$")
def m_result_ok(engine, ctx, args, callee, frame):
    r = args[0]
    return some(r.fields[0].v) if r.variant == "Ok" else none()


@model(r"^(std::result::)?Result::<.*>::(is_ok|is_err)$")
def m_result_is(engine, ctx, args, callee, frame):
    r = deref(args[0])
    return (r.variant == "Ok") == callee.endswith("is_ok")


@model(r"^(std::result::)?Result::<.*>::(unwrap|expect)$")
def m_result_unwrap(engine, ctx, args, callee, frame):
    r = args[0]
    if r.variant == "Ok":
        return r.fields[0].v
    raise Panic("called `Result::%s()` on an `Err` value" % callee.split("::")[-1], (frame.fn.name if frame else None,), kind="unwrap")


@model(r"^(std::result::)?Result::<.*>::unwrap_or_default$")
def m_result_unwrap_or_default(engine, ctx, args, callee, frame):
    r = args[0]
    if r.variant == "Ok":
        return r.fields[0].v
    m = re.match(r"^(?:std::result::)?Result::<(.*)>::unwrap_or_default$", callee)
    ty = split_first_generic(m.group(1))
    return default_value(engine, ctx, ty, frame)


def split_first_generic(s):
    from .mirparse import split_top
    return split_top(s)[0]


@model(r"^(std::option::)?Option::<.*>::(unwrap|expect)$")
def m_option_unwrap(engine, ctx, args, callee, frame):
    r = args[0]
    if r.variant == "Some":
        return r.fields[0].v
    raise Panic("called `Option::%s()` on a `None` value" % callee.split("::")[-1], (frame.fn.name if frame else None,), kind="unwrap")


@model(r"^(std::option::)?Option::<.*>::ok_or_else::<")
def m_ok_or_else(engine, ctx, args, callee, frame):
    r, f = args
    if r.variant == "Some":
        return ok(r.fields[0].v)
    return err(engine.call_closure(f, []))


@model(r"^(std::option::)?Option::<.*>::ok_or::<")
def m_ok_or(engine, ctx, args, callee, frame):
    r, e = args
    if r.variant == "Some":
        return ok(r.fields[0].v)
    return err(e)


@model(r"^(std::option::)?Option::<.*>::(is_some|is_none)$")
def m_option_is(engine, ctx, args, callee, frame):
    r = deref(args[0])
    return (r.variant == "Some") == callee.endswith("is_some")


@model(r"^(std::option::)?Option::<.*>::map::<")
def m_option_map(engine, ctx, args, callee, frame):
    r, f = args
    if r.variant == "None":
        return none()
    return some(engine.call_closure(f, [r.fields[0].v]))


@model(r"^(std::option::)?Option::<.*>::as_mut$")
def m_option_as_mut(engine, ctx, args, callee, frame):
    r = deref(args[0])
    if r.variant == "None":
        return none()
    return some(Ref(r.fields[0]))


@model(r"^(std::option::)?Option::<.*>::as_ref$")
def m_option_as_ref(engine, ctx, args, callee, frame):
    r = deref(args[0])
    if r.variant == "None":
        return none()
    return some(Ref(r.fields[0]))


@model(r"^(std::option::)?Option::<.*>::take$")
def m_option_take(engine, ctx, args, callee, frame):
    cell = deref_cell(args[0])
    v = cell.v
    cell.v = none()
    return v


@model(r"^(std::option::)?Option::<.*>::unwrap_or_default$")
def m_option_unwrap_or_default(engine, ctx, args, callee, frame):
    r = args[0]
    if r.variant == "Some":
        return r.fields[0].v
    m = re.match(r"^(?:std::option::)?Option::<(.*)>::unwrap_or_default$", callee)
    return default_value(engine, ctx, m.group(1), frame)


# ------------------------------------------------------------------ formatting / errors (opaque)

@model(r"(^|::)Argument::<'_>::new_|(^|::)Argument::new_")
def m_fmt_arg(engine, ctx, args, callee, frame):
    return Opaque("fmt::Argument")


@model(r"^(std::fmt::|core::fmt::)?Arguments::<'_>::(new|new_const|new_v1|from_str)|^Arguments::<'_>::from_str")
def m_fmt_arguments(engine, ctx, args, callee, frame):
    msg = None
    a = args[0] if args else None
    try:
        b = as_bytes(engine, a)
        if b.len.concrete and b.len.v < 200:
            bs = [b.byte(i) for i in range(b.len.v)]
            if all(x.concrete for x in bs):
                msg = bytes(x.v for x in bs).decode("utf-8", "replace")
    except Exception:
        pass
    return Opaque("fmt::Arguments", msg)


@model(r"^(std::fmt::|alloc::fmt::)?format$")
def m_format(engine, ctx, args, callee, frame):
    return Opaque("String(formatted)", args[0].payload if isinstance(args[0], Opaque) else None)


@model(r"^must_use::<")
def m_must_use(engine, ctx, args, callee, frame):
    return args[0]


@model(r"^(std::)?io::Error::(other|new)::<")
def m_io_error_other(engine, ctx, args, callee, frame):
    return io_error("Other", args[-1] if args else None)


@model(r"panic_fmt$|^core::panicking::panic|^std::rt::begin_panic|panic_display|panic_explicit|^panic$|unwrap_failed|expect_failed")
def m_panic(engine, ctx, args, callee, frame):
    msg = None
    for a in args:
        if isinstance(a, Opaque) and a.payload:
            msg = a.payload
        elif isinstance(a, Ref):
            try:
                b = as_bytes(engine, a)
                if b.len.concrete:
                    msg = bytes(b.byte(i).v for i in range(b.len.v)).decode("utf-8", "replace")
            except Exception:
                pass
    raise Panic("panic: %s" % (msg,), (frame.fn.name if frame else None,), kind="explicit")


@model(r"^tracing::|^tracing_core::|__CALLSITE|^log::|::__tracing|^<tracing|ValueSet|^tracing::Span|^tracing::Event")
def m_tracing(engine, ctx, args, callee, frame):
    return Opaque("tracing")


# ------------------------------------------------------------------ integer operator traits called as functions (operands by reference)

_INT_T = r"(?:[ui](?:8|16|32|64|128|size))"


@model(r"^<&?(?:'\w+ )?" + _INT_T + r" as (?:std::ops::)?(Add|Sub|Mul|Div|Rem|BitAnd|BitOr|BitXor)<&?(?:'\w+ )?" + _INT_T + r">>::(add|sub|mul|div|rem|bitand|bitor|bitxor)$")
def m_int_op_trait(engine, ctx, args, callee, frame):
    """`&a + b`, `a - &b`, ...: same semantics as the MIR binary operator, including the overflow /
    division-by-zero panic of a build with overflow checks"""
    from .engine import overflow_flag, Panic
    op = re.search(r"as (?:std::ops::)?(\w+)<", callee).group(1)
    a, b = deref(args[0]), deref(args[1])
    if not (isinstance(a, Int) and isinstance(b, Int)):
        raise Untranslatable("integer operator on %s, %s" % (type(a).__name__, type(b).__name__))
    site = (frame.fn.name, callee) if frame else None
    if op in ("Add", "Sub", "Mul") and engine.overflow_checks:
        if ctx.branch(overflow_flag(op, a, b)):
            raise Panic("attempt to %s with overflow" % {"Add": "add", "Sub": "subtract", "Mul": "multiply"}[op], site, kind="overflow")
    if op in ("Div", "Rem"):
        if ctx.branch(int_binop("Eq", b, Int(0, b.bits, b.signed))):
            raise Panic("attempt to divide by zero" if op == "Div" else "attempt to calculate the remainder with a divisor of zero", site)
    return int_binop(op, a, b)


# ------------------------------------------------------------------ slices, arrays, vectors of bytes

@model(r"^(std::vec::)?Vec::<.*>::as_slice$|^<(std::vec::)?Vec<.*> as (std::ops::)?Deref>::deref$|^<(std::vec::)?Vec<.*> as AsRef<\[.*\]>>::as_ref$|^(std::vec::)?Vec::<.*>::as_mut_slice$|^<(std::vec::)?Vec<.*> as (std::ops::)?DerefMut>::deref_mut$")
def m_vec_as_slice(engine, ctx, args, callee, frame):
    return Ref(deref_cell(args[0]))


@model(r"^<\[u8; \d+\] as AsRef<\[u8\]>>::as_ref$|^<\[.*\] as AsRef<\[.*\]>>::as_ref$|^core::array::<impl \[.*; \d+\]>::as_slice$")
def m_arr_as_ref(engine, ctx, args, callee, frame):
    return Ref(deref_cell(args[0]))


@model(r"^<&\[u8\] as TryInto<\[u8; (\d+)\]>>::try_into$|^<\[u8; (\d+)\] as TryFrom<&\[u8\]>>::try_from$")
def m_slice_try_into(engine, ctx, args, callee, frame):
    m = re.search(r"\[u8; (\d+)\]", callee)
    n = int(m.group(1))
    b = as_bytes(engine, args[0])
    if ctx.branch(int_binop("Eq", b.len, Int(n, 64))):
        return ok(Agg("array", None, [Cell(b.byte(i)) for i in range(n)]))
    return err(Opaque("TryFromSliceError"))


@model(r"^<(std::vec::)?Vec<u8> as TryInto<\[u8; (\d+)\]>>::try_into$")
def m_vec_try_into(engine, ctx, args, callee, frame):
    m = re.search(r"\[u8; (\d+)\]", callee)
    n = int(m.group(1))
    b = as_bytes(engine, args[0])
    if ctx.branch(int_binop("Eq", b.len, Int(n, 64))):
        return ok(Agg("array", None, [Cell(b.byte(i)) for i in range(n)]))
    return err(args[0])


@model(r"^(std::vec::)?Vec::<.*>::len$|^core::slice::<impl \[.*\]>::len$|^(std::string::)?String::len$|^core::str::<impl str>::len$")
def m_len(engine, ctx, args, callee, frame):
    v = args[0]
    if isinstance(v, Ref) and v.window is not None:
        return v.window[1]
    return engine.seq_len(deref(v))


@model(r"^(std::vec::)?Vec::<.*>::is_empty$|^core::slice::<impl \[.*\]>::is_empty$|^(std::string::)?String::is_empty$|^core::str::<impl str>::is_empty$")
def m_is_empty(engine, ctx, args, callee, frame):
    n = m_len(engine, ctx, args, callee, frame)
    return int_binop("Eq", n, Int(0, 64))


@model(r"^(std::vec::)?Vec::<.*>::new$")
def m_vec_new(engine, ctx, args, callee, frame):
    m = re.match(r"^(?:std::vec::)?Vec::<(.*)>::new$", callee)
    ety = m.group(1)
    if ety == "u8":
        return bytes_from_concrete(b"")
    return VecV(ety, [])


@model(r"^(std::vec::)?Vec::<.*>::with_capacity$")
def m_vec_with_capacity(engine, ctx, args, callee, frame):
    m = re.match(r"^(?:std::vec::)?Vec::<(.*)>::with_capacity$", callee)
    ety = m.group(1)
    ctx.note("alloc", size=args[0], elem=ety, what="Vec::with_capacity", site=frame.fn.name if frame else None)
    if ety == "u8":
        return bytes_from_concrete(b"")
    return VecV(ety, [])


@model(r"^(std::vec::)?Vec::<.*>::push$")
def m_vec_push(engine, ctx, args, callee, frame):
    cell = deref_cell(args[0])
    v = cell.v
    if isinstance(v, Bytes):
        n = ctx.concretize(v.len, 64, "Vec<u8> length before push")
        items = [v.byte(i) for i in range(n)] + [args[1]]
        cell.v = bytes_from_ints(items)
        return unit()
    v.items.append(Cell(args[1]))
    return unit()


@model(r"^(std::vec::)?Vec::<.*>::clear$")
def m_vec_clear(engine, ctx, args, callee, frame):
    cell = deref_cell(args[0])
    v = cell.v
    if isinstance(v, Bytes):
        cell.v = bytes_from_concrete(b"")
    else:
        v.items[:] = []
    return unit()


@model(r"^<(std::vec::)?Vec<.*> as Clone>::clone$|^<\[.*\] as ToOwned>::to_owned$|^core::slice::<impl \[.*\]>::to_vec$|^<(std::string::)?String as Clone>::clone$|^<(str|String) as ToOwned>::to_owned$|^<str as ToString>::to_string$|^<(std::string::)?String as From<&str>>::from$|^<&str as Into<(std::string::)?String>>::into$|^(std::string::)?String::as_str$|^core::str::<impl str>::as_bytes$|^(std::string::)?String::as_bytes$|^<(std::string::)?String as (std::ops::)?Deref>::deref$|^<(std::string::)?String as AsRef<str>>::as_ref$|^<(std::string::)?String as ToString>::to_string$|^<str as AsRef<\[u8\]>>::as_ref$|^<str as AsRef<str>>::as_ref$|^<(std::string::)?String as AsRef<\[u8\]>>::as_ref$|^core::str::<impl str>::to_string$|^core::str::<impl str>::to_owned$|^<(std::string::)?String as Borrow<str>>::borrow$")
def m_clone_seq(engine, ctx, args, callee, frame):
    v = args[0]
    borrow = re.search(r"as_str$|as_bytes$|Deref>::deref$|AsRef<.*>>::as_ref$|Borrow<str>>::borrow$", callee)
    if borrow:
        if isinstance(v, Ref) and v.window is not None:
            return v
        return Ref(deref_cell(v))
    if isinstance(v, Ref) and v.window is not None:
        r = deep_copy(engine.apply_window(v))
    else:
        r = deep_copy(deref(v))
    if isinstance(r, Agg) and r.kind == "array" and ("to_vec" in callee or "to_owned" in callee):
        return VecV("_", r.fields)
    return r


@model(r"^(std::string::)?String::new$")
def m_string_new(engine, ctx, args, callee, frame):
    return bytes_from_concrete(b"", utf8=True)


@model(r"^(std::string::)?String::from_utf8$")
def m_from_utf8(engine, ctx, args, callee, frame):
    b = as_bytes(engine, args[0])
    if utf8_check(engine, ctx, b):
        return ok(Bytes(b.arr, b.off, b.len, utf8=True))
    return err(Opaque("FromUtf8Error"))


def seq_eq(engine, ctx, a, b):
    """equality of two byte sequences as a z3 condition (forks on lengths when symbolic)"""
    da, db = deref(a), deref(b)
    while isinstance(da, Agg) and da.kind == "struct" and len(da.fields) == 1:
        da = da.fields[0].v
    while isinstance(db, Agg) and db.kind == "struct" and len(db.fields) == 1:
        db = db.fields[0].v
    if getattr(da, "hash_term", False) or getattr(db, "hash_term", False):
        from .merkle import hash_eq
        c = hash_eq(ctx, da, db)
        if c is not None:
            return c
    ba, bb = as_bytes(engine, a), as_bytes(engine, b)
    if not ctx.branch(int_binop("Eq", ba.len, bb.len)):
        return False
    n = ctx.concretize(ba.len, 64, "sequence length in ==")
    c = True
    for i in range(n):
        c = b_and(c, int_binop("Eq", ba.byte(i), bb.byte(i)))
    return c


@model(r"^<\[u8; \d+\] as PartialEq>::(eq|ne)$|^<(std::vec::)?Vec<u8> as PartialEq>::(eq|ne)$|^<\[u8\] as PartialEq>::(eq|ne)$|^<(std::string::)?String as PartialEq>::(eq|ne)$|^<str as PartialEq>::(eq|ne)$|^<&\[u8\] as PartialEq>::(eq|ne)$|^<&str as PartialEq>::(eq|ne)$|^<(std::string::)?String as PartialEq<&str>>::(eq|ne)$|^<(std::string::)?String as PartialEq<str>>::(eq|ne)$|^<&\[u8; \d+\] as PartialEq>::(eq|ne)$|^<\[u8; \d+\] as PartialEq<\[u8\]>>::(eq|ne)$|^<(std::vec::)?Vec<u8> as PartialEq<\[u8; \d+\]>>::(eq|ne)$")
def m_bytes_eq(engine, ctx, args, callee, frame):
    c = seq_eq(engine, ctx, args[0], args[1])
    if callee.endswith("ne"):
        return b_not(c)
    return c


# ------------------------------------------------------------------ conversions

@model(r"^<.* as Into<.*>>::into$", generic=True)
def m_into(engine, ctx, args, callee, frame):
    m = re.match(r"^<(.*) as Into<(.*)>>::into$", callee)
    src, dst = m.group(1), m.group(2)
    target = "<%s as From<%s>>::from" % (dst, src)
    fn = engine.program.resolve(target, frame.fn if frame else None)
    if fn is not None:
        g = engine.bind_generics(fn, target)       # impl<T> From<..> for X<T>: bind T from the printed type
        return engine.run_fn(fn, args, g)
    if strip_generics(src) == strip_generics(dst):
        return args[0]
    if last_ident(src) == last_ident(dst) and last_ident(src) == "Error" and (src.endswith("error::Error") or dst.endswith("error::Error")):
        return args[0]          # the same crate-local error type printed with and without its module path
    mm = engine.find_model("<%s as From<%s>>::from" % (dst, src))
    if mm is not None and mm is not m_into:
        return mm(engine, ctx, args, "<%s as From<%s>>::from" % (dst, src), frame)
    si, di = int_type(src), int_type(dst)
    if si and di:
        return int_cast(args[0], di[0], di[1])
    raise Untranslatable("Into: " + callee)


@model(r"^<.* as TryInto<.*>>::try_into$", generic=True)
def m_try_into(engine, ctx, args, callee, frame):
    m = re.match(r"^<(.*) as TryInto<(.*)>>::try_into$", callee)
    src, dst = m.group(1), m.group(2)
    target = "<%s as TryFrom<%s>>::try_from" % (dst, src)
    fn = engine.program.resolve(target, frame.fn if frame else None)
    if fn is not None:
        g = engine.bind_generics(fn, target)
        return engine.run_fn(fn, args, g)
    si, di = int_type(src), int_type(dst)
    if si and di:
        return int_try_from(ctx, args[0], di)
    raise Untranslatable("TryInto: " + callee)


def int_try_from(ctx, v, di):
    bits, signed = di
    lo = -(1 << (bits - 1)) if signed else 0
    hi = (1 << (bits - 1)) - 1 if signed else (1 << bits) - 1
    if v.concrete:
        if lo <= v.v <= hi:
            return ok(Int(v.v, bits, signed))
        return err(Opaque("TryFromIntError"))
    # compare in a wide enough signed domain
    w = max(v.bits, bits) + 1
    x = z3.SignExt(w - v.bits, v.z3()) if v.signed else z3.ZeroExt(w - v.bits, v.z3())
    inr = z3.And(x >= z3.BitVecVal(lo, w), x <= z3.BitVecVal(hi, w))
    if ctx.branch(inr):
        return ok(int_cast(v, bits, signed))
    return err(Opaque("TryFromIntError"))


@model(r"^<([ui](?:8|16|32|64|128|size)) as TryFrom<([ui](?:8|16|32|64|128|size))>>::try_from$")
def m_int_try_from(engine, ctx, args, callee, frame):
    m = re.match(r"^<(\w+) as TryFrom<(\w+)>>::try_from$", callee)
    return int_try_from(ctx, args[0], int_type(m.group(1)))


@model(r"^<([ui](?:8|16|32|64|128|size)) as From<([ui](?:8|16|32|64|128|size)|bool)>>::from$")
def m_int_from(engine, ctx, args, callee, frame):
    m = re.match(r"^<(\w+) as From<(\w+)>>::from$", callee)
    di = int_type(m.group(1))
    return int_cast(args[0], di[0], di[1])


@model(r"^<.* as From<.*>>::from$", generic=True)
def m_from_identity(engine, ctx, args, callee, frame):
    m = re.match(r"^<(.*) as From<(.*)>>::from$", callee)
    if strip_generics(m.group(1)) == strip_generics(m.group(2)):
        return args[0]
    pair = (m.group(1), m.group(2))
    if pair in (("Box<str>", "String"), ("String", "Box<str>"), ("Vec<u8>", "&[u8]"), ("Vec<u8>", "String"),
                ("Box<[u8]>", "Vec<u8>"), ("Vec<u8>", "Box<[u8]>"), ("String", "&String"), ("Vec<u8>", "&str"),
                ("String", "&mut str"), ("Cow<'_, str>", "String"), ("Cow<'_, str>", "&str")):
        return deep_copy(deref(args[0])) if isinstance(args[0], Ref) else args[0]
    fn = engine.program.resolve(callee, frame.fn if frame else None)
    if fn is not None:
        return engine.run_fn(fn, args)
    if last_ident(m.group(1)) == "Error":
        # an error conversion whose impl is not in the loaded MIR (thiserror `#[from]` of another crate): same
        # fallback as the `?` operator's conversion
        return Opaque("error", ("from", m.group(2), args[0]))
    raise Untranslatable("From: " + callee)


# ------------------------------------------------------------------ default values

def default_value(engine, ctx, ty, frame=None):
    ty = ty.strip()
    it = int_type(ty)
    if it:
        return Int(0, it[0], it[1])
    if ty == "bool":
        return False
    if ty == "()":
        return unit()
    if ty in ("std::string::String", "String"):
        return bytes_from_concrete(b"", utf8=True)
    m = re.match(r"^(?:std::vec::)?Vec<(.*)>$", ty)
    if m:
        if m.group(1) == "u8":
            return bytes_from_concrete(b"")
        return VecV(m.group(1), [])
    if re.match(r"^(?:std::option::)?Option<", ty):
        return none()
    m = re.match(r"^\[(.*); (\d+)\]$", ty)
    if m:
        return Agg("array", None, [Cell(default_value(engine, ctx, m.group(1), frame)) for _ in range(int(m.group(2)))])
    mm = engine.find_model("<%s as Default>::default" % ty)
    if mm is not None and mm is not m_default:
        return mm(engine, ctx, [], "<%s as Default>::default" % ty, frame)
    fn = engine.program.resolve("<%s as Default>::default" % ty, frame.fn if frame else None)
    if fn is not None:
        return engine.run_fn(fn, [])
    raise Untranslatable("Default for %s" % ty)


@model(r"^core::str::<impl str>::parse::<age::x25519::Recipient>$")
def m_parse_recipient(engine, ctx, args, callee, frame):
    """age recipient parsing (bech32) is outside the claim: a definitely-malformed class is explored exactly,
    the well-formed class nondeterministically"""
    b = as_bytes(engine, args[0])
    if ctx.branch(ctx.fresh_bool("recipient_ok")):
        # an x25519 recipient is "age1" + 58 bech32 characters: exactly 62 bytes
        ctx.assume(b_and(int_binop("Eq", b.len, Int(62, 64)), int_binop("Eq", b.byte(0), Int(ord("a"), 8))))
        ctx.note("nondet_model", what="age::x25519::Recipient::from_str assumed to succeed")
        return ok(Opaque("Recipient", b))
    ctx.assume(b_or(int_binop("Eq", b.len, Int(0, 64)), int_binop("Ne", b.byte(0), Int(ord("a"), 8))))
    return err(Opaque("age::ParseError"))


@model(r"^<.* as Default>::default$", generic=True)
def m_default(engine, ctx, args, callee, frame):
    ty = re.match(r"^<(.*) as Default>::default$", callee).group(1)
    fn = engine.program.resolve(callee, frame.fn if frame else None)
    if fn is not None:
        return engine.run_fn(fn, [])
    return default_value(engine, ctx, ty, frame)


# ------------------------------------------------------------------ uuid

@model(r"(^|::)(<impl )?Uuid>?::from_bytes$")
def m_uuid_from_bytes(engine, ctx, args, callee, frame):
    return Agg("struct", "Uuid", [Cell(args[0])])


@model(r"(^|::)(<impl )?Uuid>?::from_slice$")
def m_uuid_from_slice(engine, ctx, args, callee, frame):
    """Uuid::from_slice: Ok for exactly 16 bytes, Err(uuid::Error) otherwise"""
    b = as_bytes(engine, args[0])
    if not ctx.branch(int_binop("Eq", b.len, Int(16, 64))):
        return err(Opaque("uuid::Error", "byte length"))
    return ok(Agg("struct", "Uuid", [Cell(Agg("array", None, [Cell(b.byte(i)) for i in range(16)]))]))


@model(r"(^|::)(<impl )?Uuid>?::as_bytes$")
def m_uuid_as_bytes(engine, ctx, args, callee, frame):
    u = deref(args[0])
    return Ref(u.fields[0])


@model(r"(^|::)(<impl )?Uuid>?::(nil|default)$|^<(uuid::)?Uuid as Default>::default$")
def m_uuid_nil(engine, ctx, args, callee, frame):
    return Agg("struct", "Uuid", [Cell(Agg("array", None, [Cell(Int(0, 8)) for _ in range(16)]))])


@model(r"(^|::)(<impl )?Uuid>?::new_v4$")
def m_uuid_new(engine, ctx, args, callee, frame):
    ctx.note("nondet", what="Uuid::new_v4", site=frame.fn.name if frame else None)
    return Agg("struct", "Uuid", [Cell(Agg("array", None, [Cell(Int(ctx.fresh_bv("uuid", 8), 8)) for _ in range(16)]))])


@model(r"^<(uuid::)?Uuid as (PartialEq|Clone|Copy)>::(eq|ne|clone)$")
def m_uuid_eq(engine, ctx, args, callee, frame):
    if callee.endswith("clone"):
        return deep_copy(deref(args[0]))
    c = seq_eq(engine, ctx, deref(args[0]).fields[0].v, deref(args[1]).fields[0].v)
    return b_not(c) if callee.endswith("ne") else c


# ------------------------------------------------------------------ time

MIN_TS = -377705116800      # -9999-01-01T00:00:00Z
MAX_TS = 253402300799       # 9999-12-31T23:59:59Z


def odt(secs, nanos):
    return Agg("struct", "OffsetDateTime", [Cell(secs), Cell(nanos)])


@model(r"^(time::)?OffsetDateTime::from_unix_timestamp$")
def m_from_unix(engine, ctx, args, callee, frame):
    s = args[0]
    inr = b_and(int_binop("Ge", s, Int(MIN_TS, 64, True)), int_binop("Le", s, Int(MAX_TS, 64, True)))
    if ctx.branch(inr):
        return ok(odt(s, Int(0, 32)))
    return err(Opaque("ComponentRange"))


@model(r"^(time::)?OffsetDateTime::unix_timestamp$")
def m_unix_ts(engine, ctx, args, callee, frame):
    return deref(args[0]).fields[0].v


@model(r"^(time::)?OffsetDateTime::nanosecond$")
def m_nanos(engine, ctx, args, callee, frame):
    return deref(args[0]).fields[1].v


@model(r"^(time::)?OffsetDateTime::now_utc$")
def m_now(engine, ctx, args, callee, frame):
    ctx.note("nondet", what="OffsetDateTime::now_utc", site=frame.fn.name if frame else None)
    s = Int(ctx.fresh_bv("now_s", 64), 64, True)
    n = Int(ctx.fresh_bv("now_ns", 32), 32, False)
    ctx.add(bz3(b_and(int_binop("Ge", s, Int(0, 64, True)), int_binop("Le", s, Int(MAX_TS - 10 ** 9, 64, True)))))
    ctx.add(bz3(int_binop("Lt", n, Int(10 ** 9, 32))))
    return odt(s, n)


@model(r"^(time::)?Duration::nanoseconds$")
def m_dur_nanos(engine, ctx, args, callee, frame):
    n = args[0]   # i64
    q = int_binop("Div", n, Int(10 ** 9, 64, True)) if n.concrete else None
    if q is None:
        # fresh q, r with the division lemma (cheaper than bit-blasting sdiv by a constant)
        qv = Int(ctx.fresh_bv("dq", 64), 64, True)
        rv = Int(ctx.fresh_bv("dr", 64), 64, True)
        ctx.add(qv.z3() * z3.BitVecVal(10 ** 9, 64) + rv.z3() == n.z3())
        ctx.add(z3.And(qv.z3() >= -9223372037, qv.z3() <= 9223372037))
        ctx.add(z3.And(rv.z3() > -(10 ** 9), rv.z3() < 10 ** 9))
        ctx.add(z3.Or(rv.z3() == 0, (rv.z3() < 0) == (n.z3() < 0)))
        return Agg("struct", "Duration", [Cell(qv), Cell(int_cast(rv, 32, True))])
    r = int_binop("Rem", n, Int(10 ** 9, 64, True))
    return Agg("struct", "Duration", [Cell(q), Cell(int_cast(r, 32, True))])


@model(r"^<(time::)?OffsetDateTime as (std::ops::)?Add<(time::)?Duration>>::add$|^(time::)?OffsetDateTime::checked_add$")
def m_odt_add(engine, ctx, args, callee, frame):
    a, d = args
    checked = callee.endswith("checked_add")
    s, ns = a.fields[0].v, a.fields[1].v
    ds, dn = d.fields[0].v, d.fields[1].v
    tn = int_binop("Add", int_cast(ns, 64, True), int_cast(dn, 64, True))    # in (-1e9, 2e9)
    secs = int_binop("Add", s, ds)
    if ctx.branch(overflow_flag("Add", s, ds)):
        # the sum of seconds does not even fit an i64: far outside the calendar range
        if checked:
            return none()
        raise Panic("overflow adding duration to date (time crate `Add` panics)", (frame.fn.name if frame else None,), kind="explicit")
    if ctx.branch(int_binop("Ge", tn, Int(10 ** 9, 64, True))):
        tn = int_binop("Sub", tn, Int(10 ** 9, 64, True))
        secs = int_binop("Add", secs, Int(1, 64, True))
    elif ctx.branch(int_binop("Lt", tn, Int(0, 64, True))):
        tn = int_binop("Add", tn, Int(10 ** 9, 64, True))
        secs = int_binop("Sub", secs, Int(1, 64, True))
    inr = b_and(int_binop("Ge", secs, Int(MIN_TS, 64, True)), int_binop("Le", secs, Int(MAX_TS, 64, True)))
    if not ctx.branch(inr):
        if checked:
            return none()
        raise Panic("overflow adding duration to date (time crate `Add` panics)", (frame.fn.name if frame else None,), kind="explicit")
    r = odt(secs, int_cast(tn, 32, False))
    return some(r) if checked else r


# ------------------------------------------------------------------ misc std

@model(r"^(std::|core::)?mem::(take|replace)::<")
def m_mem_take(engine, ctx, args, callee, frame):
    cell = deref_cell(args[0])
    old = cell.v
    if "replace" in callee:
        cell.v = args[1]
    else:
        ty = re.search(r"::<(.*)>$", callee).group(1)
        cell.v = default_value(engine, ctx, ty, frame)
    return old


@model(r"^(std::|core::)?mem::(drop|forget)::<|^drop::<")
def m_drop(engine, ctx, args, callee, frame):
    return unit()


@model(r"^<.* as Clone>::clone$", generic=True)
def m_clone_generic(engine, ctx, args, callee, frame):
    fn = engine.program.resolve(callee, frame.fn if frame else None)
    if fn is not None:
        return engine.run_fn(fn, args)
    return deep_copy(deref(args[0]))


@model(r"^(std::|core::)?(cmp::)?(min|max)::<|^<(\w+) as Ord>::(min|max)$|^(std::|core::)?cmp::Ord::(min|max)$")
def m_minmax(engine, ctx, args, callee, frame):
    a, b = args
    is_min = re.search(r"(min|max)(::<.*>)?$", callee).group(1) == "min"
    if ctx.branch(int_binop("Le", a, b)):
        return a if is_min else b
    return b if is_min else a


@model(r"^core::num::<impl (\w+)>::(from|to)_(le|be)_bytes$")
def m_int_bytes(engine, ctx, args, callee, frame):
    m = re.match(r"^core::num::<impl (\w+)>::(from|to)_(le|be)_bytes$", callee)
    bits, signed = int_type(m.group(1))
    if m.group(2) == "to":
        bs = le_bytes(args[0], bits // 8)
        if m.group(3) == "be":
            bs.reverse()
        return Agg("array", None, [Cell(b) for b in bs])
    items = [c.v for c in args[0].fields]
    if m.group(3) == "be":
        items = list(reversed(items))
    return from_le(items, bits, signed)


@model(r"^core::num::<impl (\w+)>::(checked|wrapping|saturating|overflowing)_(add|sub|mul)$")
def m_int_arith(engine, ctx, args, callee, frame):
    m = re.match(r"^core::num::<impl (\w+)>::(checked|wrapping|saturating|overflowing)_(add|sub|mul)$", callee)
    op = m.group(3).capitalize()
    a, b = args
    r = int_binop(op, a, b)
    o = overflow_flag(op, a, b)
    if m.group(2) == "wrapping":
        return r
    if m.group(2) == "overflowing":
        return Agg("tuple", "tuple", [Cell(r), Cell(o)])
    if m.group(2) == "checked":
        if ctx.branch(o):
            return none()
        return some(r)
    if ctx.branch(o):
        bits, signed = a.bits, a.signed
        if op == "Sub" and not signed:
            return Int(0, bits, signed)
        if not signed:
            return Int(mask(bits), bits, signed)
        raise Untranslatable("signed saturating arithmetic")
    return r


@model(r"^core::num::<impl (\w+)>::(is_power_of_two|count_ones|leading_zeros|trailing_zeros)$")
def m_int_bits(engine, ctx, args, callee, frame):
    a = args[0]
    v = ctx.concretize(a, 256, "bit query operand") & mask(a.bits)
    name = callee.split("::")[-1]
    if name == "is_power_of_two":
        return v != 0 and (v & (v - 1)) == 0
    if name == "count_ones":
        return Int(bin(v).count("1"), 32)
    if name == "leading_zeros":
        return Int(a.bits - v.bit_length(), 32)
    if name == "trailing_zeros":
        return Int((v & -v).bit_length() - 1 if v else a.bits, 32)


# ------------------------------------------------------------------ iterators

class IterV:
    """lazy iterator pipeline"""

    def __init__(self, kind, **kw):
        self.kind = kind
        self.__dict__.update(kw)

    def clone(self):
        c = IterV(self.kind)
        c.__dict__.update(self.__dict__)
        if hasattr(self, "inner"):
            c.inner = self.inner.clone() if hasattr(self.inner, "clone") else self.inner
        return c

    def __repr__(self):
        return "Iter(%s)" % self.kind


def seq_items(engine, ctx, v, by_ref):
    """sequence value -> python list of cells (concretising a symbolic length)"""
    if isinstance(v, Ref) and v.window is not None:
        v = engine.apply_window(v)
    v = deref(v)
    if isinstance(v, VecV):
        return v.items
    if isinstance(v, Agg) and v.kind == "array":
        return v.fields
    if isinstance(v, Bytes):
        n = ctx.concretize(v.len, 64, "length of iterated byte sequence")
        return [Cell(v.byte(i)) for i in range(n)]
    if isinstance(v, EnumV) and v.ty == "Option":
        return list(v.fields)
    if hasattr(v, "seq_items"):
        return v.seq_items(engine, ctx)
    raise Untranslatable("iterate over %s" % type(v).__name__)


def make_seq_iter(engine, ctx, v, by_ref):
    items = seq_items(engine, ctx, v, by_ref)
    return IterV("seq", items=list(items), idx=0, end=len(items), by_ref=by_ref)


def iter_next(engine, ctx, it):
    """returns value or None (exhausted)"""
    k = it.kind
    if k == "seq":
        if it.idx >= it.end:
            return None
        c = it.items[it.idx]
        it.idx += 1
        return Ref(c) if it.by_ref else c.v
    if k == "seq_rev":
        if it.idx >= it.end:
            return None
        it.end -= 1
        c = it.items[it.end]
        return Ref(c) if it.by_ref else c.v
    if k == "range":
        cap = getattr(engine, "collection_cap", None)
        if cap is not None and not it.stop.concrete:
            # round-trip mode: at most `cap` elements per collection and `collection_budget` per value
            used = getattr(ctx, "coll_used", 0)
            if (it.start.concrete and it.start.v >= cap) or used >= getattr(engine, "collection_budget", 1 << 30):
                ctx.assume(b_not(int_binop("Lt", it.start, it.stop)))
                return None
            if ctx.branch(int_binop("Lt", it.start, it.stop)):
                ctx.coll_used = used + 1
                v = it.start
                it.start = int_binop("Add", it.start, Int(1, v.bits, v.signed))
                return v
            return None
        if ctx.branch(int_binop("Lt", it.start, it.stop)):
            v = it.start
            it.start = int_binop("Add", it.start, Int(1, v.bits, v.signed))
            return v
        return None
    if k == "range_rev":
        if ctx.branch(int_binop("Lt", it.start, it.stop)):
            it.stop = int_binop("Sub", it.stop, Int(1, it.stop.bits, it.stop.signed))
            return it.stop
        return None
    if k == "map":
        x = iter_next(engine, ctx, it.inner)
        if x is None:
            return None
        return engine.call_closure(it.f, [x])
    if k == "filter_map":
        while True:
            x = iter_next(engine, ctx, it.inner)
            if x is None:
                return None
            r = engine.call_closure(it.f, [x])
            if r.variant == "Some":
                return r.fields[0].v
    if k == "filter":
        while True:
            x = iter_next(engine, ctx, it.inner)
            if x is None:
                return None
            r = engine.call_closure(it.f, [Ref(Cell(x))])
            if ctx.branch(r):
                return x
    if k == "enumerate":
        x = iter_next(engine, ctx, it.inner)
        if x is None:
            return None
        i = it.n
        it.n += 1
        return Agg("tuple", "tuple", [Cell(Int(i, 64)), Cell(x)])
    if k == "rev":
        return iter_next_back(engine, ctx, it.inner)
    if k == "cloned":
        x = iter_next(engine, ctx, it.inner)
        if x is None:
            return None
        return deep_copy(deref(x))
    if k == "zip":
        a = iter_next(engine, ctx, it.a)
        if a is None:
            return None
        b = iter_next(engine, ctx, it.b)
        if b is None:
            return None
        return Agg("tuple", "tuple", [Cell(a), Cell(b)])
    if k == "chain":
        a = iter_next(engine, ctx, it.a) if it.a is not None else None
        if a is not None:
            return a
        it.a = None
        return iter_next(engine, ctx, it.b)
    if k == "skip":
        while it.n > 0:
            it.n -= 1
            if iter_next(engine, ctx, it.inner) is None:
                return None
        return iter_next(engine, ctx, it.inner)
    if k == "take":
        if it.n <= 0:
            return None
        it.n -= 1
        return iter_next(engine, ctx, it.inner)
    if k == "empty":
        return None
    if k == "peekable":
        if it.has_peek:
            it.has_peek = False
            v = it.peeked
            it.peeked = None
            return v
        return iter_next(engine, ctx, it.inner)
    raise Untranslatable("iterator kind %s" % k)


def iter_next_back(engine, ctx, it):
    k = it.kind
    if k == "seq":
        if it.idx >= it.end:
            return None
        it.end -= 1
        c = it.items[it.end]
        return Ref(c) if it.by_ref else c.v
    if k == "range":
        if ctx.branch(int_binop("Lt", it.start, it.stop)):
            it.stop = int_binop("Sub", it.stop, Int(1, it.stop.bits, it.stop.signed))
            return it.stop
        return None
    if k == "map":
        x = iter_next_back(engine, ctx, it.inner)
        if x is None:
            return None
        return engine.call_closure(it.f, [x])
    if k == "rev":
        return iter_next(engine, ctx, it.inner)
    if k == "cloned":
        x = iter_next_back(engine, ctx, it.inner)
        return None if x is None else deep_copy(deref(x))
    raise Untranslatable("next_back on iterator kind %s" % k)


def as_iter(engine, ctx, v, callee=""):
    if isinstance(v, IterV):
        return v
    if isinstance(v, Agg) and v.ty in ("Range", "RangeInclusive"):
        if v.ty == "Range":
            return IterV("range", start=v.fields[0].v, stop=v.fields[1].v, holder=v)
    if isinstance(v, Ref) and isinstance(deref(v), IterV):
        return deref(v)
    if isinstance(v, Ref) and isinstance(deref(v), Agg) and deref(v).ty == "Range":
        return as_iter(engine, ctx, deref(v))
    if isinstance(v, Ref):
        return make_seq_iter(engine, ctx, v, True)
    return make_seq_iter(engine, ctx, v, False)


@model(r"^<.* as IntoIterator>::into_iter$", generic=True)
def m_into_iter(engine, ctx, args, callee, frame):
    v = args[0]
    if isinstance(v, IterV):
        return v
    if isinstance(v, Agg) and v.ty == "Range":
        return v
    return as_iter(engine, ctx, v, callee)


@model(r"^core::slice::<impl \[.*\]>::(iter|iter_mut)$|^(std::vec::)?Vec::<.*>::(iter|iter_mut)$|^(std::option::)?Option::<.*>::iter$")
def m_slice_iter(engine, ctx, args, callee, frame):
    return make_seq_iter(engine, ctx, args[0], True)


@model(r"^(std::vec::)?Vec::<.*>::(drain)::<")
def m_vec_drain(engine, ctx, args, callee, frame):
    cell = deref_cell(args[0])
    v = cell.v
    rng = args[1]
    if isinstance(v, VecV) and isinstance(rng, Agg) and rng.ty == "RangeFull":
        items = list(v.items)
        v.items[:] = []
        return IterV("seq", items=items, idx=0, end=len(items), by_ref=False)
    if isinstance(v, VecV) and isinstance(rng, Agg) and rng.ty in ("Range", "RangeFrom", "RangeTo", "RangeInclusive", "RangeToInclusive"):
        n = len(v.items)
        fs = [c.v for c in rng.fields]
        lo, hi = 0, n
        if rng.ty in ("Range", "RangeInclusive"):
            lo = ctx.concretize(fs[0], n + 2, "drain start")
            hi = ctx.concretize(fs[1], n + 2, "drain end") + (1 if rng.ty == "RangeInclusive" else 0)
        elif rng.ty == "RangeFrom":
            lo = ctx.concretize(fs[0], n + 2, "drain start")
        else:
            hi = ctx.concretize(fs[0], n + 2, "drain end") + (1 if rng.ty == "RangeToInclusive" else 0)
        if lo > hi or hi > n:
            raise Panic("drain range out of bounds", (frame.fn.name if frame else None,), kind="bounds")
        items = v.items[lo:hi]
        del v.items[lo:hi]
        return IterV("seq", items=items, idx=0, end=len(items), by_ref=False)
    raise Untranslatable("Vec::drain with %r" % (rng,))


def range_writeback(it):
    h = getattr(it, "holder", None)
    if h is not None:
        h.fields[0].v = it.start
        h.fields[1].v = it.stop


@model(r"^<.* as (std::iter::)?(Iterator|DoubleEndedIterator)>::(next|next_back)$")
def m_iter_next(engine, ctx, args, callee, frame):
    target = deref(args[0])
    it = as_iter(engine, ctx, target)
    if callee.endswith("next_back"):
        x = iter_next_back(engine, ctx, it)
    else:
        x = iter_next(engine, ctx, it)
    if it.kind == "range":
        range_writeback(it)
    return none() if x is None else some(x)


def adaptor(kind):
    def f(engine, ctx, args, callee, frame):
        inner = as_iter(engine, ctx, args[0])
        if kind in ("map", "filter_map", "filter"):
            return IterV(kind, inner=inner, f=args[1])
        if kind == "enumerate":
            return IterV(kind, inner=inner, n=0)
        if kind in ("rev", "cloned", "copied"):
            return IterV("cloned" if kind == "copied" else kind, inner=inner)
        if kind == "zip":
            return IterV(kind, a=inner, b=as_iter(engine, ctx, args[1]))
        if kind == "chain":
            return IterV(kind, a=inner, b=as_iter(engine, ctx, args[1]))
        if kind in ("skip", "take"):
            return IterV(kind, inner=inner, n=ctx.concretize(args[1], 64, kind))
        raise Untranslatable("adaptor " + kind)
    return f


for _k in ("map", "filter_map", "filter", "enumerate", "rev", "cloned", "copied", "zip", "chain", "skip", "take"):
    MODELS.append((re.compile(r"^<.* as (std::iter::)?Iterator>::%s(::<.*>)?$|^(std::iter::)?Iterator::%s(::<.*>)?$" % (_k, _k)), adaptor(_k)))


def drain(engine, ctx, it, limit=None):
    out = []
    n = 0
    while True:
        x = iter_next(engine, ctx, it)
        if x is None:
            return out
        out.append(x)
        n += 1
        if n > (limit or engine.loop_bound * 4):
            raise BoundHit("iterator longer than bound")


@model(r"^<.* as (std::iter::)?Iterator>::collect::<(.*)>$|^(std::iter::)?Iterator::collect::<")
def m_collect(engine, ctx, args, callee, frame):
    target = re.search(r"collect::<(.*)>$", callee).group(1)
    it = as_iter(engine, ctx, args[0])
    items = drain(engine, ctx, it)
    tl = last_ident(target)
    if tl == "Vec":
        m = re.match(r"^(?:std::vec::)?Vec<(.*)>$", target)
        ety = m.group(1) if m else "_"
        if ety == "u8":
            return bytes_from_ints(items)
        return VecV(ety, [Cell(x) for x in items])
    if tl == "Result":
        # Result<Vec<T>, E>: stop at first Err
        out = []
        for x in items:
            if x.variant == "Err":
                return x
            out.append(Cell(x.fields[0].v))
        return ok(VecV("_", out))
    if tl in ("HashSet", "BTreeSet", "IndexSet"):
        s = SetV(tl)
        for x in items:
            s.insert(engine, ctx, x)
        return s
    if tl in ("HashMap", "BTreeMap", "IndexMap"):
        mp = MapV(tl)
        for x in items:
            mp.insert(engine, ctx, x.fields[0].v, x.fields[1].v)
        return mp
    raise Untranslatable("collect into %s" % target)


@model(r"^<.* as (std::iter::)?Iterator>::(count|last|for_each|any|all|find|position|fold)(::<.*>)?$")
def m_iter_consumers(engine, ctx, args, callee, frame):
    name = re.search(r"Iterator>::(\w+)", callee).group(1)
    it = as_iter(engine, ctx, args[0] if not isinstance(args[0], Ref) else deref(args[0]))
    if name == "count":
        return Int(len(drain(engine, ctx, it)), 64)
    if name == "last":
        items = drain(engine, ctx, it)
        return some(items[-1]) if items else none()
    if name == "for_each":
        for x in drain(engine, ctx, it):
            engine.call_closure(args[1], [x])
        return unit()
    if name in ("any", "all"):
        while True:
            x = iter_next(engine, ctx, it)
            if x is None:
                return name == "all"
            r = engine.call_closure(args[1], [x])
            if ctx.branch(r):
                if name == "any":
                    return True
            else:
                if name == "all":
                    return False
    if name == "find":
        while True:
            x = iter_next(engine, ctx, it)
            if x is None:
                return none()
            r = engine.call_closure(args[1], [Ref(Cell(x))])
            if ctx.branch(r):
                return some(x)
    if name == "position":
        i = 0
        while True:
            x = iter_next(engine, ctx, it)
            if x is None:
                return none()
            r = engine.call_closure(args[1], [x])
            if ctx.branch(r):
                return some(Int(i, 64))
            i += 1
    if name == "fold":
        acc = args[1]
        for x in drain(engine, ctx, it):
            acc = engine.call_closure(args[2], [acc, x])
        return acc
    raise Untranslatable("iterator consumer %s" % name)


# ------------------------------------------------------------------ maps and sets (association lists)

def key_eq(engine, ctx, a, b):
    """structural equality of two key values -> bool (forks on symbolic comparisons)"""
    c = value_eq_cond(engine, ctx, a, b)
    return ctx.branch(c)


def value_eq_cond(engine, ctx, a, b):
    """z3/py condition that two values are structurally equal (no forking for ints/arrays)"""
    a, b = deref(a), deref(b)
    if isinstance(a, Int) and isinstance(b, Int):
        return int_binop("Eq", a, b)
    ue = getattr(engine, "user_eq_types", None)
    if ue and isinstance(a, Agg) and isinstance(b, Agg) and a.kind == "struct" and a.ty in ue and b.ty == a.ty:
        # key type with a hand-written PartialEq: ask the real impl (opt-in per harness)
        r = engine.call_named("<%s as PartialEq>::eq" % a.ty, [Ref(Cell(a)), Ref(Cell(b))], None)
        return to_bool(r) if not isinstance(r, bool) else r
    if isinstance(a, bool) or isinstance(b, bool) or (z3.is_expr(a) and z3.is_bool(a)):
        return to_bool(bz3(a) == bz3(b))
    if isinstance(a, Bytes) or isinstance(b, Bytes) or getattr(a, "hash_term", False) or getattr(b, "hash_term", False):
        return seq_eq(engine, ctx, a, b)
    if isinstance(a, Agg) and isinstance(b, Agg):
        if len(a.fields) != len(b.fields):
            return False
        c = True
        for x, y in zip(a.fields, b.fields):
            c = b_and(c, value_eq_cond(engine, ctx, x.v, y.v))
            if c is False:
                return False
        return c
    if isinstance(a, EnumV) and isinstance(b, EnumV):
        if a.variant != b.variant:
            return False
        c = True
        for x, y in zip(a.fields, b.fields):
            c = b_and(c, value_eq_cond(engine, ctx, x.v, y.v))
        return c
    if isinstance(a, VecV) and isinstance(b, VecV):
        if len(a.items) != len(b.items):
            return False
        c = True
        for x, y in zip(a.items, b.items):
            c = b_and(c, value_eq_cond(engine, ctx, x.v, y.v))
        return c
    if a is None and b is None:
        return True
    raise Untranslatable("equality of %s and %s" % (type(a).__name__, type(b).__name__))


class MapV:
    def __init__(self, kind):
        self.kind = kind
        self.entries = []     # list of (key value, Cell)

    def clone(self):
        m = MapV(self.kind)
        m.entries = [(deep_copy(k), Cell(deep_copy(c.v))) for k, c in self.entries]
        return m

    def find(self, engine, ctx, key):
        for i, (k, c) in enumerate(self.entries):
            if key_eq(engine, ctx, k, key):
                return i
        return None

    def insert(self, engine, ctx, key, val):
        i = self.find(engine, ctx, key)
        if i is not None:
            old = self.entries[i][1].v
            self.entries[i][1].v = val
            return some(old)
        self.add_entry(engine, ctx, key, Cell(val))
        return none()

    def add_entry(self, engine, ctx, key, cell):
        """append; a BTreeMap keeps its entries in key order (derive-style lexicographic comparison)"""
        if self.kind == "BTreeMap":
            for i, (k, _) in enumerate(self.entries):
                if compare_values(engine, ctx, key, k) < 0:
                    self.entries.insert(i, (key, cell))
                    return
        self.entries.append((key, cell))

    def seq_len(self):
        return Int(len(self.entries), 64)

    def __repr__(self):
        return "%s%r" % (self.kind, [(k, c.v) for k, c in self.entries])


class SetV:
    def __init__(self, kind):
        self.kind = kind
        self.items = []

    def clone(self):
        s = SetV(self.kind)
        s.items = [deep_copy(x) for x in self.items]
        return s

    def contains(self, engine, ctx, key):
        for k in self.items:
            if key_eq(engine, ctx, k, key):
                return True
        return False

    def insert(self, engine, ctx, key):
        if self.contains(engine, ctx, key):
            return False
        if self.kind == "BTreeSet":
            for i, k in enumerate(self.items):
                if compare_values(engine, ctx, key, k) < 0:
                    self.items.insert(i, key)
                    return True
        self.items.append(key)
        return True

    def seq_len(self):
        return Int(len(self.items), 64)

    def seq_items(self, engine, ctx):
        return [Cell(x) for x in self.items]

    def __repr__(self):
        return "%s%r" % (self.kind, self.items)


# ------------------------------------------------------------------ bitflags! generated types

def bitflags_all(engine, frame):
    """union of the flag constants declared by the bitflags! type of the crate that owns `frame`'s function.
    The constants are read from the MIR (`const <impl ..>::NAME: T = from_bits_retain(const N)`)."""
    crate = frame.fn.crate if frame is not None else None
    cache = engine.__dict__.setdefault("_bitflags_all", {})
    if crate in cache:
        return cache[crate]
    by_type = {}
    for (cr, key), fn in engine.program.fns.items():
        if cr != crate or fn.kind != "const" or not fn.blocks:
            continue
        if "bitflags-" not in fn.name:
            continue
        b0 = fn.blocks.get(0)
        if b0 is None or b0.term is None or b0.term.kind != "call":
            continue
        if not b0.term.callee.endswith("from_bits_retain"):
            continue
        m = re.fullmatch(r"(\d+)_u(\d+)", b0.term.args[0].const or "")
        if not m:
            raise Untranslatable("bitflags constant %s is not a literal" % fn.name)
        by_type.setdefault(fn.ret_type, []).append((fn.name.split("::")[-1], int(m.group(1)), int(m.group(2))))
    if len(by_type) != 1:
        raise Untranslatable("bitflags: %d flag types in crate %s" % (len(by_type), crate))
    (ty, flags), = by_type.items()
    allbits = 0
    for _, v, bits in flags:
        allbits |= v
    cache[crate] = (ty, allbits, flags[0][2])
    return cache[crate]


@model(r"(^|::)InternalBitFlags::from_bits_truncate$")
def m_bitflags_truncate(engine, ctx, args, callee, frame):
    ty, allbits, bits = bitflags_all(engine, frame)
    v = int_binop("BitAnd", args[0], Int(allbits, bits))
    return Agg("struct", "InternalBitFlags", [Cell(v)])


@model(r"(^|::)InternalBitFlags::all$")
def m_bitflags_all(engine, ctx, args, callee, frame):
    ty, allbits, bits = bitflags_all(engine, frame)
    return Agg("struct", "InternalBitFlags", [Cell(Int(allbits, bits))])



# ------------------------------------------------------------------ secrecy

@model(r"^(secrecy::)?SecretBox::<.*>::new$|^<(secrecy::)?SecretBox<.*> as From<.*>>::from$|^(secrecy::)?SecretBox::<.*>::init_with")
def m_secret_new(engine, ctx, args, callee, frame):
    v = args[0]
    if isinstance(v, Ref):
        v = v.cell.v
    return Agg("struct", "SecretBox", [Cell(v)])


@model(r"^<(secrecy::)?SecretBox<.*> as (secrecy::)?ExposeSecret<.*>>::expose_secret$")
def m_expose_secret(engine, ctx, args, callee, frame):
    b = deref(args[0])
    return Ref(b.fields[0])


@model(r"^<(secrecy::)?SecretBox<.*> as Default>::default$")
def m_secret_default(engine, ctx, args, callee, frame):
    return Agg("struct", "SecretBox", [Cell(bytes_from_concrete(b"", utf8=True))])


@model(r"^<(HashMap|IndexMap|BTreeMap)<.*> as Default>::default$|^(HashMap|IndexMap|BTreeMap)::<.*>::(new|with_capacity)$")
def m_map_new(engine, ctx, args, callee, frame):
    kind = re.search(r"(HashMap|IndexMap|BTreeMap)", callee).group(1)
    if callee.endswith("with_capacity") and args:
        ctx.note("alloc", size=args[0], elem="map-entry", what="%s::with_capacity" % kind, site=frame.fn.name if frame else None)
    return MapV(kind)


@model(r"^<(HashSet|IndexSet|BTreeSet)<.*> as Default>::default$|^(HashSet|IndexSet|BTreeSet)::<.*>::(new|with_capacity)$")
def m_set_new(engine, ctx, args, callee, frame):
    kind = re.search(r"(HashSet|IndexSet|BTreeSet)", callee).group(1)
    if callee.endswith("with_capacity") and args:
        ctx.note("alloc", size=args[0], elem="map-entry", what="%s::with_capacity" % kind, site=frame.fn.name if frame else None)
    return SetV(kind)


# ------------------------------------------------------------------ map / set operations

def get_map(v):
    o = deref(v)
    if not isinstance(o, (MapV, SetV)):
        raise Untranslatable("map/set operation on %s" % type(o).__name__)
    return o


@model(r"^(HashMap|IndexMap|BTreeMap)::<.*>::insert$")
def m_map_insert(engine, ctx, args, callee, frame):
    return get_map(args[0]).insert(engine, ctx, args[1], args[2])


@model(r"^(HashSet|IndexSet|BTreeSet)::<.*>::insert$")
def m_set_insert(engine, ctx, args, callee, frame):
    return get_map(args[0]).insert(engine, ctx, args[1])


@model(r"^(HashMap|IndexMap|BTreeMap)::<.*>::(get|get_mut)::<")
def m_map_get(engine, ctx, args, callee, frame):
    mp = get_map(args[0])
    i = mp.find(engine, ctx, args[1])
    if i is None:
        return none()
    return some(Ref(mp.entries[i][1]))


@model(r"^(HashMap|IndexMap|BTreeMap)::<.*>::contains_key::<")
def m_map_contains(engine, ctx, args, callee, frame):
    return get_map(args[0]).find(engine, ctx, args[1]) is not None


@model(r"^(HashSet|IndexSet|BTreeSet)::<.*>::contains::<")
def m_set_contains(engine, ctx, args, callee, frame):
    return get_map(args[0]).contains(engine, ctx, args[1])


@model(r"^(HashMap|BTreeMap)::<.*>::remove::<|^IndexMap::<.*>::(shift_remove|swap_remove|remove)::<")
def m_map_remove(engine, ctx, args, callee, frame):
    mp = get_map(args[0])
    i = mp.find(engine, ctx, args[1])
    if i is None:
        return none()
    if "swap_remove" in callee and i != len(mp.entries) - 1:
        k, c = mp.entries[i]
        mp.entries[i] = mp.entries[-1]
        mp.entries.pop()
        return some(c.v)
    k, c = mp.entries.pop(i)
    return some(c.v)


@model(r"^(HashSet|BTreeSet)::<.*>::remove::<|^IndexSet::<.*>::(shift_remove|swap_remove|remove)::<")
def m_set_remove(engine, ctx, args, callee, frame):
    st = get_map(args[0])
    for i, k in enumerate(st.items):
        if key_eq(engine, ctx, k, args[1]):
            st.items.pop(i)
            return True
    return False


@model(r"^(HashMap|IndexMap|BTreeMap|HashSet|IndexSet|BTreeSet)::<.*>::(len|is_empty)$")
def m_map_len(engine, ctx, args, callee, frame):
    n = get_map(args[0]).seq_len()
    if callee.endswith("is_empty"):
        return n.v == 0
    return n


@model(r"^(HashMap|IndexMap|BTreeMap|HashSet|IndexSet|BTreeSet)::<.*>::clear$")
def m_map_clear(engine, ctx, args, callee, frame):
    o = get_map(args[0])
    if isinstance(o, MapV):
        o.entries[:] = []
    else:
        o.items[:] = []
    return unit()


def map_iter(engine, ctx, mp, what):
    if isinstance(mp, SetV):
        return IterV("seq", items=[Cell(x) for x in mp.items], idx=0, end=len(mp.items), by_ref=True)
    if what == "keys":
        items = [Cell(k) for k, _ in mp.entries]
        return IterV("seq", items=items, idx=0, end=len(items), by_ref=True)
    if what == "values":
        items = [c for _, c in mp.entries]
        return IterV("seq", items=items, idx=0, end=len(items), by_ref=True)
    items = [Cell(Agg("tuple", "tuple", [Cell(Ref(Cell(k))), Cell(Ref(c))])) for k, c in mp.entries]
    return IterV("seq", items=items, idx=0, end=len(items), by_ref=False)


@model(r"^(HashMap|IndexMap|BTreeMap|HashSet|IndexSet|BTreeSet)::<.*>::(iter|iter_mut|keys|values|values_mut)$")
def m_map_iter(engine, ctx, args, callee, frame):
    what = callee.split("::")[-1]
    return map_iter(engine, ctx, get_map(args[0]), "keys" if what == "keys" else ("values" if what.startswith("values") else "iter"))


@model(r"^<&(mut )?(HashMap|IndexMap|BTreeMap|HashSet|IndexSet|BTreeSet)<.*> as IntoIterator>::into_iter$")
def m_map_ref_into_iter(engine, ctx, args, callee, frame):
    return map_iter(engine, ctx, get_map(args[0]), "iter")


@model(r"^<(HashMap|IndexMap|BTreeMap|HashSet|IndexSet|BTreeSet)<.*> as IntoIterator>::into_iter$")
def m_map_into_iter(engine, ctx, args, callee, frame):
    mp = args[0]
    if isinstance(mp, SetV):
        return IterV("seq", items=[Cell(x) for x in mp.items], idx=0, end=len(mp.items), by_ref=False)
    items = [Cell(Agg("tuple", "tuple", [Cell(k), Cell(c.v)])) for k, c in mp.entries]
    return IterV("seq", items=items, idx=0, end=len(items), by_ref=False)


# ------------------------------------------------------------------ external text parsers (outside the claim)

@model(r"^core::str::<impl str>::parse::<String>$")
def m_parse_string(engine, ctx, args, callee, frame):
    return ok(deep_copy(deref(args[0])))


def opaque_parser(name, definitely_bad):
    """the external parser `name` is explored through one definitely-rejected input class (exact) and an
    assumed-success class (flagged nondet_model, excluded from outcome comparison)"""
    def f(engine, ctx, args, callee, frame):
        b = as_bytes(engine, args[0])
        seen = ctx.__dict__.setdefault("parsed_ok", [])
        for pn, pb in seen:
            # the parser is a function of the text: a string equal to one it accepted on this path is accepted again
            if pn == name and ctx.must(eq_formula(engine, pb, b)):
                return ok(Opaque(name, b))
        if ctx.branch(ctx.fresh_bool(name + "_ok")):
            ctx.note("nondet_model", what="%s assumed to succeed" % name)
            ctx.assume(int_binop("Gt", b.len, Int(0, 64)))
            ctx.assume(b_not(definitely_bad(b)))
            seen.append((name, b))
            return ok(Opaque(name, b))
        ctx.assume(definitely_bad(b))
        return err(Opaque(name + "::Error"))
    return f


def _not_alpha_start(b):
    c = b.byte(0)
    alpha = b_or(b_and(int_binop("Ge", c, Int(0x41, 8)), int_binop("Le", c, Int(0x5A, 8))),
                 b_and(int_binop("Ge", c, Int(0x61, 8)), int_binop("Le", c, Int(0x7A, 8))))
    return b_or(int_binop("Eq", b.len, Int(0, 64)), b_not(alpha))


MODELS.append((re.compile(r"^core::str::<impl str>::parse::<(url::)?Url>$|^(url::)?Url::parse$"), opaque_parser("Url", _not_alpha_start)))
MODELS.append((re.compile(r"^core::str::<impl str>::parse::<(urn::)?Urn>$"), opaque_parser("Urn", _not_alpha_start)))


@model(r"^(pem::)?parse_many::<")
def m_pem_parse_many(engine, ctx, args, callee, frame):
    """pem::parse_many: text without any '-' contains no PEM block -> Ok(vec![]); the rest is assumed-success"""
    b = as_bytes(engine, args[0])
    if ctx.branch(ctx.fresh_bool("pem_has_blocks")):
        ctx.note("nondet_model", what="pem::parse_many assumed to succeed on text with PEM markers")
        ctx.assume(int_binop("Ge", b.len, Int(11, 64)))
        return ok(VecV("Pem", [Cell(Opaque("Pem", b))]))
    scan = getattr(engine, "max_input", 256)
    key = ("nodash", scan, b.arr.get_id(), b.off.v if b.off.concrete else b.off.v.get_id(),
           b.len.v if b.len.concrete else b.len.v.get_id())
    f = _FORMULA_CACHE.get(key)
    if f is None:
        f = (z3.And(*[z3.Implies(z3.ULT(z3.BitVecVal(i, 64), b.len.z3()), b.byte(i).z3() != 0x2D) for i in range(scan)]), b)
        _FORMULA_CACHE[key] = f
    ctx.assume(f[0])
    return ok(VecV("Pem", []))


@model(r"^(core::str::)?from_utf8$")
def m_str_from_utf8(engine, ctx, args, callee, frame):
    b = as_bytes(engine, args[0])
    if utf8_check(engine, ctx, b):
        return ok(Ref(Cell(Bytes(b.arr, b.off, b.len, utf8=True))))
    return err(Opaque("Utf8Error"))


@model(r"^<Box<.*> as From<.*>>::from$")
def m_box_from(engine, ctx, args, callee, frame):
    m = re.match(r"^<Box<(.*)> as From<(.*)>>::from$", callee)
    if m.group(1) in ("str", "[u8]"):
        return args[0]
    return Ref(Cell(args[0]))



# ------------------------------------------------------------------ vec![a, b, ..] expansion

@model(r"^Box::<\[.*; \d+\]>::new_uninit$")
def m_box_new_uninit(engine, ctx, args, callee, frame):
    arrcell = Cell(None)
    mu = Agg("struct", "MaybeUninit", [Cell(unit()), Cell(Agg("struct", "ManuallyDrop", [Cell(Agg("struct", "MaybeDangling", [arrcell]))]))])
    return Agg("struct", "BoxUninit", [Cell(Agg("struct", "Unique", [Cell(Ref(Cell(mu)))]))])


@model(r"^(std::boxed::)?box_assume_init_into_vec_unsafe::<")
def m_box_into_vec(engine, ctx, args, callee, frame):
    mu = args[0].fields[0].v.fields[0].v.cell.v
    arr = mu.fields[1].v.fields[0].v.fields[0].v
    ety = re.search(r"::<(.*), \d+>$", callee).group(1)
    if ety == "u8":
        return bytes_from_ints([c.v for c in arr.fields])
    return VecV(ety, list(arr.fields))


@model(r"^core::slice::<impl \[.*\]>::into_vec::<|^<\[.*\]>::into_vec")
def m_slice_into_vec(engine, ctx, args, callee, frame):
    v = deref(args[0])
    if isinstance(v, Agg) and v.kind == "array":
        return VecV("_", list(v.fields))
    return v


def _bad_first(chars):
    def f(b):
        c = b.byte(0)
        cond = int_binop("Eq", b.len, Int(0, 64))
        ne = True
        for ch in chars:
            ne = b_and(ne, int_binop("Ne", c, Int(ord(ch), 8)))
        return b_or(cond, ne)
    return f


def _json_bad(b):
    return b_or(int_binop("Eq", b.len, Int(0, 64)), int_binop("Eq", b.byte(0), Int(0x21, 8)))


MODELS.append((re.compile(r"^serde_json::from_(slice|str)::<"), opaque_parser("serde_json", _json_bad)))
MODELS.append((re.compile(r"^vcard4::parse::<"), opaque_parser("vcard4", _bad_first("Bb"))))
MODELS.append((re.compile(r"^core::str::<impl str>::parse::<age::x25519::Identity>$"), opaque_parser("age::Identity", _bad_first("Aa"))))


# ------------------------------------------------------------------ more slice / Vec / Option operations

def seq_cells(engine, ctx, v):
    """cells of a sequence (list; for Bytes materialised copies)"""
    return seq_items(engine, ctx, v, True)


@model(r"^core::slice::<impl \[.*\]>::(last|first)$|^(std::vec::)?Vec::<.*>::(last|first)$")
def m_slice_last(engine, ctx, args, callee, frame):
    items = seq_cells(engine, ctx, args[0])
    if not items:
        return none()
    c = items[-1] if callee.endswith("last") else items[0]
    return some(Ref(c))


@model(r"^core::slice::<impl \[.*\]>::(last_mut|first_mut)$|^(std::vec::)?Vec::<.*>::(last_mut|first_mut)$")
def m_slice_last_mut(engine, ctx, args, callee, frame):
    items = seq_cells(engine, ctx, args[0])
    if not items:
        return none()
    c = items[-1] if callee.endswith("last_mut") else items[0]
    return some(Ref(c))


@model(r"^core::slice::<impl \[.*\]>::(get|get_mut)::<usize>$|^(std::vec::)?Vec::<.*>::(get|get_mut)::<usize>$")
def m_slice_get(engine, ctx, args, callee, frame):
    v = args[0]
    idx = args[1]
    tgt = deref(v) if not (isinstance(v, Ref) and v.window is not None) else engine.apply_window(v)
    if isinstance(tgt, Bytes):
        if ctx.branch(int_binop("Lt", idx, tgt.len)):
            return some(Ref(Cell(tgt.byte(idx))))
        return none()
    items = seq_cells(engine, ctx, v)
    if idx.concrete:
        if idx.v < len(items):
            return some(Ref(items[idx.v]))
        return none()
    if ctx.branch(int_binop("Lt", idx, Int(len(items), 64))):
        k = ctx.concretize(idx, len(items) + 1, "slice index")
        return some(Ref(items[k]))
    return none()


@model(r"^(std::option::)?Option::<&.*>::(cloned|copied)$")
def m_option_cloned(engine, ctx, args, callee, frame):
    r = args[0]
    if r.variant == "None":
        return none()
    return some(deep_copy(deref(r.fields[0].v)))


@model(r"^(std::option::)?Option::<.*>::unwrap_or$")
def m_option_unwrap_or(engine, ctx, args, callee, frame):
    r = args[0]
    return r.fields[0].v if r.variant == "Some" else args[1]


@model(r"^(std::option::)?Option::<.*>::unwrap_or_else::<")
def m_option_unwrap_or_else(engine, ctx, args, callee, frame):
    r = args[0]
    return r.fields[0].v if r.variant == "Some" else engine.call_closure(args[1], [])


@model(r"^(std::option::)?Option::<.*>::and_then::<")
def m_option_and_then(engine, ctx, args, callee, frame):
    r = args[0]
    if r.variant == "None":
        return none()
    return engine.call_closure(args[1], [r.fields[0].v])


@model(r"^(std::option::)?Option::<.*>::map_or::<|^(std::option::)?Option::<.*>::is_some_and::<")
def m_option_map_or(engine, ctx, args, callee, frame):
    r = args[0]
    if "is_some_and" in callee:
        if r.variant == "None":
            return False
        return engine.call_closure(args[1], [r.fields[0].v])
    if r.variant == "None":
        return args[1]
    return engine.call_closure(args[2], [r.fields[0].v])


@model(r"^(std::option::)?Option::<.*>::(insert|replace)$")
def m_option_insert(engine, ctx, args, callee, frame):
    cell = deref_cell(args[0])
    old = cell.v
    cell.v = some(args[1])
    if callee.endswith("replace"):
        return old
    return Ref(cell.v.fields[0])


@model(r"^<(std::option::)?Option<.*> as PartialEq>::(eq|ne)$")
def m_option_eq(engine, ctx, args, callee, frame):
    a, b = deref(args[0]), deref(args[1])
    c = value_eq_cond(engine, ctx, a, b)
    return b_not(c) if callee.endswith("ne") else c


@model(r"^core::slice::<impl \[.*\]>::to_vec$|^<\[.*\] as ToOwned>::to_owned$|^<&\[.*\] as Into<Vec<.*>>>::into$|^<(std::vec::)?Vec<.*> as From<&\[.*\]>>::from$")
def m_to_vec(engine, ctx, args, callee, frame):
    v = args[0]
    tgt = engine.apply_window(v) if (isinstance(v, Ref) and v.window is not None) else deref(v)
    if isinstance(tgt, Bytes):
        return tgt
    items = seq_cells(engine, ctx, v)
    return VecV("_", [Cell(deep_copy(c.v)) for c in items])


@model(r"^core::slice::<impl \[.*\]>::contains$|^(std::vec::)?Vec::<.*>::contains$")
def m_slice_contains(engine, ctx, args, callee, frame):
    for c in seq_cells(engine, ctx, args[0]):
        if key_eq(engine, ctx, c.v, args[1]):
            return True
    return False


@model(r"^(std::vec::)?Vec::<.*>::(append)$")
def m_vec_append(engine, ctx, args, callee, frame):
    dst = deref_cell(args[0])
    src = deref_cell(args[1])
    if isinstance(dst.v, Bytes) or isinstance(src.v, Bytes):
        a, b = as_bytes(engine, dst.v), as_bytes(engine, src.v)
        na = ctx.concretize(a.len, 64, "Vec<u8> append")
        nb = ctx.concretize(b.len, 64, "Vec<u8> append")
        dst.v = bytes_from_ints([a.byte(i) for i in range(na)] + [b.byte(i) for i in range(nb)])
        src.v = bytes_from_concrete(b"")
        return unit()
    dst.v.items.extend(src.v.items)
    src.v.items[:] = []
    return unit()


@model(r"^(std::vec::)?Vec::<.*>::extend_from_slice$|^<(std::vec::)?Vec<.*> as Extend<.*>>::extend::<")
def m_vec_extend(engine, ctx, args, callee, frame):
    dst = deref_cell(args[0])
    if isinstance(dst.v, Bytes):
        a, b = as_bytes(engine, dst.v), as_bytes(engine, args[1])
        na = ctx.concretize(a.len, 64, "Vec<u8> extend")
        nb = ctx.concretize(b.len, 64, "Vec<u8> extend")
        dst.v = bytes_from_ints([a.byte(i) for i in range(na)] + [b.byte(i) for i in range(nb)])
        return unit()
    src = args[1]
    if isinstance(src, IterV) or (isinstance(src, Agg) and src.ty == "Range"):
        items = drain(engine, ctx, as_iter(engine, ctx, src))
        dst.v.items.extend(Cell(x) for x in items)
        return unit()
    by_val = not isinstance(src, Ref)
    for c in seq_cells(engine, ctx, src):
        dst.v.items.append(Cell(c.v if by_val else deep_copy(c.v)))
    return unit()


@model(r"^(std::vec::)?Vec::<.*>::pop$")
def m_vec_pop(engine, ctx, args, callee, frame):
    v = deref(args[0])
    if isinstance(v, Bytes):
        raise Untranslatable("Vec<u8>::pop")
    if not v.items:
        return none()
    return some(v.items.pop().v)


@model(r"^(std::vec::)?Vec::<.*>::insert$")
def m_vec_insert(engine, ctx, args, callee, frame):
    v = deref(args[0])
    k = ctx.concretize(args[1], 64, "Vec::insert index")
    if k > len(v.items):
        raise Panic("insertion index (is %d) should be <= len (is %d)" % (k, len(v.items)), (frame.fn.name if frame else None,))
    v.items.insert(k, Cell(args[2]))
    return unit()


@model(r"^(std::vec::)?Vec::<.*>::remove$")
def m_vec_remove(engine, ctx, args, callee, frame):
    v = deref(args[0])
    k = ctx.concretize(args[1], 64, "Vec::remove index")
    if k >= len(v.items):
        raise Panic("removal index (is %d) should be < len (is %d)" % (k, len(v.items)), (frame.fn.name if frame else None,))
    return v.items.pop(k).v


@model(r"^(std::vec::)?Vec::<.*>::truncate$")
def m_vec_truncate(engine, ctx, args, callee, frame):
    cell = deref_cell(args[0])
    v = cell.v
    k = ctx.concretize(args[1], 64, "Vec::truncate length")
    if isinstance(v, Bytes):
        if ctx.branch(int_binop("Lt", Int(k, 64), v.len)):
            cell.v = Bytes(v.arr, v.off, Int(k, 64), v.utf8)
        return unit()
    del v.items[k:]
    return unit()


@model(r"^(std::vec::)?Vec::<.*>::split_off$")
def m_vec_split_off(engine, ctx, args, callee, frame):
    v = deref(args[0])
    k = ctx.concretize(args[1], 64, "Vec::split_off index")
    if k > len(v.items):
        raise Panic("`at` split index (is %d) should be <= len (is %d)" % (k, len(v.items)), (frame.fn.name if frame else None,))
    tail = v.items[k:]
    del v.items[k:]
    return VecV(v.ty, tail)


@model(r"^core::slice::<impl \[.*\]>::reverse$")
def m_slice_reverse(engine, ctx, args, callee, frame):
    v = deref(args[0])
    if isinstance(v, VecV):
        v.items.reverse()
        return unit()
    raise Untranslatable("reverse of %s" % type(v).__name__)


def ordering_to_int(engine, ctx, o):
    return {"Less": -1, "Equal": 0, "Greater": 1}[o.variant]


@model(r"^core::slice::<impl \[.*\]>::(sort_by|sort_unstable_by)::<")
def m_sort_by(engine, ctx, args, callee, frame):
    """stable insertion sort; comparisons executed through the closure's MIR"""
    v = deref(args[0])
    if not isinstance(v, VecV):
        raise Untranslatable("sort_by on %s" % type(v).__name__)
    f = args[1]
    items = v.items
    out = []
    for c in items:
        pos = len(out)
        while pos > 0:
            o = engine.call_closure(f, [Ref(out[pos - 1]), Ref(c)])
            if ordering_to_int(engine, ctx, o) > 0:
                pos -= 1
            else:
                break
        out.insert(pos, c)
    v.items[:] = out
    return unit()


@model(r"^core::slice::<impl \[.*\]>::(sort_by_key|sort_unstable_by_key)::<")
def m_sort_by_key(engine, ctx, args, callee, frame):
    v = deref(args[0])
    f = args[1]
    keyed = [(engine.call_closure(f, [Ref(c)]), c) for c in v.items]
    out = []
    for k, c in keyed:
        pos = len(out)
        while pos > 0:
            o = compare_values(engine, ctx, out[pos - 1][0], k)
            if o > 0:
                pos -= 1
            else:
                break
        out.insert(pos, (k, c))
    v.items[:] = [c for _, c in out]
    return unit()


def compare_values(engine, ctx, a, b):
    """three-way comparison of two values -> -1/0/1 (forks)"""
    a, b = deref(a), deref(b)
    if isinstance(a, Int) and isinstance(b, Int):
        if ctx.branch(int_binop("Lt", a, b)):
            return -1
        if ctx.branch(int_binop("Eq", a, b)):
            return 0
        return 1
    if isinstance(a, Agg) and isinstance(b, Agg):
        sign = -1 if (a.ty == "Reverse" and b.ty == "Reverse") else 1      # std::cmp::Reverse
        for x, y in zip(a.fields, b.fields):
            r = compare_values(engine, ctx, x.v, y.v)
            if r != 0:
                return sign * r
        return 0
    if isinstance(a, (Bytes,)) or isinstance(b, Bytes):
        ba, bb = as_bytes(engine, a), as_bytes(engine, b)
        na = ctx.concretize(ba.len, 64, "cmp length")
        nb = ctx.concretize(bb.len, 64, "cmp length")
        for i in range(min(na, nb)):
            r = compare_values(engine, ctx, ba.byte(i), bb.byte(i))
            if r != 0:
                return r
        return (na > nb) - (na < nb)
    if isinstance(a, EnumV) and isinstance(b, EnumV):
        if a.discr != b.discr:
            return -1 if (a.discr or 0) < (b.discr or 0) else 1
        for x, y in zip(a.fields, b.fields):
            r = compare_values(engine, ctx, x.v, y.v)
            if r != 0:
                return r
        return 0
    raise Untranslatable("ordering of %s and %s" % (type(a).__name__, type(b).__name__))


def ordering(i):
    return EnumV("Ordering", {-1: "Less", 0: "Equal", 1: "Greater"}[i], i, [])


@model(r"^<([ui](?:8|16|32|64|128|size)) as (Ord|PartialOrd)>::(cmp|partial_cmp)$")
def m_int_cmp(engine, ctx, args, callee, frame):
    o = ordering(compare_values(engine, ctx, args[0], args[1]))
    return some(o) if callee.endswith("partial_cmp") else o


@model(r"^<([ui](?:8|16|32|64|128|size)|bool) as PartialEq>::(eq|ne)$")
def m_int_eq(engine, ctx, args, callee, frame):
    c = value_eq_cond(engine, ctx, args[0], args[1])
    return b_not(c) if callee.endswith("ne") else c


@model(r"^<(std::vec::)?Vec<.*> as PartialEq>::(eq|ne)$|^<\[.*\] as PartialEq>::(eq|ne)$|^<&\[.*\] as PartialEq>::(eq|ne)$|^<\[.*; \d+\] as PartialEq>::(eq|ne)$|^core::array::equality::<impl PartialEq.*>::(eq|ne)$|^<&?(mut )?\[.*\] as PartialEq<&?(mut )?\[.*\]>>::(eq|ne)$|^<(std::vec::)?Vec<.*> as PartialEq<&?(mut )?\[.*\]>>::(eq|ne)$|^<&?(mut )?\[.*\] as PartialEq<(std::vec::)?Vec<.*>>>::(eq|ne)$")
def m_seq_eq_generic(engine, ctx, args, callee, frame):
    a, b = deref(args[0]), deref(args[1])
    ia, ib = seq_cells(engine, ctx, args[0]), seq_cells(engine, ctx, args[1])
    if len(ia) != len(ib):
        c = False
    else:
        c = True
        for x, y in zip(ia, ib):
            c = b_and(c, value_eq_cond(engine, ctx, x.v, y.v))
    return b_not(c) if callee.endswith("ne") else c



# ------------------------------------------------------------------ structural equality as one formula (no forking)

def eq_formula(engine, a, b, bound=64):
    """z3 condition (or python bool) that values a and b are equal; sequences of symbolic length are compared
    position-wise up to `bound`"""
    a, b = deref(a), deref(b)
    if a is None and b is None:
        return True
    if isinstance(a, Int) and isinstance(b, Int):
        if a.bits != b.bits:
            return False
        return int_binop("Eq", a, b)
    if isinstance(a, bool) or isinstance(b, bool) or (z3.is_expr(a) and z3.is_bool(a)) or (z3.is_expr(b) and z3.is_bool(b)):
        return to_bool(bz3(a) == bz3(b))
    if getattr(a, "hash_term", False) or getattr(b, "hash_term", False):
        from .merkle import hash_eq
        cx = getattr(engine, "ctx", None) if engine is not None else None
        return hash_eq(cx if getattr(cx, "sha_bytes", False) else None, a, b)
    if a is b:
        return True
    if isinstance(a, Bytes) or isinstance(b, Bytes):
        try:
            ba, bb = as_bytes(engine, a), as_bytes(engine, b)
        except Untranslatable:
            return False
        if ba is bb:
            return True
        c = int_binop("Eq", ba.len, bb.len)
        if c is False:
            return False
        if ba.len.concrete:
            n = ba.len.v
            for i in range(n):
                c = b_and(c, int_binop("Eq", ba.byte(i), bb.byte(i)))
            return c
        conj = [bz3(c)]
        for i in range(bound):
            conj.append(z3.Implies(z3.ULT(z3.BitVecVal(i, 64), ba.len.z3()), ba.byte(i).z3() == bb.byte(i).z3()))
        conj.append(z3.ULE(ba.len.z3(), z3.BitVecVal(bound, 64)))
        return to_bool(z3.And(*conj))
    if isinstance(a, Agg) and isinstance(b, Agg):
        if len(a.fields) != len(b.fields):
            return False
        c = True
        for x, y in zip(a.fields, b.fields):
            c = b_and(c, eq_formula(engine, x.v, y.v, bound))
            if c is False:
                return False
        return c
    if isinstance(a, EnumV) and isinstance(b, EnumV):
        if a.variant != b.variant or len(a.fields) != len(b.fields):
            return False
        c = True
        for x, y in zip(a.fields, b.fields):
            c = b_and(c, eq_formula(engine, x.v, y.v, bound))
        return c
    if isinstance(a, VecV) and isinstance(b, VecV):
        if len(a.items) != len(b.items):
            return False
        c = True
        for x, y in zip(a.items, b.items):
            c = b_and(c, eq_formula(engine, x.v, y.v, bound))
        return c
    if isinstance(a, SetV) and isinstance(b, SetV):
        if len(a.items) != len(b.items):
            return False
        c = True
        for x in a.items:
            anyc = False
            for y in b.items:
                anyc = b_or(anyc, eq_formula(engine, x, y, bound))
            c = b_and(c, anyc)
        return c
    if isinstance(a, MapV) and isinstance(b, MapV):
        if len(a.entries) != len(b.entries):
            return False
        c = True
        for kx, cx in a.entries:
            anyc = False
            for ky, cy in b.entries:
                anyc = b_or(anyc, b_and(eq_formula(engine, kx, ky, bound), eq_formula(engine, cx.v, cy.v, bound)))
            c = b_and(c, anyc)
        return c
    if isinstance(a, FnItem) and isinstance(b, FnItem):
        return a.name == b.name        # zero-sized values (PhantomData, fn items)
    if isinstance(a, Opaque) and isinstance(b, Opaque):
        if a.name != b.name:
            return False
        if a.payload is None and b.payload is None:
            return True
        if isinstance(a.payload, Bytes) and isinstance(b.payload, Bytes):
            return eq_formula(engine, a.payload, b.payload, bound)
        return a.payload is b.payload or a.payload == b.payload
    if hasattr(a, "eq_formula"):
        return a.eq_formula(engine, b, bound)
    if type(a) is not type(b):
        return False
    raise Untranslatable("eq_formula of %s" % type(a).__name__)


def describe(v, model, depth=0):
    """render a value under a z3 model (for counterexample reports)"""
    v = deref(v)
    if depth > 6:
        return "..."
    if isinstance(v, Int):
        if v.concrete:
            return v.v
        return norm(model.eval(v.z3(), model_completion=True).as_long(), v.bits, v.signed)
    if isinstance(v, bool):
        return v
    if z3.is_expr(v):
        return str(model.eval(v, model_completion=True))
    if isinstance(v, Bytes):
        n = v.len.v if v.len.concrete else model.eval(v.len.z3(), model_completion=True).as_long()
        n = min(n, 64)
        return bytes(model.eval(v.byte(i).z3(), model_completion=True).as_long() for i in range(n)).hex()
    if isinstance(v, Agg):
        if v.kind == "array" and all(isinstance(c.v, Int) and c.v.bits == 8 for c in v.fields):
            return bytes(describe(c.v, model) & 0xFF for c in v.fields).hex()
        return {"%s" % (v.ty or v.kind): [describe(c.v, model, depth + 1) for c in v.fields]}
    if isinstance(v, EnumV):
        return {"%s::%s" % (v.ty, v.variant): [describe(c.v, model, depth + 1) for c in v.fields]}
    if isinstance(v, VecV):
        return [describe(c.v, model, depth + 1) for c in v.items]
    if isinstance(v, SetV):
        return {"set": [describe(x, model, depth + 1) for x in v.items]}
    if isinstance(v, MapV):
        return {"map": [[describe(k, model, depth + 1), describe(c.v, model, depth + 1)] for k, c in v.entries]}
    if isinstance(v, Opaque):
        return "Opaque(%s)" % v.name
    return repr(v)[:60]



# ------------------------------------------------------------------ BinaryReader over an existing stream object

@model(r"^(binary_stream::futures::)?BinaryReader::<.*>::new$")
def m_reader_new(engine, ctx, args, callee, frame):
    """BinaryReader::new(&mut stream, options): the model's stream object is itself the reader (shared position)"""
    st = deref(args[0])
    if not hasattr(st, "read_exact"):
        raise Untranslatable("BinaryReader::new over %s" % type(st).__name__)
    opts = args[1] if len(args) > 1 else None
    try:
        mb = opts.fields[1].v
        st.max_buffer = mb.fields[0].v.v if mb.variant == "Some" else None
    except Exception:
        pass
    return st


@model(r"^(binary_stream::futures::)?stream_length::<")
def m_stream_length(engine, ctx, args, callee, frame):
    st = deref(args[0])
    return future(callee, lambda: ok(st.total_len()))


@model(r"^<(std::ops::)?Range<([ui](?:8|16|32|64|size))> as Default>::default$")
def m_range_default(engine, ctx, args, callee, frame):
    ty = re.search(r"Range<(\w+)>", callee).group(1)
    bits, signed = int_type(ty)
    return Agg("struct", "Range", [Cell(Int(0, bits, signed)), Cell(Int(0, bits, signed))])


# ------------------------------------------------------------------ streams (event logs supplied by a harness)

class StreamV:
    """a futures::Stream over a python list of items (already wrapped in Result where the code expects it)"""

    def __init__(self, items):
        self.items = list(items)
        self.idx = 0

    def clone(self):
        return self


class EventLogV:
    """harness-provided EventLog<T>: `entries` is a list of (EventRecord value, event value)"""

    def __init__(self, entries):
        self.entries = entries

    def clone(self):
        return self


def find_stream(v):
    for _ in range(12):
        if isinstance(v, StreamV):
            return v
        if isinstance(v, Agg) and v.ty in ("Pin", "Box") and v.fields:
            v = v.fields[0].v
            continue
        if isinstance(v, Ref):
            v = v.cell.v
            continue
        break
    raise Untranslatable("stream operation on %s" % type(v).__name__)


@model(r"as (sos_core::events::)?EventLog<.*>>::(event_stream|record_stream)(::<.*>)?$")
def m_event_stream(engine, ctx, args, callee, frame):
    log = deref(args[0])
    if not isinstance(log, EventLogV):
        # a real event log implementation: run its own code
        fn = engine.program.resolve(callee, frame.fn if frame else None)
        if fn is None:
            raise Untranslatable("event_stream on %s" % type(log).__name__)
        g = engine.bind_generics(fn, callee) or (frame.generics if frame is not None else None)
        return engine.run_fn(fn, args, g)
    rev = args[1]
    rev = ctx.branch(rev) if not isinstance(rev, bool) else rev
    entries = list(reversed(log.entries)) if rev else list(log.entries)
    if "record_stream" in callee:
        items = [ok(deep_copy(r)) for r, _ in entries]
    else:
        items = [ok(Agg("tuple", "tuple", [Cell(deep_copy(r)), Cell(deep_copy(e))])) for r, e in entries]
    st = StreamV(items)
    # async_trait method: Pin<Box<dyn Future<Output = Pin<Box<dyn Stream>>>>>
    return pin_box(future(callee, lambda: pin_box(st)))


@model(r"as (futures::|futures_util::)?(stream::)?StreamExt>::next$|^(futures::|futures_util::)?(stream::)?StreamExt::next::<")
def m_stream_next(engine, ctx, args, callee, frame):
    st = find_stream(args[0])

    def run():
        if st.idx >= len(st.items):
            return none()
        it = st.items[st.idx]
        st.idx += 1
        return some(it)
    return future(callee, run)


# ------------------------------------------------------------------ sos_core::{encode, decode} (thin wrappers over binary_stream)

@model(r"^(sos_core::)?(encoding::)?decode::<(.*)>$")
def m_core_decode(engine, ctx, args, callee, frame):
    ty = re.search(r"decode::<(.*)>$", callee).group(1)
    b = as_bytes(engine, args[0])

    def run():
        rd = Cell(ReaderV(b.arr, b.len))
        rd.v.pos = Int(0, 64)
        if not (b.off.concrete and b.off.v == 0):
            rd = Cell(ReaderV(b.arr, int_binop("Add", b.off, b.len)))
            rd.v.pos = b.off
        val = Cell(default_value(engine, ctx, ty, frame))
        r = run_future(engine, ctx, engine.call_named(
            "<%s as binary_stream::futures::Decodable>::decode::<'_, '_, '_, R>" % ty, [Ref(val), Ref(rd)], frame))
        if r.variant == "Err":
            return err(Opaque("sos_core::Error", ("Io", r.fields[0].v)))
        return ok(val.v)
    return future(callee, run)


@model(r"^(sos_core::)?(encoding::)?encode::<(.*)>$")
def m_core_encode(engine, ctx, args, callee, frame):
    ty = re.search(r"encode::<(.*)>$", callee).group(1)
    v = args[0]

    def run():
        wr = Cell(WriterV())
        r = run_future(engine, ctx, engine.call_named(
            "<%s as binary_stream::futures::Encodable>::encode::<'_, '_, '_, W>" % ty, [v, Ref(wr)], frame))
        if r.variant == "Err":
            return err(Opaque("sos_core::Error", ("Io", r.fields[0].v)))
        return ok(wr.v.bytes())
    return future(callee, run)


# ------------------------------------------------------------------ tracing: statically disabled

@model(r"^<(tracing::|tracing_core::)?Level as PartialOrd<(tracing::|tracing_core::)?(level_filters::)?LevelFilter>>::(le|lt|ge|gt)$")
def m_tracing_level(engine, ctx, args, callee, frame):
    """`tracing::event!` first tests `LEVEL <= STATIC_MAX_LEVEL && LEVEL <= LevelFilter::current()`: logging is
    modelled as disabled, which skips the rest of the macro expansion (no effect on program state)"""
    return False


@model(r"^(tracing::|tracing_core::)?(level_filters::)?LevelFilter::current$")
def m_tracing_current(engine, ctx, args, callee, frame):
    return Opaque("LevelFilter")


# ------------------------------------------------------------------ map entry API

class EntryV:
    def __init__(self, mp, key, idx):
        self.mp = mp
        self.key = key
        self.idx = idx

    def clone(self):
        return self


@model(r"^(HashMap|IndexMap|BTreeMap)::<.*>::entry$")
def m_map_entry(engine, ctx, args, callee, frame):
    mp = get_map(args[0])
    return EntryV(mp, args[1], mp.find(engine, ctx, args[1]))


@model(r"^(std::collections::hash_map::|indexmap::map::|std::collections::btree_map::)?Entry::<.*>::(or_insert|or_default|or_insert_with)(::<.*>)?$")
def m_entry_or_insert(engine, ctx, args, callee, frame):
    e = args[0]
    if e.idx is not None:
        return Ref(e.mp.entries[e.idx][1])
    if "or_insert_with" in callee:
        v = engine.call_closure(args[1], [])
    elif "or_default" in callee:
        m = re.search(r"Entry::<'_, (.*)>::or_default", callee)
        from .mirparse import split_top
        v = default_value(engine, ctx, split_top(m.group(1))[1], frame)
    else:
        v = args[1]
    c = Cell(v)
    e.mp.add_entry(engine, ctx, e.key, c)
    return Ref(c)


@model(r"^(std::collections::hash_map::|indexmap::map::|std::collections::btree_map::)?Entry::<.*>::and_modify::<")
def m_entry_and_modify(engine, ctx, args, callee, frame):
    e = args[0]
    if e.idx is not None:
        engine.call_closure(args[1], [Ref(e.mp.entries[e.idx][1])])
    return e


@model(r"^(HashSet|IndexSet|BTreeSet)::<.*>::is_subset$")
def m_set_is_subset(engine, ctx, args, callee, frame):
    a, b = get_map(args[0]), get_map(args[1])
    for x in a.items:
        if not b.contains(engine, ctx, x):
            return False
    return True


@model(r"^<(time::)?OffsetDateTime as (Ord|PartialOrd)>::(cmp|partial_cmp)$")
def m_odt_cmp(engine, ctx, args, callee, frame):
    a, b = deref(args[0]), deref(args[1])
    r = compare_values(engine, ctx, a.fields[0].v, b.fields[0].v)
    if r == 0:
        r = compare_values(engine, ctx, a.fields[1].v, b.fields[1].v)
    o = ordering(r)
    return some(o) if callee.endswith("partial_cmp") else o


@model(r"^<(time::)?OffsetDateTime as PartialEq>::(eq|ne)$")
def m_odt_eq(engine, ctx, args, callee, frame):
    c = value_eq_cond(engine, ctx, deref(args[0]), deref(args[1]))
    return b_not(c) if callee.endswith("ne") else c


@model(r"^<(std::vec::)?Vec<.*> as IntoIterator>::into_iter$")
def m_vec_into_iter(engine, ctx, args, callee, frame):
    return make_seq_iter(engine, ctx, args[0], False)


# ------------------------------------------------------------------ probly_search::Index (membership only)

class TextIndexV:
    """the full-text index is modelled as the set of document keys it was given (ranking is outside)"""

    def __init__(self):
        self.keys = []
        self.removed = []

    def clone(self):
        return self


@model(r"^(probly_search::)?Index::<.*>::new$")
def m_pidx_new(engine, ctx, args, callee, frame):
    return TextIndexV()


@model(r"^(probly_search::)?Index::<.*>::add_document::<")
def m_pidx_add(engine, ctx, args, callee, frame):
    idx = deref(args[0])
    key = args[3]
    idx.keys.append(key)
    return unit()


@model(r"^(probly_search::)?Index::<.*>::remove_document$")
def m_pidx_remove(engine, ctx, args, callee, frame):
    idx = deref(args[0])
    for i, k in enumerate(idx.keys):
        if key_eq(engine, ctx, k, args[1]):
            idx.keys.pop(i)
            break
    return unit()


@model(r"^(probly_search::)?Index::<.*>::vacuum$")
def m_pidx_vacuum(engine, ctx, args, callee, frame):
    return unit()


@model(r"^core::str::<impl str>::to_lowercase$|^(std::string::)?String::to_lowercase$")
def m_to_lowercase(engine, ctx, args, callee, frame):
    b = as_bytes(engine, args[0])
    n = ctx.concretize(b.len, 64, "to_lowercase length")
    out = []
    for i in range(n):
        c = b.byte(i)
        if not c.concrete:
            raise Untranslatable("to_lowercase of a symbolic character")
        if c.v >= 0x80:
            raise Untranslatable("to_lowercase of non-ASCII text")
        out.append(Int(c.v + 32 if 0x41 <= c.v <= 0x5A else c.v, 8))
    return bytes_from_ints(out, utf8=True)


@model(r"^<(uuid::)?Uuid as (PartialOrd|Ord)>::(cmp|partial_cmp)$")
def m_uuid_cmp(engine, ctx, args, callee, frame):
    r = compare_values(engine, ctx, deref(args[0]).fields[0].v, deref(args[1]).fields[0].v)
    o = ordering(r)
    return some(o) if callee.endswith("partial_cmp") else o


@model(r"^<(std::string::)?String as (PartialOrd|Ord)>::(cmp|partial_cmp)$|^<str as (PartialOrd|Ord)>::(cmp|partial_cmp)$")
def m_string_cmp(engine, ctx, args, callee, frame):
    r = compare_values(engine, ctx, deref(args[0]), deref(args[1]))
    o = ordering(r)
    return some(o) if callee.endswith("partial_cmp") else o


@model(r"^(HashMap|IndexMap|BTreeMap)::<.*>::(keys|values)$")
def m_map_keys(engine, ctx, args, callee, frame):
    return map_iter(engine, ctx, get_map(args[0]), callee.split("::")[-1])



# ------------------------------------------------------------------ more of the time crate

def _div_rem_const(ctx, n, d, name):
    """truncating signed division of Int n (64 bit) by the positive constant d: (q, r) with fresh variables + lemma"""
    if n.concrete:
        q = abs(n.v) // d
        if n.v < 0:
            q = -q
        return Int(q, 64, True), Int(n.v - q * d, 64, True)
    q = Int(ctx.fresh_bv(name + "_q", 64), 64, True)
    r = Int(ctx.fresh_bv(name + "_r", 64), 64, True)
    lim = (1 << 63) // d + 1
    ctx.add(z3.And(q.z3() >= -lim, q.z3() <= lim, r.z3() > -d, r.z3() < d))
    ctx.add(q.z3() * z3.BitVecVal(d, 64) + r.z3() == n.z3())
    ctx.add(z3.Or(r.z3() == 0, (r.z3() < 0) == (n.z3() < 0)))
    return q, r


@model(r"^(time::)?Duration::new$")
def m_duration_new(engine, ctx, args, callee, frame):
    """time 0.3 `Duration::new(seconds, nanoseconds)`: carries whole seconds out of the nanoseconds and
    PANICS ("overflow constructing `time::Duration`") when that carry overflows i64"""
    secs, nanos = args[0], args[1]
    n64 = int_cast(nanos, 64, True)
    q, r = _div_rem_const(ctx, n64, 10 ** 9, "durnew")
    if ctx.branch(overflow_flag("Add", secs, q)):
        raise Panic("overflow constructing `time::Duration`", (frame.fn.name if frame else None,), kind="explicit")
    secs = int_binop("Add", secs, q)
    pos = int_binop("Gt", secs, Int(0, 64, True))
    neg = int_binop("Lt", secs, Int(0, 64, True))
    if ctx.branch(b_and(pos, int_binop("Lt", r, Int(0, 64, True)))):
        secs = int_binop("Sub", secs, Int(1, 64, True))
        r = int_binop("Add", r, Int(10 ** 9, 64, True))
    elif ctx.branch(b_and(neg, int_binop("Gt", r, Int(0, 64, True)))):
        secs = int_binop("Add", secs, Int(1, 64, True))
        r = int_binop("Sub", r, Int(10 ** 9, 64, True))
    return Agg("struct", "Duration", [Cell(secs), Cell(int_cast(r, 32, True))])


@model(r"^(time::)?Duration::seconds$")
def m_duration_seconds(engine, ctx, args, callee, frame):
    return Agg("struct", "Duration", [Cell(args[0]), Cell(Int(0, 32, True))])


@model(r"^(time::)?Duration::milliseconds$")
def m_duration_millis(engine, ctx, args, callee, frame):
    q, r = _div_rem_const(ctx, args[0], 1000, "durms")
    return Agg("struct", "Duration", [Cell(q), Cell(int_cast(int_binop("Mul", r, Int(10 ** 6, 64, True)), 32, True))])


from .engine import CONST_MODELS     # noqa: E402
CONST_MODELS.append((re.compile(r"(^|::)OffsetDateTime::UNIX_EPOCH$"), lambda engine: odt(Int(0, 64, True), Int(0, 32))))
CONST_MODELS.append((re.compile(r"(^|::)Duration::ZERO$"), lambda engine: Agg("struct", "Duration", [Cell(Int(0, 64, True)), Cell(Int(0, 32, True))])))



def _int_const(engine, name):
    m = re.search(r"core::num::<impl ([ui](?:8|16|32|64|128|size))>::(BITS|MAX|MIN)$", name) or \
        re.search(r"(?:^|::)([ui](?:8|16|32|64|128|size))::(BITS|MAX|MIN)$", name)
    bits, signed = int_type(m.group(1))
    if m.group(2) == "BITS":
        return Int(bits, 32)
    if m.group(2) == "MAX":
        return Int((1 << (bits - 1)) - 1 if signed else (1 << bits) - 1, bits, signed)
    return Int(-(1 << (bits - 1)) if signed else 0, bits, signed)


CONST_MODELS.append((re.compile(r"core::num::<impl ([ui](?:8|16|32|64|128|size))>::(BITS|MAX|MIN)$|(^|::)([ui](?:8|16|32|64|128|size))::(BITS|MAX|MIN)$"), _int_const))


@model(r"^(time::)?OffsetDateTime::unix_timestamp_nanos$")
def m_unix_ts_nanos(engine, ctx, args, callee, frame):
    o = deref(args[0])
    s, n = o.fields[0].v, o.fields[1].v
    s128 = int_cast(s, 128, True)
    n128 = int_cast(n, 128, True)
    return int_binop("Add", int_binop("Mul", s128, Int(10 ** 9, 128, True)), n128)


# ------------------------------------------------------------------ slicing with ranges

@model(r"^<(\[.*\]|(std::vec::)?Vec<.*>|str|(std::string::)?String) as (std::ops::)?Index(Mut)?<(std::ops::)?Range(To|From|Full|Inclusive|ToInclusive)?(<usize>)?>>::index(_mut)?$")
def m_slice_index_range(engine, ctx, args, callee, frame):
    base = args[0]
    rng = args[1]
    n = m_len(engine, ctx, [base], "Vec::<T>::len", frame)
    kind = rng.ty if isinstance(rng, Agg) else "RangeFull"
    zero = Int(0, 64)
    one = Int(1, 64)
    if kind == "Range":
        start, end = rng.fields[0].v, rng.fields[1].v
    elif kind == "RangeTo":
        start, end = zero, rng.fields[0].v
    elif kind == "RangeFrom":
        start, end = rng.fields[0].v, n
    elif kind == "RangeToInclusive":
        start, end = zero, int_binop("Add", rng.fields[0].v, one)
    elif kind == "RangeInclusive":
        start, end = rng.fields[0].v, int_binop("Add", rng.fields[1].v, one)
    else:
        start, end = zero, n
    if not ctx.branch(int_binop("Le", start, end)):
        raise Panic("slice index starts at %r but ends at %r" % (start, end), (frame.fn.name if frame else None,), kind="slice")
    if not ctx.branch(int_binop("Le", end, n)):
        raise Panic("range end index %r out of range for slice of length %r" % (end, n), (frame.fn.name if frame else None,), kind="slice")
    cell = deref_cell(base)
    length = int_binop("Sub", end, start)
    tgt = cell.v
    if isinstance(base, Ref) and base.window is not None:
        start = int_binop("Add", base.window[0], start)
    if isinstance(tgt, Bytes):
        return Ref(Cell(Bytes(tgt.arr, int_binop("Add", tgt.off, start), length, tgt.utf8)))
    s = ctx.concretize(start, 64, "slice start")
    l = ctx.concretize(length, 64, "slice length")
    return Ref(cell, (Int(s, 64), Int(l, 64)))


# ------------------------------------------------------------------ Arc / tokio RwLock (single task: no contention modelled)

class LockV:
    def __init__(self, inner):
        self.inner = Cell(inner)

    def clone(self):
        return self


@model(r"^tokio::sync::RwLock::<.*>::(read|write)$|^tokio::sync::Mutex::<.*>::lock$")
def m_rwlock_read(engine, ctx, args, callee, frame):
    l = deref(args[0])
    if not isinstance(l, LockV):
        raise Untranslatable("lock operation on %s" % type(l).__name__)
    return future(callee, lambda: Agg("struct", "Guard", [Cell(Ref(l.inner))]))


@model(r"^<tokio::sync::(RwLockReadGuard|RwLockWriteGuard|MutexGuard)<.*> as (std::ops::)?Deref(Mut)?>::deref(_mut)?$")
def m_guard_deref(engine, ctx, args, callee, frame):
    g = deref(args[0])
    return g.fields[0].v


@model(r"^<(std::sync::)?Arc<.*> as (std::ops::)?Deref>::deref$")
def m_arc_deref(engine, ctx, args, callee, frame):
    a = deref(args[0])          # the Arc value itself is a pointer to its content
    if isinstance(a, LockV) or not isinstance(args[0], Ref):
        return Ref(Cell(a))
    inner = args[0].cell.v
    if isinstance(inner, Ref):
        return inner
    return args[0]


@model(r"^(std::sync::)?Arc::<.*>::new$")
def m_arc_new(engine, ctx, args, callee, frame):
    return Ref(Cell(args[0]))


@model(r"^core::str::<impl str>::contains::<char>$")
def m_str_contains_char(engine, ctx, args, callee, frame):
    b = as_bytes(engine, args[0])
    ch = args[1]
    n = ctx.concretize(b.len, 64, "contains length")
    c = False
    for i in range(n):
        c = b_or(c, int_binop("Eq", int_cast(b.byte(i), 32, False), ch))
    return c



@model(r"^<.* as (std::iter::)?Iterator>::peekable$|^(std::iter::)?Iterator::peekable$")
def m_peekable(engine, ctx, args, callee, frame):
    return IterV("peekable", inner=as_iter(engine, ctx, args[0]), has_peek=False, peeked=None)


@model(r"^(std::iter::)?Peekable::<.*>::(peek|peek_mut)$")
def m_peek(engine, ctx, args, callee, frame):
    it = deref(args[0])
    if not it.has_peek:
        it.peeked = iter_next(engine, ctx, it.inner)
        it.has_peek = True
        it.peek_cell = Cell(it.peeked)
    if it.peeked is None:
        return none()
    return some(Ref(it.peek_cell))


@model(r"^(std::iter::)?Peekable::<.*>::next_if::<")
def m_next_if(engine, ctx, args, callee, frame):
    it = deref(args[0])
    p = m_peek(engine, ctx, [args[0]], "Peekable::<I>::peek", frame)
    if p.variant == "None":
        return none()
    if ctx.branch(engine.call_closure(args[1], [p.fields[0].v])):
        return some(iter_next(engine, ctx, it))
    return none()


@model(r"^<.* as PartialOrd(<.*>)?>::(lt|le|gt|ge)$", generic=True)
def m_partial_ord_default(engine, ctx, args, callee, frame):
    """provided methods of PartialOrd: defined through partial_cmp of the implementing type"""
    m = re.match(r"^<(.*) as PartialOrd(<.*>)?>::(lt|le|gt|ge)$", callee)
    ty, op = m.group(1), m.group(3)
    a, b = args
    while ty.startswith("&"):
        ty = re.sub(r"^&(?:'[a-z_]+ )?(?:mut )?", "", ty)
        if isinstance(a, Ref) and isinstance(a.cell.v, Ref):
            a, b = a.cell.v, b.cell.v
    r = engine.call_named("<%s as PartialOrd>::partial_cmp" % ty, [a, b], frame)
    if r.variant == "None":
        return False
    o = r.fields[0].v.variant
    return {"lt": o == "Less", "le": o in ("Less", "Equal"), "gt": o == "Greater", "ge": o in ("Greater", "Equal")}[op]
