"""Shared harness pieces: building the Program from fresh MIR dumps, symbolic inputs,
driving async entry points, extracting witnesses."""
import os
import subprocess
import sys
import time
import z3

from .engine import (Program, Engine, Int, Agg, EnumV, Ref, Cell, Bytes, VecV, Opaque,
                     Inconclusive, int_binop, bz3, deep_copy)
from . import models as M
from . import merkle as MK      # registers the rs_merkle models
from . import models_std2       # noqa: F401  registers further std models

VERIF = os.path.dirname(os.path.dirname(os.path.abspath(__file__)))
WORK = os.path.join(VERIF, ".work")
REPO = os.environ.get("VERIF_REPO", "/repo")

CRATES = {
    # crate name -> (package, directory relative to repo)
    "sos_core": ("sos-core", "crates/core", "files"),
    "sos_vault": ("sos-vault", "crates/vault"),
    "sos_filesystem": ("sos-filesystem", "crates/filesystem", "files"),
    "sos_reducers": ("sos-reducers", "crates/reducers", "files,sos-core/files"),
    "sos_remote_sync": ("sos-remote-sync", "crates/remote_sync", "files"),
    "sos_protocol": ("sos-protocol", "crates/protocol", "files"),
    "sos_search": ("sos-search", "crates/search"),
    "sos_server": ("sos-server", "crates/server"),
    "sos_backend": ("sos-backend", "crates/backend", "files"),
    "sos_server_storage": ("sos-server-storage", "crates/storage/server", "files"),
    "sos_sync": ("sos-sync", "crates/sync", "files"),
    "sos_client_storage": ("sos-client-storage", "crates/storage/client", "files,search"),
    "sos_integrity": ("sos-integrity", "crates/integrity", "files"),
    "sos_database": ("sos-database", "crates/database", "files"),
}


def mir_path(crate):
    return os.path.join(WORK, "mir", crate + ".mir")


def dump_mir(crate, force=True, log=None):
    """Regenerate MIR for `crate` from /repo's current working tree. Returns (path, seconds)."""
    pkg, rel = CRATES[crate][:2]
    feats = CRATES[crate][2] if len(CRATES[crate]) > 2 else None
    out = mir_path(crate)
    os.makedirs(os.path.dirname(out), exist_ok=True)
    src = os.path.join(REPO, rel, "src", "lib.rs")
    t = time.time()
    # rustc only re-runs when the crate is dirty: bump the mtime of lib.rs (content unchanged)
    os.utime(src, None)
    env = dict(os.environ)
    env["CARGO_NET_OFFLINE"] = "true"
    env["CARGO_TARGET_DIR"] = os.path.join(WORK, "nightly-target")
    env.pop("RUSTFLAGS", None)
    cmd = ["cargo", "+nightly", "rustc", "-p", pkg, "--offline", "--lib"]
    if feats:
        cmd += ["--features", feats]
    cmd += ["--",
           "-Zunpretty=mir", "-C", "debug-assertions=off", "-C", "overflow-checks=on"]
    tmp = out + ".tmp"
    with open(tmp, "w") as fo, open(out + ".err", "w") as fe:
        r = subprocess.run(cmd, cwd=REPO, env=env, stdout=fo, stderr=fe)
    if r.returncode != 0 or os.path.getsize(tmp) < 1000:
        err = open(out + ".err").read()[-3000:]
        raise Inconclusive("MIR dump of %s failed (rc=%s):\n%s" % (crate, r.returncode, err))
    os.replace(tmp, out)
    return out, time.time() - t


def load_program(crates, regenerate=True):
    prog = Program(REPO)
    prog.load_enums([os.path.join(REPO, "crates")])
    timings = {}
    for c in crates:
        if regenerate or not os.path.exists(mir_path(c)):
            _, dt = dump_mir(c)
            timings[c] = dt
        prog.load_crate(c, mir_path(c), os.path.join(REPO, CRATES[c][1]))
    prog.timings = timings
    return prog


def new_engine(prog, **kw):
    return Engine(prog, M.MODELS + M.GENERIC, **kw)


class SymInput:
    """symbolic byte buffer with symbolic length <= max_len"""

    def __init__(self, ctx, max_len, name="in", min_len=0):
        self.arr = z3.Array(name, z3.BitVecSort(64), z3.BitVecSort(8))
        self.n = z3.BitVec(name + "_len", 64)
        ctx.add(z3.ULE(self.n, z3.BitVecVal(max_len, 64)))
        if min_len:
            ctx.add(z3.UGE(self.n, z3.BitVecVal(min_len, 64)))
        self.max_len = max_len
        self.length = Int(self.n, 64)

    def reader(self):
        return M.ReaderV(self.arr, self.length)

    def witness(self, model):
        n = model.eval(self.n, model_completion=True).as_long()
        bs = bytes(model.eval(z3.Select(self.arr, z3.BitVecVal(i, 64)), model_completion=True).as_long() for i in range(n))
        return bs


def poll_to_result(engine, ctx, fut):
    return M.run_future(engine, ctx, fut)


def witness_for(res, extra=None):
    """z3 model for a finished path"""
    if extra is None and getattr(res, "model", None) is not None:
        return res.model
    s = z3.SolverFor("QF_ABV")
    for c in res.pc:
        s.add(bz3(c))
    if extra is not None:
        s.add(extra)
    if s.check() != z3.sat:
        return None
    return s.model()


# ------------------------------------------------------------------ second solver

CROSS = {"checked": 0, "agree": 0, "disagree": [], "errors": 0, "every": int(os.environ.get("VERIF_CROSS_EVERY", "0"))}


def cross_check(solver, result, what=""):
    """re-decide a z3 query with cvc5 (every N-th query when enabled). `solver` holds the assertions,
    `result` is z3's verdict.  A different verdict is recorded; callers treat it as inconclusive."""
    n = CROSS["every"]
    if n <= 0:
        return True
    CROSS.setdefault("seen", 0)
    CROSS["seen"] += 1
    try:
        off = int(os.environ.get("VERIF_SEED", "0"))
    except ValueError:
        off = 0
    if (CROSS["seen"] + off) % n != 0:      # VERIF_SEED shifts which queries get the second opinion
        return True
    import tempfile
    text = solver.to_smt2()
    text = "(set-logic ALL)\n" + "\n".join(l for l in text.split("\n") if not l.startswith("(set-info"))
    with tempfile.NamedTemporaryFile("w", suffix=".smt2", dir=os.path.join(WORK, "tmp"), delete=False) as f:
        f.write(text)
        path = f.name
    try:
        r = subprocess.run(["cvc5", "--lang", "smt2", "--tlimit", "30000", path], stdout=subprocess.PIPE, stderr=subprocess.PIPE, text=True, timeout=60)
        out = r.stdout.strip().split("\n")[0] if r.stdout.strip() else ""
    except Exception as e:      # noqa
        out = "error: %s" % e
    finally:
        try:
            os.unlink(path)
        except OSError:
            pass
    want = "sat" if result == z3.sat else "unsat" if result == z3.unsat else "unknown"
    CROSS["checked"] += 1
    if out == want:
        CROSS["agree"] += 1
        return True
    if out in ("sat", "unsat"):
        CROSS["disagree"].append("%s: z3 %s, cvc5 %s" % (what, want, out))
        return False
    CROSS["errors"] += 1       # timeout / unsupported construct: no second opinion for this query
    return True


def cross_begin():
    return (CROSS["checked"], CROSS["agree"], CROSS["errors"])


def cross_end(c0):
    return {"checked": CROSS["checked"] - c0[0], "agree": CROSS["agree"] - c0[1], "no_answer": CROSS["errors"] - c0[2]}
