"""More std models (Option/Result combinators, iterator consumers, integer helpers, slices, sets, Ordering).

They exist so that a change to the code under test that reaches for another standard-library helper is still
followed by the executor instead of ending the path as UNCOVERED.  Each model states the std semantics directly;
closures are executed from their MIR."""
import re
import z3

from .engine import (Int, Agg, EnumV, Ref, Cell, Bytes, VecV, Opaque, Panic, Untranslatable, BoundHit,
                     int_binop, int_cast, to_bool, b_and, b_or, b_not, bz3, unit, deep_copy, overflow_flag, mask)
from . import models as M
from .models import (model, ok, err, some, none, deref, deref_cell, as_iter, iter_next, drain, seq_cells, key_eq,
                     value_eq_cond, SetV, MapV, IterV, get_map, int_type)


def _site(frame):
    return (frame.fn.name if frame else None,)


# ------------------------------------------------------------------ Option

@model(r"^(std::option::)?Option::<.*>::filter::<")
def m_option_filter(engine, ctx, args, callee, frame):
    r, f = args
    if r.variant == "None":
        return none()
    keep = engine.call_closure(f, [Ref(r.fields[0])])
    return r if ctx.branch(keep) else none()


@model(r"^(std::option::)?Option::<.*>::(or|xor|and)(::<.*>)?$")
def m_option_or(engine, ctx, args, callee, frame):
    a, b = args
    name = re.search(r"::(or|xor|and)(::<.*>)?$", callee).group(1)
    if name == "or":
        return a if a.variant == "Some" else b
    if name == "and":
        return b if a.variant == "Some" else none()
    if a.variant == "Some" and b.variant == "None":
        return a
    if a.variant == "None" and b.variant == "Some":
        return b
    return none()


@model(r"^(std::option::)?Option::<.*>::or_else::<")
def m_option_or_else(engine, ctx, args, callee, frame):
    a, f = args
    return a if a.variant == "Some" else engine.call_closure(f, [])


@model(r"^(std::option::)?Option::<.*>::map_or_else::<")
def m_option_map_or_else(engine, ctx, args, callee, frame):
    r, d, f = args
    if r.variant == "None":
        return engine.call_closure(d, [])
    return engine.call_closure(f, [r.fields[0].v])


@model(r"^(std::option::)?Option::<.*>::is_none_or::<")
def m_option_is_none_or(engine, ctx, args, callee, frame):
    r, f = args
    if r.variant == "None":
        return True
    return engine.call_closure(f, [r.fields[0].v])


@model(r"^(std::option::)?Option::<.*>::zip::<")
def m_option_zip(engine, ctx, args, callee, frame):
    a, b = args
    if a.variant == "Some" and b.variant == "Some":
        return some(Agg("tuple", "tuple", [Cell(a.fields[0].v), Cell(b.fields[0].v)]))
    return none()


@model(r"^(std::option::)?Option::<.*>::(get_or_insert_with|get_or_insert)(::<.*>)?$")
def m_option_get_or_insert(engine, ctx, args, callee, frame):
    cell = deref_cell(args[0])
    if cell.v.variant == "None":
        v = engine.call_closure(args[1], []) if "insert_with" in callee else args[1]
        cell.v = some(v)
    return Ref(cell.v.fields[0])


@model(r"^(std::option::)?Option::<(std::option::)?Option<.*>>::flatten$")
def m_option_flatten(engine, ctx, args, callee, frame):
    r = args[0]
    return r.fields[0].v if r.variant == "Some" else none()


@model(r"^(std::option::)?Option::<.*>::(as_deref|as_deref_mut)$")
def m_option_as_deref(engine, ctx, args, callee, frame):
    r = deref(args[0])
    if r.variant == "None":
        return none()
    return some(Ref(r.fields[0]))


@model(r"^(std::option::)?Option::<.*>::(ok_or_else|ok_or)$")
def m_option_ok_or_plain(engine, ctx, args, callee, frame):
    r = args[0]
    if r.variant == "Some":
        return ok(r.fields[0].v)
    return err(engine.call_closure(args[1], []) if callee.endswith("ok_or_else") else args[1])


# ------------------------------------------------------------------ Result

@model(r"^(std::result::)?Result::<.*>::and_then::<")
def m_result_and_then(engine, ctx, args, callee, frame):
    r, f = args
    if r.variant == "Err":
        return r
    return engine.call_closure(f, [r.fields[0].v])


@model(r"^(std::result::)?Result::<.*>::or_else::<")
def m_result_or_else(engine, ctx, args, callee, frame):
    r, f = args
    if r.variant == "Ok":
        return r
    return engine.call_closure(f, [r.fields[0].v])


@model(r"^(std::result::)?Result::<.*>::unwrap_or$")
def m_result_unwrap_or(engine, ctx, args, callee, frame):
    r = args[0]
    return r.fields[0].v if r.variant == "Ok" else args[1]


@model(r"^(std::result::)?Result::<.*>::unwrap_or_else::<")
def m_result_unwrap_or_else(engine, ctx, args, callee, frame):
    r = args[0]
    return r.fields[0].v if r.variant == "Ok" else engine.call_closure(args[1], [r.fields[0].v])


@model(r"^(std::result::)?Result::<.*>::err$")
def m_result_err(engine, ctx, args, callee, frame):
    r = args[0]
    return some(r.fields[0].v) if r.variant == "Err" else none()


@model(r"^(std::result::)?Result::<.*>::(unwrap_err|expect_err)$")
def m_result_unwrap_err(engine, ctx, args, callee, frame):
    r = args[0]
    if r.variant == "Err":
        return r.fields[0].v
    raise Panic("called `Result::%s()` on an `Ok` value" % callee.split("::")[-1], _site(frame), kind="unwrap")


@model(r"^(std::result::)?Result::<.*>::map_or::<")
def m_result_map_or(engine, ctx, args, callee, frame):
    r, d, f = args
    if r.variant == "Err":
        return d
    return engine.call_closure(f, [r.fields[0].v])


@model(r"^(std::result::)?Result::<.*>::(is_ok_and|is_err_and)::<")
def m_result_is_and(engine, ctx, args, callee, frame):
    r, f = args
    want = "Ok" if "is_ok_and" in callee else "Err"
    if r.variant != want:
        return False
    return engine.call_closure(f, [r.fields[0].v])


@model(r"^(std::result::)?Result::<.*>::(as_ref|as_mut)$")
def m_result_as_ref(engine, ctx, args, callee, frame):
    r = deref(args[0])
    return EnumV(r.ty, r.variant, r.discr, [Cell(Ref(r.fields[0]))])


# ------------------------------------------------------------------ bool

@model(r"^core::bool::<impl bool>::then::<|^bool::then::<")
def m_bool_then(engine, ctx, args, callee, frame):
    if ctx.branch(args[0]):
        return some(engine.call_closure(args[1], []))
    return none()


@model(r"^core::bool::<impl bool>::then_some::<|^bool::then_some::<")
def m_bool_then_some(engine, ctx, args, callee, frame):
    return some(args[1]) if ctx.branch(args[0]) else none()


# ------------------------------------------------------------------ mem

@model(r"^(std::|core::)?mem::swap::<")
def m_mem_swap(engine, ctx, args, callee, frame):
    a, b = deref_cell(args[0]), deref_cell(args[1])
    a.v, b.v = b.v, a.v
    return unit()


# ------------------------------------------------------------------ Ordering

def _ordering_value(o):
    """Ordering EnumV / Int(-1,0,1) -> Int(8, signed)"""
    o = deref(o)
    if isinstance(o, Int):
        return o
    if isinstance(o, EnumV):
        return Int({"Less": -1, "Equal": 0, "Greater": 1}[o.variant], 8, True)
    raise Untranslatable("Ordering value %s" % type(o).__name__)


@model(r"^(std::cmp::|core::cmp::)?Ordering::(is_lt|is_le|is_eq|is_ne|is_gt|is_ge)$")
def m_ordering_is(engine, ctx, args, callee, frame):
    v = _ordering_value(args[0])
    zero = Int(0, v.bits, True)
    op = {"is_lt": "Lt", "is_le": "Le", "is_eq": "Eq", "is_ne": "Ne", "is_gt": "Gt", "is_ge": "Ge"}[callee.split("::")[-1]]
    return int_binop(op, Int(v.v, v.bits, True) if v.concrete else Int(v.v, v.bits, True), zero)


# ------------------------------------------------------------------ integers

_INT = r"(?:[ui](?:8|16|32|64|128|size))"


@model(r"^core::num::<impl (" + _INT + r")>::abs_diff$")
def m_abs_diff(engine, ctx, args, callee, frame):
    a, b = args
    if a.signed:
        raise Untranslatable("signed abs_diff")
    if ctx.branch(int_binop("Ge", a, b)):
        return int_binop("Sub", a, b)
    return int_binop("Sub", b, a)


@model(r"^core::num::<impl (" + _INT + r")>::(checked|wrapping)_(div|rem)$")
def m_checked_div(engine, ctx, args, callee, frame):
    a, b = args
    m = re.search(r"::(checked|wrapping)_(div|rem)$", callee)
    op = "Div" if m.group(2) == "div" else "Rem"
    if ctx.branch(int_binop("Eq", b, Int(0, b.bits, b.signed))):
        if m.group(1) == "checked":
            return none()
        raise Panic("attempt to divide by zero", _site(frame))
    if a.signed:
        mn = Int(-(1 << (a.bits - 1)), a.bits, True)
        if ctx.branch(b_and(int_binop("Eq", a, mn), int_binop("Eq", b, Int(-1, b.bits, True)))):
            if m.group(1) == "checked":
                return none()
            return mn if op == "Div" else Int(0, a.bits, True)
    r = int_binop(op, a, b)
    return some(r) if m.group(1) == "checked" else r


@model(r"^core::num::<impl (" + _INT + r")>::(min|max)$|^<(" + _INT + r") as Ord>::(min|max)$")
def m_int_minmax(engine, ctx, args, callee, frame):
    a, b = args
    is_min = callee.endswith("min")
    if ctx.branch(int_binop("Le", a, b)):
        return a if is_min else b
    return b if is_min else a


@model(r"^<(" + _INT + r") as Ord>::clamp$|^core::num::<impl (" + _INT + r")>::clamp$|^(std::|core::)?cmp::Ord::clamp$")
def m_int_clamp(engine, ctx, args, callee, frame):
    v, lo, hi = args
    if ctx.branch(int_binop("Gt", lo, hi)):
        raise Panic("assertion failed: min <= max", _site(frame))
    if ctx.branch(int_binop("Lt", v, lo)):
        return lo
    if ctx.branch(int_binop("Gt", v, hi)):
        return hi
    return v


@model(r"^core::num::<impl (" + _INT + r")>::pow$")
def m_int_pow(engine, ctx, args, callee, frame):
    a, e = args
    n = ctx.concretize(e, 64, "exponent")
    r = Int(1, a.bits, a.signed)
    for _ in range(n):
        if engine.overflow_checks and ctx.branch(overflow_flag("Mul", r, a)):
            raise Panic("attempt to multiply with overflow", _site(frame), kind="overflow")
        r = int_binop("Mul", r, a)
    return r


@model(r"^core::num::<impl (i(?:8|16|32|64|128|size))>::(abs|unsigned_abs|signum|is_negative|is_positive)$")
def m_int_abs(engine, ctx, args, callee, frame):
    a = args[0]
    name = callee.split("::")[-1]
    zero = Int(0, a.bits, True)
    neg = int_binop("Lt", a, zero)
    if name == "is_negative":
        return neg
    if name == "is_positive":
        return int_binop("Gt", a, zero)
    if name == "signum":
        if ctx.branch(neg):
            return Int(-1, a.bits, True)
        return Int(0, a.bits, True) if ctx.branch(int_binop("Eq", a, zero)) else Int(1, a.bits, True)
    if ctx.branch(neg):
        mn = Int(-(1 << (a.bits - 1)), a.bits, True)
        if name == "abs" and ctx.branch(int_binop("Eq", a, mn)):
            if engine.overflow_checks:
                raise Panic("attempt to negate with overflow", _site(frame), kind="overflow")
            return a
        r = int_binop("Sub", zero, a)
        return int_cast(r, a.bits, False) if name == "unsigned_abs" else r
    return int_cast(a, a.bits, False) if name == "unsigned_abs" else a


@model(r"^<&?(?:'\w+ )?(" + _INT + r") as (?:std::ops::)?(Add|Sub|Mul|Div|Rem|BitAnd|BitOr|BitXor)>::(add|sub|mul|div|rem|bitand|bitor|bitxor)$")
def m_int_op_same(engine, ctx, args, callee, frame):
    """`<usize as Add>::add(a, b)` (operator trait called as a function, default type parameter)"""
    callee2 = re.sub(r" as (?:std::ops::)?(\w+)>::", lambda m: " as %s<usize>>::" % m.group(1), callee)
    return M.m_int_op_trait(engine, ctx, args, callee2, frame)


@model(r"^<(" + _INT + r") as (?:std::ops::)?(Add|Sub|Mul|BitAnd|BitOr|BitXor)Assign<&?(?:'\w+ )?" + _INT + r">>::\w+_assign$|^<(" + _INT + r") as (?:std::ops::)?(Add|Sub|Mul|BitAnd|BitOr|BitXor)Assign>::\w+_assign$")
def m_int_op_assign(engine, ctx, args, callee, frame):
    op = re.search(r"(Add|Sub|Mul|BitAnd|BitOr|BitXor)Assign", callee).group(1)
    cell = deref_cell(args[0])
    r = M.m_int_op_trait(engine, ctx, [cell.v, args[1]], "<usize as %s<usize>>::%s" % (op, op.lower()), frame)
    cell.v = r
    return unit()


@model(r"^<(" + _INT + r") as (?:std::ops::)?Not>::not$|^<&(" + _INT + r") as (?:std::ops::)?Not>::not$")
def m_int_not(engine, ctx, args, callee, frame):
    a = deref(args[0])
    return int_binop("BitXor", a, Int(-1 if a.signed else mask(a.bits), a.bits, a.signed))


# ------------------------------------------------------------------ iterator consumers

@model(r"^<.* as (std::iter::)?Iterator>::(sum|product)::<")
def m_iter_sum(engine, ctx, args, callee, frame):
    name = re.search(r"Iterator>::(sum|product)", callee).group(1)
    ty = re.search(r"::(?:sum|product)::<(.*)>$", callee).group(1)
    try:
        bits, signed = int_type(ty)
    except Exception:
        raise Untranslatable("Iterator::%s into %s" % (name, ty))
    acc = Int(0 if name == "sum" else 1, bits, signed)
    op = "Add" if name == "sum" else "Mul"
    for x in drain(engine, ctx, as_iter(engine, ctx, args[0])):
        x = deref(x)
        if engine.overflow_checks and ctx.branch(overflow_flag(op, acc, x)):
            raise Panic("attempt to %s with overflow" % ("add" if op == "Add" else "multiply"), _site(frame), kind="overflow")
        acc = int_binop(op, acc, x)
    return acc


@model(r"^<.* as (std::iter::)?Iterator>::(max|min)$")
def m_iter_max(engine, ctx, args, callee, frame):
    items = drain(engine, ctx, as_iter(engine, ctx, args[0]))
    if not items:
        return none()
    is_max = callee.endswith("max")
    best = items[0]
    for x in items[1:]:
        a, b = deref(best), deref(x)
        if not (isinstance(a, Int) and isinstance(b, Int)):
            raise Untranslatable("Iterator::max over %s" % type(a).__name__)
        # max returns the last maximal element, min the first minimal one
        if is_max:
            if ctx.branch(int_binop("Ge", b, a)):
                best = x
        elif ctx.branch(int_binop("Lt", b, a)):
            best = x
    return some(best)


@model(r"^<.* as (std::iter::)?Iterator>::(max_by_key|min_by_key)::<")
def m_iter_max_by_key(engine, ctx, args, callee, frame):
    items = drain(engine, ctx, as_iter(engine, ctx, args[0]))
    if not items:
        return none()
    is_max = "max_by_key" in callee
    keys = [engine.call_closure(args[1], [Ref(Cell(x))]) for x in items]
    bi = 0
    for i in range(1, len(items)):
        a, b = deref(keys[bi]), deref(keys[i])
        if not (isinstance(a, Int) and isinstance(b, Int)):
            raise Untranslatable("max_by_key over non-integer keys")
        if is_max:
            if ctx.branch(int_binop("Ge", b, a)):
                bi = i
        elif ctx.branch(int_binop("Lt", b, a)):
            bi = i
    return some(items[bi])


@model(r"^<.* as (std::iter::)?Iterator>::nth$")
def m_iter_nth(engine, ctx, args, callee, frame):
    it = as_iter(engine, ctx, deref(args[0]) if isinstance(args[0], Ref) else args[0])
    n = ctx.concretize(args[1], 64, "nth")
    x = None
    for _ in range(n + 1):
        x = iter_next(engine, ctx, it)
        if x is None:
            return none()
    return some(x)


@model(r"^<.* as (std::iter::)?Iterator>::find_map::<")
def m_iter_find_map(engine, ctx, args, callee, frame):
    it = as_iter(engine, ctx, deref(args[0]) if isinstance(args[0], Ref) else args[0])
    while True:
        x = iter_next(engine, ctx, it)
        if x is None:
            return none()
        r = engine.call_closure(args[1], [x])
        if r.variant == "Some":
            return r


@model(r"^<.* as (std::iter::)?Iterator>::rposition::<|^<.* as (std::iter::)?DoubleEndedIterator>::rfind::<")
def m_iter_rposition(engine, ctx, args, callee, frame):
    items = drain(engine, ctx, as_iter(engine, ctx, deref(args[0]) if isinstance(args[0], Ref) else args[0]))
    rfind = "rfind" in callee
    for i in range(len(items) - 1, -1, -1):
        r = engine.call_closure(args[1], [Ref(Cell(items[i]))] if rfind else [items[i]])
        if ctx.branch(r):
            return some(items[i]) if rfind else some(Int(i, 64))
    return none()


def _take_skip_while(kind):
    def f(engine, ctx, args, callee, frame):
        items = drain(engine, ctx, as_iter(engine, ctx, args[0]))
        out = []
        k = 0
        while k < len(items):
            r = engine.call_closure(args[1], [Ref(Cell(items[k]))])
            if not ctx.branch(r):
                break
            k += 1
        out = items[:k] if kind == "take_while" else items[k:]
        cells = [Cell(x) for x in out]
        return IterV("seq", items=cells, idx=0, end=len(cells), by_ref=False)
    return f


for _k in ("take_while", "skip_while"):
    M.MODELS.append((re.compile(r"^<.* as (std::iter::)?Iterator>::%s::<" % _k), _take_skip_while(_k)))


@model(r"^<.* as (std::iter::)?Iterator>::(flat_map|flatten)(::<.*>)?$")
def m_iter_flat_map(engine, ctx, args, callee, frame):
    items = drain(engine, ctx, as_iter(engine, ctx, args[0]))
    out = []
    for x in items:
        inner = engine.call_closure(args[1], [x]) if "flat_map" in callee else x
        if isinstance(inner, EnumV) and inner.ty in ("Option", "Result"):
            if inner.variant in ("Some", "Ok"):
                out.append(inner.fields[0].v)
            continue
        out.extend(drain(engine, ctx, as_iter(engine, ctx, inner)))
    cells = [Cell(x) for x in out]
    return IterV("seq", items=cells, idx=0, end=len(cells), by_ref=False)


@model(r"^<.* as (std::iter::)?Iterator>::(is_sorted|is_sorted_by_key)(::<.*>)?$")
def m_iter_is_sorted(engine, ctx, args, callee, frame):
    items = drain(engine, ctx, as_iter(engine, ctx, args[0]))
    for a, b in zip(items, items[1:]):
        a, b = deref(a), deref(b)
        if not (isinstance(a, Int) and isinstance(b, Int)):
            raise Untranslatable("is_sorted over %s" % type(a).__name__)
        if not ctx.branch(int_binop("Le", a, b)):
            return False
    return True


# ------------------------------------------------------------------ slices and vectors

def _seq_of(engine, ctx, v):
    return seq_cells(engine, ctx, v)


@model(r"^core::slice::<impl \[.*\]>::(starts_with|ends_with)$")
def m_slice_starts_with(engine, ctx, args, callee, frame):
    a = _seq_of(engine, ctx, args[0])
    b = _seq_of(engine, ctx, args[1])
    if len(b) > len(a):
        return False
    part = a[:len(b)] if callee.endswith("starts_with") else a[len(a) - len(b):]
    c = True
    for x, y in zip(part, b):
        c = b_and(c, value_eq_cond(engine, ctx, x.v, y.v))
    return c


@model(r"^core::slice::<impl \[.*\]>::swap$|^(std::vec::)?Vec::<.*>::swap$")
def m_slice_swap(engine, ctx, args, callee, frame):
    items = _seq_of(engine, ctx, args[0])
    i = ctx.concretize(args[1], len(items) + 1, "swap index")
    j = ctx.concretize(args[2], len(items) + 1, "swap index")
    if i >= len(items) or j >= len(items):
        raise Panic("index out of bounds in swap", _site(frame), kind="bounds")
    items[i].v, items[j].v = items[j].v, items[i].v
    return unit()


@model(r"^(std::vec::)?Vec::<.*>::swap_remove$")
def m_vec_swap_remove(engine, ctx, args, callee, frame):
    v = deref(args[0])
    if not isinstance(v, VecV):
        raise Untranslatable("swap_remove on %s" % type(v).__name__)
    i = ctx.concretize(args[1], len(v.items) + 1, "swap_remove index")
    if i >= len(v.items):
        raise Panic("swap_remove index out of bounds", _site(frame), kind="bounds")
    x = v.items[i].v
    v.items[i] = v.items[-1]
    v.items.pop()
    return x


@model(r"^(std::vec::)?Vec::<.*>::retain::<|^(std::vec::)?Vec::<.*>::retain_mut::<")
def m_vec_retain(engine, ctx, args, callee, frame):
    v = deref(args[0])
    if not isinstance(v, VecV):
        raise Untranslatable("retain on %s" % type(v).__name__)
    keep = []
    for c in list(v.items):
        if ctx.branch(engine.call_closure(args[1], [Ref(c)])):
            keep.append(c)
    v.items[:] = keep
    return unit()


@model(r"^(std::vec::)?Vec::<.*>::dedup$")
def m_vec_dedup(engine, ctx, args, callee, frame):
    v = deref(args[0])
    if not isinstance(v, VecV):
        raise Untranslatable("dedup on %s" % type(v).__name__)
    out = []
    for c in v.items:
        if out and key_eq(engine, ctx, out[-1].v, c.v):
            continue
        out.append(c)
    v.items[:] = out
    return unit()


@model(r"^(std::vec::)?Vec::<.*>::(first|last)_chunk")
def m_unsupported_chunk(engine, ctx, args, callee, frame):
    raise Untranslatable("call " + callee)


@model(r"^core::slice::<impl \[.*\]>::(split_first|split_last)$")
def m_split_first(engine, ctx, args, callee, frame):
    items = _seq_of(engine, ctx, args[0])
    if not items:
        return none()
    if callee.endswith("split_first"):
        head, rest = items[0], items[1:]
    else:
        head, rest = items[-1], items[:-1]
    return some(Agg("tuple", "tuple", [Cell(Ref(head)), Cell(Ref(Cell(VecV("_", rest))))]))


@model(r"^core::slice::<impl \[.*\]>::(sort|sort_unstable)$|^(std::vec::)?Vec::<.*>::(sort|sort_unstable)$")
def m_slice_sort(engine, ctx, args, callee, frame):
    items = _seq_of(engine, ctx, args[0])
    vals = [c.v for c in items]
    out = []
    for x in vals:           # stable insertion sort, forking on comparisons
        a = deref(x)
        if not isinstance(a, Int):
            raise Untranslatable("sort of %s" % type(a).__name__)
        k = len(out)
        while k > 0 and ctx.branch(int_binop("Lt", a, deref(out[k - 1]))):
            k -= 1
        out.insert(k, x)
    for c, x in zip(items, out):
        c.v = x
    return unit()


# ------------------------------------------------------------------ sets

@model(r"^(HashSet|IndexSet|BTreeSet)::<.*>::(is_superset|is_disjoint)$")
def m_set_rel(engine, ctx, args, callee, frame):
    a, b = get_map(args[0]), get_map(args[1])
    if callee.endswith("is_superset"):
        for k in b.items:
            if not a.contains(engine, ctx, k):
                return False
        return True
    for k in a.items:
        if b.contains(engine, ctx, k):
            return False
    return True


@model(r"^(HashSet|IndexSet|BTreeSet)::<.*>::(difference|intersection|union|symmetric_difference)(::<.*>)?$")
def m_set_ops(engine, ctx, args, callee, frame):
    a, b = get_map(args[0]), get_map(args[1])
    name = re.search(r"::(difference|intersection|union|symmetric_difference)", callee).group(1)
    out = []
    if name in ("difference", "symmetric_difference"):
        out += [k for k in a.items if not b.contains(engine, ctx, k)]
    if name == "symmetric_difference":
        out += [k for k in b.items if not a.contains(engine, ctx, k)]
    if name == "intersection":
        out += [k for k in a.items if b.contains(engine, ctx, k)]
    if name == "union":
        out += list(a.items) + [k for k in b.items if not a.contains(engine, ctx, k)]
    cells = [Cell(k) for k in out]
    return IterV("seq", items=cells, idx=0, end=len(cells), by_ref=True)


@model(r"^(HashSet|IndexSet|BTreeSet)::<.*>::retain::<")
def m_set_retain(engine, ctx, args, callee, frame):
    s = get_map(args[0])
    keep = []
    for k in list(s.items):
        if ctx.branch(engine.call_closure(args[1], [Ref(Cell(k))])):
            keep.append(k)
    s.items[:] = keep
    return unit()


@model(r"^<(HashSet|IndexSet|BTreeSet)<.*> as Extend<.*>>::extend::<")
def m_set_extend(engine, ctx, args, callee, frame):
    s = get_map(args[0])
    for x in drain(engine, ctx, as_iter(engine, ctx, args[1])):
        s.insert(engine, ctx, x)
    return unit()


@model(r"^(HashSet|IndexSet|BTreeSet)::<.*>::(get|take)::<")
def m_set_get(engine, ctx, args, callee, frame):
    s = get_map(args[0])
    for i, k in enumerate(s.items):
        if key_eq(engine, ctx, k, args[1]):
            if "::take::<" in callee:
                s.items.pop(i)
                return some(k)
            return some(Ref(Cell(k)))
    return none()


@model(r"^(IndexSet|BTreeSet)::<.*>::(first|last)$")
def m_set_first(engine, ctx, args, callee, frame):
    s = get_map(args[0])
    if "BTreeSet" in callee:
        raise Untranslatable("call " + callee)
    if not s.items:
        return none()
    return some(Ref(Cell(s.items[0 if callee.endswith("first") else -1])))


@model(r"^(IndexSet)::<.*>::get_index$")
def m_indexset_get_index(engine, ctx, args, callee, frame):
    s = get_map(args[0])
    i = ctx.concretize(args[1], len(s.items) + 2, "get_index")
    if i >= len(s.items):
        return none()
    return some(Ref(Cell(s.items[i])))


# ------------------------------------------------------------------ maps

@model(r"^(HashMap|IndexMap|BTreeMap)::<.*>::retain::<")
def m_map_retain(engine, ctx, args, callee, frame):
    mp = get_map(args[0])
    keep = []
    for k, c in list(mp.entries):
        if ctx.branch(engine.call_closure(args[1], [Ref(Cell(k)), Ref(c)])):
            keep.append((k, c))
    mp.entries[:] = keep
    return unit()


@model(r"^(IndexMap)::<.*>::(first|last)$")
def m_indexmap_first(engine, ctx, args, callee, frame):
    mp = get_map(args[0])
    if not mp.entries:
        return none()
    k, c = mp.entries[0 if callee.endswith("first") else -1]
    return some(Agg("tuple", "tuple", [Cell(Ref(Cell(k))), Cell(Ref(c))]))


@model(r"^(IndexMap)::<.*>::get_index$")
def m_indexmap_get_index(engine, ctx, args, callee, frame):
    mp = get_map(args[0])
    i = ctx.concretize(args[1], len(mp.entries) + 2, "get_index")
    if i >= len(mp.entries):
        return none()
    k, c = mp.entries[i]
    return some(Agg("tuple", "tuple", [Cell(Ref(Cell(k))), Cell(Ref(c))]))


@model(r"^<(HashMap|IndexMap|BTreeMap)<.*> as Extend<.*>>::extend::<")
def m_map_extend(engine, ctx, args, callee, frame):
    mp = get_map(args[0])
    for x in drain(engine, ctx, as_iter(engine, ctx, args[1])):
        x = deref(x)
        mp.insert(engine, ctx, x.fields[0].v, x.fields[1].v)
    return unit()


@model(r"^(HashMap|IndexMap|BTreeMap)::<.*>::(get_key_value)::<")
def m_map_get_key_value(engine, ctx, args, callee, frame):
    mp = get_map(args[0])
    i = mp.find(engine, ctx, args[1])
    if i is None:
        return none()
    k, c = mp.entries[i]
    return some(Agg("tuple", "tuple", [Cell(Ref(Cell(k))), Cell(Ref(c))]))


# ------------------------------------------------------------------ indexing by usize (v[i] on Vec / slices / arrays behind a call)

@model(r"^<(?:std::vec::)?Vec<.*> as (?:std::ops::)?Index(Mut)?<usize>>::index(_mut)?$|^<\[.*\] as (?:std::ops::)?Index(Mut)?<usize>>::index(_mut)?$")
def m_index_usize(engine, ctx, args, callee, frame):
    v, idx = args
    tgt = engine.apply_window(v) if (isinstance(v, Ref) and v.window is not None) else deref(v)
    if isinstance(tgt, Bytes):
        if ctx.branch(int_binop("Lt", idx, tgt.len)):
            return Ref(Cell(tgt.byte(idx)))
        raise Panic("index out of bounds", _site(frame), kind="bounds")
    items = seq_cells(engine, ctx, v)
    if not ctx.branch(int_binop("Lt", idx, Int(len(items), 64))):
        raise Panic("index out of bounds: the len is %d" % len(items), _site(frame), kind="bounds")
    k = ctx.concretize(idx, len(items) + 1, "index")
    return Ref(items[k])


# ------------------------------------------------------------------ strings

@model(r"^(std::string::)?String::push_str$")
def m_string_push_str(engine, ctx, args, callee, frame):
    cell = deref_cell(args[0])
    a = M.as_bytes(engine, cell.v)
    b = M.as_bytes(engine, args[1])
    na = ctx.concretize(a.len, 4096, "string length")
    nb = ctx.concretize(b.len, 4096, "string length")
    cell.v = M.bytes_from_ints([a.byte(i) for i in range(na)] + [b.byte(i) for i in range(nb)], utf8=True)
    return unit()


@model(r"^(std::string::)?String::push$")
def m_string_push(engine, ctx, args, callee, frame):
    cell = deref_cell(args[0])
    ch = args[1]
    cp = ctx.concretize(ch, 64, "char")
    enc = chr(cp).encode("utf-8")
    a = M.as_bytes(engine, cell.v)
    na = ctx.concretize(a.len, 4096, "string length")
    cell.v = M.bytes_from_ints([a.byte(i) for i in range(na)] + [Int(x, 8) for x in enc], utf8=True)
    return unit()


@model(r"^core::str::<impl str>::(starts_with|ends_with)::<&str>$|^core::str::<impl str>::(starts_with|ends_with)::<&(std::string::)?String>$")
def m_str_starts_with(engine, ctx, args, callee, frame):
    a = M.as_bytes(engine, args[0])
    b = M.as_bytes(engine, args[1])
    nb = ctx.concretize(b.len, 4096, "pattern length")
    if not ctx.branch(int_binop("Ge", a.len, Int(nb, 64))):
        return False
    c = True
    for i in range(nb):
        ai = Int(i, 64) if "starts_with" in callee else int_binop("Add", int_binop("Sub", a.len, Int(nb, 64)), Int(i, 64))
        c = b_and(c, int_binop("Eq", a.byte(ai), b.byte(i)))
    return c


@model(r"^(std::string::)?String::(as_str|as_mut_str)$|^<(std::string::)?String as (std::ops::)?Deref>::deref$|^(std::string::)?String::as_bytes$|^core::str::<impl str>::as_bytes$|^<(std::string::)?String as AsRef<(str|\[u8\])>>::as_ref$|^<str as AsRef<(str|\[u8\])>>::as_ref$")
def m_string_as_str(engine, ctx, args, callee, frame):
    return Ref(deref_cell(args[0]))


@model(r"^<.* as ToString>::to_string$", generic=True)
def m_opaque_to_string(engine, ctx, args, callee, frame):
    """to_string of a value of an external text format that was obtained by parsing: the text it was parsed from
    (the same parse/print-inverse assumption as everywhere else for url, urn, ...)"""
    v = deref(args[0])
    if isinstance(v, Opaque) and isinstance(v.payload, Bytes):
        return v.payload
    fn = engine.program.resolve(callee, frame.fn if frame else None)
    if fn is not None:
        return engine.run_fn(fn, args)
    raise Untranslatable("call " + callee)


@model(r"^(std::vec::)?Vec::<.*>::dedup_by::<|^(std::vec::)?Vec::<.*>::dedup_by_key::<")
def m_vec_dedup_by(engine, ctx, args, callee, frame):
    """removes all but the first of consecutive elements for which same_bucket(&mut later, &mut earlier) holds"""
    v = deref(args[0])
    if not isinstance(v, VecV):
        raise Untranslatable("dedup_by on %s" % type(v).__name__)
    by_key = "dedup_by_key" in callee
    out = []
    for c in v.items:
        if out:
            if by_key:
                ka = engine.call_closure(args[1], [Ref(c)])
                kb = engine.call_closure(args[1], [Ref(out[-1])])
                same = key_eq(engine, ctx, ka, kb)
            else:
                same = ctx.branch(engine.call_closure(args[1], [Ref(c), Ref(out[-1])]))
            if same:
                continue
        out.append(c)
    v.items[:] = out
    return unit()


@model(r"^(std::cmp::|core::cmp::)?Ordering::(then_with)::<|^(std::cmp::|core::cmp::)?Ordering::(then|reverse)$")
def m_ordering_then(engine, ctx, args, callee, frame):
    o = deref(args[0])
    name = re.search(r"Ordering::(then_with|then|reverse)", callee).group(1)
    var = o.variant if isinstance(o, EnumV) else {-1: "Less", 0: "Equal", 1: "Greater"}[o.v]
    if name == "reverse":
        return M.ordering({"Less": 1, "Equal": 0, "Greater": -1}[var])
    if var != "Equal":
        return o
    return engine.call_closure(args[1], []) if name == "then_with" else args[1]


@model(r"^(HashSet|IndexSet|BTreeSet)::<.*>::replace$")
def m_set_replace(engine, ctx, args, callee, frame):
    """adds the value, replacing (and returning) an equal one that is already there"""
    st = get_map(args[0])
    for i, k in enumerate(st.items):
        if key_eq(engine, ctx, k, args[1]):
            st.items[i] = args[1]
            return some(k)
    st.insert(engine, ctx, args[1])
    return none()


@model(r"^IndexSet::<.*>::(insert_full|replace_full)$")
def m_indexset_insert_full(engine, ctx, args, callee, frame):
    st = get_map(args[0])
    for i, k in enumerate(st.items):
        if key_eq(engine, ctx, k, args[1]):
            if callee.endswith("replace_full"):
                st.items[i] = args[1]
                return Agg("tuple", "tuple", [Cell(Int(i, 64)), Cell(some(k))])
            return Agg("tuple", "tuple", [Cell(Int(i, 64)), Cell(False)])
    st.items.append(args[1])
    if callee.endswith("replace_full"):
        return Agg("tuple", "tuple", [Cell(Int(len(st.items) - 1, 64)), Cell(none())])
    return Agg("tuple", "tuple", [Cell(Int(len(st.items) - 1, 64)), Cell(True)])


# ------------------------------------------------------------------ chunks / copy_from_slice

@model(r"^core::slice::<impl \[.*\]>::(chunks|chunks_exact)$")
def m_slice_chunks(engine, ctx, args, callee, frame):
    """sub-slices of n elements; `chunks` keeps a shorter last chunk, `chunks_exact` drops it"""
    v = args[0]
    n = ctx.concretize(args[1], 4096, "chunk size")
    if n == 0:
        raise Panic("chunk size must be non-zero", _site(frame))
    exact = callee.endswith("chunks_exact")
    tgt = engine.apply_window(v) if (isinstance(v, Ref) and v.window is not None) else deref(v)
    out = []
    if isinstance(tgt, Bytes):
        total = ctx.concretize(tgt.len, 4096, "length of a chunked slice")
        k = 0
        while k < total:
            m = min(n, total - k)
            if m < n and exact:
                break
            out.append(Cell(Ref(Cell(Bytes(tgt.arr, int_binop("Add", tgt.off, Int(k, 64)), Int(m, 64))))))
            k += m
    else:
        items = seq_cells(engine, ctx, v)
        for k in range(0, len(items), n):
            part = items[k:k + n]
            if len(part) < n and exact:
                break
            out.append(Cell(Ref(Cell(VecV("_", part)))))
    return IterV("seq", items=out, idx=0, end=len(out), by_ref=False)


@model(r"^core::slice::<impl \[.*\]>::(copy_from_slice|clone_from_slice)$")
def m_copy_from_slice(engine, ctx, args, callee, frame):
    dst_cell = deref_cell(args[0])
    dst = dst_cell.v
    src = args[1]
    sb = None
    try:
        sb = M.as_bytes(engine, src)
    except Untranslatable:
        pass
    if isinstance(dst, Agg) and dst.kind == "array" and sb is not None:
        n = len(dst.fields)
        if not ctx.branch(int_binop("Eq", sb.len, Int(n, 64))):
            raise Panic("source slice length does not match destination slice length (%d)" % n, _site(frame), kind="bounds")
        for i, c in enumerate(dst.fields):
            c.v = sb.byte(i)
        return unit()
    if isinstance(dst, Bytes) and sb is not None:
        if not ctx.branch(int_binop("Eq", sb.len, dst.len)):
            raise Panic("source slice length does not match destination slice length", _site(frame), kind="bounds")
        n = ctx.concretize(dst.len, 4096, "copy length")
        arr = dst.arr
        for i in range(n):
            arr = z3.Store(arr, int_binop("Add", dst.off, Int(i, 64)).z3(), sb.byte(i).z3())
        dst_cell.v = Bytes(arr, dst.off, dst.len, getattr(dst, "utf8", False))
        return unit()
    d_items = seq_cells(engine, ctx, args[0])
    s_items = seq_cells(engine, ctx, src)
    if len(d_items) != len(s_items):
        raise Panic("source slice length (%d) does not match destination slice length (%d)" % (len(s_items), len(d_items)), _site(frame), kind="bounds")
    for d, x in zip(d_items, s_items):
        d.v = deep_copy(x.v)
    return unit()


@model(r"^core::slice::<impl \[.*\]>::concat::<u8>$")
def m_slice_concat_u8(engine, ctx, args, callee, frame):
    out = []
    for c in seq_cells(engine, ctx, args[0]):
        b = M.as_bytes(engine, c.v)
        n = ctx.concretize(b.len, 4096, "concat part length")
        out += [b.byte(i) for i in range(n)]
    return M.bytes_from_ints(out)


@model(r"^<(std::collections::)?(hash_set::|btree_set::)?(HashSet|BTreeSet|IndexSet)<.*> as PartialEq>::(eq|ne)$")
def m_set_eq(engine, ctx, args, callee, frame):
    """set equality: same cardinality and every element of one contained in the other (elements compared through
    the engine's key equality, which forks on symbolic keys)"""
    a, b = deref(args[0]), deref(args[1])
    if not (isinstance(a, M.SetV) and isinstance(b, M.SetV)):
        raise Untranslatable("set == on %s / %s" % (type(a).__name__, type(b).__name__))
    eq = len(a.items) == len(b.items) and all(b.contains(engine, ctx, x) for x in a.items)
    return (not eq) if callee.endswith("::ne") else eq
