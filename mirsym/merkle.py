"""Ideal-hash model of rs_merkle 1.5 (MerkleTree / MerkleProof / PartialTree).

The algorithms are a line-by-line port of rs_merkle's Rust source; only the hash is
replaced.  Symbolic mode: a hash is a term of the free algebra Leaf(id) | Node(l, r)
(collision free by construction), so equality of hashes is equality of terms.  Concrete
mode (used only to validate this port against the real crate): real SHA-256 over bytes.
"""
import hashlib
import re
import z3

from .engine import (Int, Agg, EnumV, Ref, Cell, Bytes, VecV, Opaque, Untranslatable, Panic,
                     int_binop, to_bool, b_and, b_or, b_not, bz3, unit, deep_copy, bytes_from_ints)
from . import models as M
from .models import model, ok, err, some, none, deref, deref_cell


class HashV:
    """a 32-byte hash value as an algebraic term"""
    __slots__ = ("kind", "a", "b")
    hash_term = True

    def __init__(self, kind, a, b=None):
        self.kind = kind   # 'leaf' (a = z3 BV / python int id) | 'node' (a, b HashV) | 'data' (a = key of hashed data)
        self.a = a
        self.b = b

    def clone(self):
        return self

    def __repr__(self):
        if self.kind == "leaf":
            return "L(%s)" % (self.a,)
        if self.kind == "node":
            return "N(%r,%r)" % (self.a, self.b)
        return "H(%s)" % (self.a,)


def hash_eq(ctx, x, y):
    """condition (python bool / z3 Bool) that two hash values are equal under the ideal-hash assumption"""
    if isinstance(x, HashV) and isinstance(y, HashV):
        if x.kind != y.kind:
            return False
        if x.kind == "leaf":
            ax = x.a if z3.is_expr(x.a) else z3.BitVecVal(x.a, 16)
            ay = y.a if z3.is_expr(y.a) else z3.BitVecVal(y.a, 16)
            return to_bool(ax == ay)
        if x.kind == "node":
            return b_and(hash_eq(ctx, x.a, y.a), hash_eq(ctx, x.b, y.b))
        if len(x.a) != len(y.a):
            return False
        c = True
        for p, q in zip(x.a, y.a):
            c = b_and(c, int_binop("Eq", p, q))
        return c
    if (isinstance(x, HashV) or isinstance(y, HashV)) and ctx is not None and getattr(ctx, "sha_bytes", False):
        # opt-in (C16): SHA-256 of data against 32 stored bytes, decided with Ackermann constraints
        t, raw = (x, y) if isinstance(x, HashV) else (y, x)
        rb = raw_bytes32(raw)
        if t.kind == "data" and rb is not None:
            return to_bool(sha_bv(ctx, t.a) == z3.Concat(*[b.z3() for b in rb]))
    if isinstance(x, HashV) or isinstance(y, HashV):
        # a hash term compared with raw bytes: a Node is never equal to a *leaf given as raw bytes* in the
        # harnesses (leaves are data, nodes are hashes of data); against other raw bytes nothing is known
        t = x if isinstance(x, HashV) else y
        if ctx is None or t.kind == "node":
            return False
        return ctx.fresh_bool("hash_eq_bytes")
    # two raw 32-byte values
    return M.eq_formula(None, x, y)


def raw_bytes32(v):
    """[Int;32] of a raw 32-byte array value (possibly behind a Ref / newtype), else None"""
    for _ in range(4):
        if isinstance(v, Ref):
            v = v.cell.v
        elif isinstance(v, Agg) and v.kind == "struct" and len(v.fields) == 1:
            v = v.fields[0].v
        else:
            break
    if isinstance(v, Agg) and v.kind == "array" and len(v.fields) == 32 and all(isinstance(c.v, Int) for c in v.fields):
        return [c.v for c in v.fields]
    return None


def sha_bv(ctx, data):
    """256-bit vector standing for SHA-256(data) (data: list of Int bytes, concrete length) under the
    ideal-hash assumption.  Every application gets a fresh vector; pairwise Ackermann constraints make the
    function well defined and injective: same length: x == y <=> h(x) == h(y); different length: h differ."""
    apps = ctx.__dict__.setdefault("sha_apps", [])
    n = len(data)
    x = None if n == 0 else (data[0].z3() if n == 1 else z3.Concat(*[b.z3() for b in data]))
    for (m, y, h) in apps:
        if m == n and (n == 0 or x.eq(y)):
            return h
    h = ctx.fresh_bv("sha", 256)
    for (m, y, g) in apps:
        if m == n:
            ctx.add((x == y) == (h == g))
        else:
            ctx.add(h != g)
    apps.append((n, x, h))
    return h


def concat_and_hash(left, right):
    if right is None:
        return left
    return HashV("node", left, right)


# ---- utils::indices -------------------------------------------------------

def sibling_index(i):
    return i + 1 if i % 2 == 0 else i - 1


def parent_index(i):
    return i // 2 if i % 2 == 0 else sibling_index(i) // 2


def parent_indices(idx):
    out = []
    for i in idx:
        p = parent_index(i)
        if not out or out[-1] != p:        # Vec::dedup removes consecutive duplicates
            out.append(p)
    return out


def tree_depth(n):
    return n.bit_length()      # 8 * size_of::<usize>() - leading_zeros(n)


def uneven_layers(n):
    out = {}
    cnt = n
    for index in range(tree_depth(n)):
        if cnt % 2 != 0:
            out[index] = cnt
        cnt = cnt // 2 + (1 if cnt % 2 else 0)
    return out


def difference(a, b):
    return [x for x in a if x not in b]


def proof_indices_by_layers(sorted_leaf_indices, leaves_count):
    depth = tree_depth(leaves_count)
    uneven = uneven_layers(leaves_count)
    layer_nodes = list(sorted_leaf_indices)
    out = []
    for layer_index in range(depth):
        sib = [sibling_index(i) for i in layer_nodes]
        if layer_index in uneven:
            if layer_nodes:
                if layer_nodes[-1] == uneven[layer_index] - 1:
                    sib.pop()
        out.append(difference(sib, layer_nodes))
        layer_nodes = parent_indices(layer_nodes)
    return out


# ---- PartialTree ----------------------------------------------------------

class NotEnoughHelperNodes(Exception):
    pass


def build_tree(partial_layers, full_tree_depth, H=concat_and_hash):
    partial_tree = []
    current_layer = []
    reversed_layers = list(reversed(partial_layers))
    for _ in range(full_tree_depth):
        if reversed_layers:
            current_layer.extend(reversed_layers.pop())
        current_layer.sort(key=lambda t: t[0])      # stable, like sort_by
        partial_tree.append(list(current_layer))
        indices = [t[0] for t in current_layer]
        nodes = [t[1] for t in current_layer]
        current_layer = []
        for i, p in enumerate(parent_indices(indices)):
            if i * 2 < len(nodes):
                right = nodes[i * 2 + 1] if i * 2 + 1 < len(nodes) else None
                current_layer.append((p, H(nodes[i * 2], right)))
            else:
                raise NotEnoughHelperNodes()
    partial_tree.append(list(current_layer))
    return partial_tree


class PartialTree:
    def __init__(self, layers=None):
        self.layers = layers if layers is not None else []

    def clone(self):
        return PartialTree([list(l) for l in self.layers])

    def root(self):
        if not self.layers or not self.layers[-1]:
            return None
        return self.layers[-1][0][1]

    def contains(self, layer_index, node_index):
        if layer_index < len(self.layers):
            return any(i == node_index for i, _ in self.layers[layer_index])
        return False

    def merge_unverified(self, other):
        if len(other.layers) < len(self.layers):
            # `other.layers().len() - self.layers().len()` on usize: overflow panic in dev builds
            raise Panic("attempt to subtract with overflow (rs_merkle PartialTree::merge_unverified)")
        depth_difference = len(other.layers) - len(self.layers)
        combined = len(other.layers) if depth_difference > 0 else len(self.layers)
        for li in range(combined):
            layer = []
            if li < len(self.layers):
                layer.extend([t for t in self.layers[li] if not other.contains(li, t[0])])
            if li < len(other.layers):
                layer.extend(other.layers[li])
            layer.sort(key=lambda t: t[0])
            if li < len(self.layers):
                self.layers[li] = layer
            else:
                self.layers.append(layer)


# ---- MerkleTree -----------------------------------------------------------

class MerkleTreeV:
    def __init__(self, H=concat_and_hash):
        self.current = PartialTree()
        self.history = []
        self.uncommitted = []
        self.H = H

    def clone(self):
        t = MerkleTreeV(self.H)
        t.current = self.current.clone()
        t.history = [h.clone() for h in self.history]
        t.uncommitted = list(self.uncommitted)
        return t

    def layer_tuples(self):
        return self.current.layers

    def leaves_len(self):
        l = self.layer_tuples()
        return len(l[0]) if l else 0

    def leaves(self):
        l = self.layer_tuples()
        if not l:
            return None
        return [h for _, h in l[0]]

    def root(self):
        l = self.layer_tuples()
        if not l or not l[-1]:
            return None
        return l[-1][0][1]

    def helper_node_tuples(self, leaf_indices):
        cur = list(leaf_indices)
        out = []
        for tree_layer in self.layer_tuples():
            helpers = []
            sib = [sibling_index(i) for i in cur]
            for index in difference(sib, cur):
                if index < len(tree_layer):        # tree_layer.get(index): positional!
                    helpers.append(tree_layer[index])
            out.append(helpers)
            cur = parent_indices(cur)
        return out

    def proof(self, leaf_indices):
        hs = []
        for layer in self.helper_node_tuples(leaf_indices):
            for _, h in layer:
                hs.append(h)
        return MerkleProofV(hs, self.H)

    def uncommitted_diff(self):
        if not self.uncommitted:
            return None
        committed = self.leaves_len()
        shadow_indices = [committed + i for i in range(len(self.uncommitted))]
        shadow_tuples = list(zip(shadow_indices, self.uncommitted))
        partial = self.helper_node_tuples(shadow_indices)
        depth = tree_depth(self.leaves_len() + len(self.uncommitted))
        if partial:
            partial[0].extend(shadow_tuples)
            partial[0].sort(key=lambda t: t[0])
        else:
            partial.append(shadow_tuples)
        try:
            return PartialTree(build_tree(partial, depth, self.H))
        except NotEnoughHelperNodes:
            return None

    def commit(self):
        diff = self.uncommitted_diff()
        if diff is not None:
            self.history.append(diff.clone())
            self.current.merge_unverified(diff)
            self.uncommitted = []

    def rollback(self):
        if self.history:
            self.history.pop()
        self.current = PartialTree()
        for c in self.history:
            self.current.merge_unverified(c.clone())


class MerkleProofV:
    def __init__(self, hashes, H=concat_and_hash):
        self.hashes = list(hashes)
        self.H = H

    def clone(self):
        return MerkleProofV(self.hashes, self.H)

    def eq_formula(self, engine, other, bound):
        if not isinstance(other, MerkleProofV) or len(self.hashes) != len(other.hashes):
            return False
        c = True
        for x, y in zip(self.hashes, other.hashes):
            c = b_and(c, M.eq_formula(engine, x, y, bound))
        return c

    def root(self, leaf_indices, leaf_hashes, total):
        """returns hash or None (Err)"""
        if len(leaf_indices) != len(leaf_hashes):
            return None
        depth = tree_depth(total)
        leaf_tuples = sorted(zip(leaf_indices, leaf_hashes), key=lambda t: t[0])
        sorted_indices = [t[0] for t in leaf_tuples]
        pil = proof_indices_by_layers(sorted_indices, total)
        proof_layers = []
        copy = list(self.hashes)
        for pi in pil:
            if len(copy) < len(pi):
                return None
            taken = copy[:len(pi)]
            del copy[:len(pi)]
            proof_layers.append(list(zip(pi, taken)))
        if proof_layers:
            proof_layers[0].extend(leaf_tuples)
            proof_layers[0].sort(key=lambda t: t[0])
        else:
            proof_layers.append(leaf_tuples)
        try:
            layers = build_tree(proof_layers, depth, self.H)
        except NotEnoughHelperNodes:
            return None
        if not layers or not layers[-1]:
            return None
        return layers[-1][0][1]


# ---- concrete mode (validation of this port against the real crate) -------

def sha_concat(left, right):
    if right is None:
        return left
    return hashlib.sha256(left + right).digest()


def concrete_tree(leaves):
    t = MerkleTreeV(sha_concat)
    t.uncommitted = list(leaves)
    t.commit()
    return t


# ---- mirsym models ----------------------------------------------------------

def get_tree(v):
    o = deref(v)
    if not isinstance(o, MerkleTreeV):
        raise Untranslatable("MerkleTree operation on %s" % type(o).__name__)
    return o


def get_proof(v):
    o = deref(v)
    if not isinstance(o, MerkleProofV):
        raise Untranslatable("MerkleProof operation on %s" % type(o).__name__)
    return o


def hash_items(engine, ctx, v):
    """Vec<[u8;32]> / &[[u8;32]] value -> python list of hash values"""
    return [c.v for c in M.seq_items(engine, ctx, v, False)]


def concrete_usizes(engine, ctx, v, what):
    out = []
    for c in M.seq_items(engine, ctx, v, False):
        x = deref(c.v)
        out.append(ctx.concretize(x, 64, what))
    return out


@model(r"^(rs_merkle::)?MerkleTree::<.*>::new$|^<(rs_merkle::)?MerkleTree<.*> as Default>::default$")
def m_tree_new(engine, ctx, args, callee, frame):
    return MerkleTreeV()


@model(r"^(rs_merkle::)?MerkleTree::<.*>::from_leaves$")
def m_tree_from_leaves(engine, ctx, args, callee, frame):
    t = MerkleTreeV()
    t.uncommitted = hash_items(engine, ctx, args[0])
    t.commit()
    return t


@model(r"^(rs_merkle::)?MerkleTree::<.*>::insert$")
def m_tree_insert(engine, ctx, args, callee, frame):
    get_tree(args[0]).uncommitted.append(args[1])
    return args[0]


@model(r"^(rs_merkle::)?MerkleTree::<.*>::append$")
def m_tree_append(engine, ctx, args, callee, frame):
    t = get_tree(args[0])
    cell = deref_cell(args[1])
    t.uncommitted.extend(hash_items(engine, ctx, cell.v))
    v = cell.v
    if isinstance(v, VecV):
        v.items[:] = []      # Vec::append drains the argument
    return args[0]


@model(r"^(rs_merkle::)?MerkleTree::<.*>::commit$")
def m_tree_commit(engine, ctx, args, callee, frame):
    get_tree(args[0]).commit()
    return unit()


@model(r"^(rs_merkle::)?MerkleTree::<.*>::rollback$")
def m_tree_rollback(engine, ctx, args, callee, frame):
    get_tree(args[0]).rollback()
    return unit()


@model(r"^(rs_merkle::)?MerkleTree::<.*>::leaves_len$")
def m_tree_leaves_len(engine, ctx, args, callee, frame):
    return Int(get_tree(args[0]).leaves_len(), 64)


@model(r"^(rs_merkle::)?MerkleTree::<.*>::depth$")
def m_tree_depth(engine, ctx, args, callee, frame):
    t = get_tree(args[0])
    if not t.layer_tuples():
        raise Panic("attempt to subtract with overflow (MerkleTree::depth on an empty tree)")
    return Int(len(t.layer_tuples()) - 1, 64)


@model(r"^(rs_merkle::)?MerkleTree::<.*>::leaves$")
def m_tree_leaves(engine, ctx, args, callee, frame):
    l = get_tree(args[0]).leaves()
    if l is None:
        return none()
    return some(VecV("[u8; 32]", [Cell(h) for h in l]))


@model(r"^(rs_merkle::)?MerkleTree::<.*>::root$")
def m_tree_root(engine, ctx, args, callee, frame):
    r = get_tree(args[0]).root()
    return none() if r is None else some(r)


@model(r"^(rs_merkle::)?MerkleTree::<.*>::proof$")
def m_tree_proof(engine, ctx, args, callee, frame):
    idx = concrete_usizes(engine, ctx, args[1], "proof index")
    return get_tree(args[0]).proof(idx)


@model(r"^(rs_merkle::)?MerkleProof::<.*>::new$")
def m_proof_new(engine, ctx, args, callee, frame):
    return MerkleProofV(hash_items(engine, ctx, args[0]))


@model(r"^(rs_merkle::)?MerkleProof::<.*>::proof_hashes$")
def m_proof_hashes(engine, ctx, args, callee, frame):
    p = get_proof(args[0])
    return Ref(Cell(VecV("[u8; 32]", [Cell(h) for h in p.hashes])))


@model(r"^(rs_merkle::)?MerkleProof::<.*>::verify$")
def m_proof_verify(engine, ctx, args, callee, frame):
    p = get_proof(args[0])
    root = args[1]
    idx = concrete_usizes(engine, ctx, args[2], "verify index")
    leaves = hash_items(engine, ctx, args[3])
    total = ctx.concretize(args[4], 64, "total leaves count")
    if total > 1 << 20:
        raise Untranslatable("verify with total_leaves_count %d" % total)
    r = p.root(idx, leaves, total)
    if r is None:
        return False
    c = hash_eq(ctx, r, root)
    if c is None:
        c = M.seq_eq(engine, ctx, r, root)
    return c


@model(r"^(rs_merkle::)?MerkleProof::<.*>::to_bytes$")
def m_proof_to_bytes(engine, ctx, args, callee, frame):
    p = get_proof(args[0])
    items = []
    for h in p.hashes:
        if isinstance(h, HashV):
            raise Untranslatable("to_bytes of a symbolic hash term")
        items.extend(c.v for c in h.fields)
    return bytes_from_ints(items)


@model(r"^(rs_merkle::)?MerkleProof::<.*>::from_bytes$")
def m_proof_from_bytes(engine, ctx, args, callee, frame):
    b = M.as_bytes(engine, args[0])
    rem = int_binop("Rem", b.len, Int(32, 64))
    if not ctx.branch(int_binop("Eq", rem, Int(0, 64))):
        return err(Opaque("rs_merkle::Error", "wrong proof size"))
    n = ctx.concretize(b.len, 64, "proof length") // 32
    ctx.note("alloc", size=Int(n, 64), elem="[u8; 32]", what="proof hashes")
    hs = []
    for i in range(n):
        hs.append(Agg("array", None, [Cell(b.byte(i * 32 + j)) for j in range(32)]))
    return ok(MerkleProofV(hs))


@model(r"^<(rs_merkle::)?(algorithms::)?Sha256(Algorithm)? as (rs_merkle::)?Hasher>::hash$")
def m_sha256(engine, ctx, args, callee, frame):
    """ideal hash of a byte string: equal inputs give equal terms, distinct inputs distinct terms.
    Only concrete-length inputs are supported (the term key is the tuple of byte expressions)."""
    b = M.as_bytes(engine, args[0])
    n = ctx.concretize(b.len, 64, "hashed data length")
    return HashV("data", [b.byte(i) for i in range(n)])


@model(r"^<\[u8; \d+\] as (Ord|PartialOrd)>::(cmp|partial_cmp)$|^<\[u8\] as (Ord|PartialOrd)>::(cmp|partial_cmp)$")
def m_bytes_cmp(engine, ctx, args, callee, frame):
    """ordering of two hash values / byte arrays.  Ideal leaf hashes are ordered by their identifiers (an arbitrary
    but fixed injective order, which is all that can be said about the order of SHA-256 values)"""
    a, b = deref(args[0]), deref(args[1])
    if isinstance(a, HashV) and isinstance(b, HashV) and a.kind == "leaf" and b.kind == "leaf":
        ax = a.a if z3.is_expr(a.a) else z3.BitVecVal(a.a, 16)
        bx = b.a if z3.is_expr(b.a) else z3.BitVecVal(b.a, 16)
        if ctx.branch(z3.ULT(ax, bx)):
            r = -1
        elif ctx.branch(ax == bx):
            r = 0
        else:
            r = 1
    elif isinstance(a, HashV) or isinstance(b, HashV):
        raise Untranslatable("ordering of a hash term and raw bytes")
    else:
        r = M.compare_values(engine, ctx, a, b)
    o = M.ordering(r)
    return some(o) if callee.endswith("partial_cmp") else o
