"""Declarations scanned from /repo's current sources: enum variant order (MIR prints
variants by name in aggregates and by number in switchInt) and the `impl` headers
behind `<impl at file:line:col: ...>` names."""
import os
import re


class DeclError(Exception):
    pass


LAST_IMPL_GENERICS = []


def strip_comments(src):
    out = []
    i = 0
    n = len(src)
    while i < n:
        c = src[i]
        if c == "/" and i + 1 < n and src[i + 1] == "/":
            j = src.find("\n", i)
            if j < 0:
                j = n
            out.append(" " * (j - i))
            i = j
            continue
        if c == "/" and i + 1 < n and src[i + 1] == "*":
            depth = 1
            j = i + 2
            while j < n and depth:
                if src.startswith("/*", j):
                    depth += 1
                    j += 2
                elif src.startswith("*/", j):
                    depth -= 1
                    j += 2
                else:
                    j += 1
            seg = src[i:j]
            out.append(re.sub(r"[^\n]", " ", seg))
            i = j
            continue
        if c == '"':
            j = i + 1
            while j < n:
                if src[j] == "\\":
                    j += 2
                    continue
                if src[j] == '"':
                    break
                j += 1
            seg = src[i:j + 1]
            out.append('"' + re.sub(r"[^\n]", "_", seg[1:-1]) + '"')
            i = j + 1
            continue
        out.append(c)
        i += 1
    return "".join(out)


def _match_brace(s, i, o="{", c="}"):
    depth = 0
    j = i
    while j < len(s):
        if s[j] == o:
            depth += 1
        elif s[j] == c:
            depth -= 1
            if depth == 0:
                return j
        j += 1
    raise DeclError("unbalanced braces")


def _split_top(s):
    out = []
    depth = 0
    start = 0
    for i, c in enumerate(s):
        if c in "([{<":
            depth += 1
        elif c in ")]}>":
            if c == ">" and i > 0 and s[i - 1] in "-=":
                continue
            depth -= 1
        elif c == "," and depth == 0:
            out.append(s[start:i])
            start = i + 1
    out.append(s[start:])
    return [x.strip() for x in out if x.strip()]


_re_enum = re.compile(r"\benum\s+([A-Za-z_][A-Za-z0-9_]*)\s*(<[^{;]*?>)?\s*(?:where[^{]*)?\{")


class EnumDecl:
    def __init__(self, name, path):
        self.name = name
        self.path = path
        self.variants = []       # [(name, discr)]

    def discr_of(self, vname):
        for n, d in self.variants:
            if n == vname:
                return d
        return None

    def name_of(self, discr):
        for n, d in self.variants:
            if d == discr:
                return n
        return None


def _strip_attrs(s):
    s = s.strip()
    while s.startswith("#"):
        j = s.find("[")
        k = _match_brace(s, j, "[", "]")
        s = s[k + 1:].strip()
    return s


def scan_enums(root_dirs):
    enums = {}
    for root in root_dirs:
        for dp, dn, fnames in os.walk(root):
            if "/target" in dp or "/.git" in dp:
                continue
            for fn in fnames:
                if not fn.endswith(".rs"):
                    continue
                p = os.path.join(dp, fn)
                try:
                    src = strip_comments(open(p, errors="replace").read())
                except OSError:
                    continue
                for m in _re_enum.finditer(src):
                    ob = m.end() - 1
                    try:
                        cb = _match_brace(src, ob)
                    except DeclError:
                        continue
                    body = src[ob + 1:cb]
                    e = EnumDecl(m.group(1), p)
                    nxt = 0
                    ok = True
                    for item in _split_top(body):
                        item = _strip_attrs(item)
                        mm = re.match(r"([A-Za-z_][A-Za-z0-9_]*)", item)
                        if not mm:
                            ok = False
                            break
                        vname = mm.group(1)
                        rest = item[mm.end():].strip()
                        d = nxt
                        md = re.search(r"=\s*(-?(?:0x[0-9a-fA-F_]+|[0-9_]+))\s*$", rest)
                        if md and not rest.startswith(("(", "{")):
                            d = int(md.group(1).replace("_", ""), 0)
                        elif "=" in rest and not rest.startswith(("(", "{")):
                            d = None   # symbolic constant expression: resolved later if needed
                        e.variants.append((vname, d))
                        nxt = (d + 1) if d is not None else None
                        if nxt is None:
                            nxt = len(e.variants)
                    if ok:
                        enums.setdefault(e.name, []).append(e)
    return enums


STD_ENUMS = {
    "Option": [("None", 0), ("Some", 1)],
    "Result": [("Ok", 0), ("Err", 1)],
    "Poll": [("Ready", 0), ("Pending", 1)],
    "ControlFlow": [("Continue", 0), ("Break", 1)],
    "Ordering": [("Less", -1), ("Equal", 0), ("Greater", 1)],
    "SeekFrom": [("Start", 0), ("End", 1), ("Current", 2)],
    "Cow": [("Borrowed", 0), ("Owned", 1)],
    "Bound": [("Included", 0), ("Excluded", 1), ("Unbounded", 2)],
    "Endian": [("Big", 0), ("Little", 1)],
    "Entry": [("Occupied", 0), ("Vacant", 1)],
}


def read_impl_header(repo_root, crate_dir, relpath, line, col):
    """Return the source text starting at (line, col) up to the first '{' or ';' plus,
    for derives, the following item header."""
    candidates = [os.path.join(repo_root, relpath)]
    if relpath.startswith("/"):
        candidates = [relpath]
    for p in candidates:
        if os.path.exists(p):
            lines = open(p, errors="replace").read().split("\n")
            txt = lines[line - 1][col - 1:] + "\n" + "\n".join(lines[line:line + 40])
            return txt
    return None


_re_impl = re.compile(r"^(?:unsafe\s+)?impl\s*(<.*?>)?\s*(.*?)\s*(?:where\b.*)?$", re.S)


def parse_impl_text(txt):
    """-> (trait or None, selftype) ; for derive spans -> (derive name, type name)"""
    txt = strip_comments(txt)
    if re.match(r"^(unsafe\s+)?impl\b", txt):
        head = txt.split("{", 1)[0]
        head = " ".join(head.split())
        # remove leading generics
        rest = re.sub(r"^(unsafe\s+)?impl\s*", "", head)
        global LAST_IMPL_GENERICS
        LAST_IMPL_GENERICS = []
        if rest.startswith("<"):
            depth = 0
            for i, c in enumerate(rest):
                if c == "<":
                    depth += 1
                elif c == ">" and rest[i - 1] != "-":
                    depth -= 1
                    if depth == 0:
                        gen = rest[1:i]
                        for part in _split_top(gen):
                            part = part.strip()
                            if part.startswith("'") or part.startswith("const "):
                                continue
                            LAST_IMPL_GENERICS.append(re.match(r"[A-Za-z_][A-Za-z0-9_]*", part).group(0))
                        rest = rest[i + 1:].strip()
                        break
        rest = re.split(r"\bwhere\b", rest)[0].strip()
        # split ' for ' at top level
        depth = 0
        idx = None
        for i, c in enumerate(rest):
            if c in "<(":
                depth += 1
            elif c in ">)" and not (c == ">" and rest[i - 1] == "-"):
                depth -= 1
            elif depth == 0 and rest.startswith(" for ", i):
                idx = i
                break
        if idx is None:
            return None, rest
        return rest[:idx].strip(), rest[idx + 5:].strip()
    m = re.match(r"^([A-Za-z_][A-Za-z0-9_:]*)", txt)
    if m:
        derive = m.group(1)
        mm = re.search(r"\b(?:struct|enum|union)\s+([A-Za-z_][A-Za-z0-9_]*)", txt)
        if mm:
            return derive, mm.group(1)
    return None, None
